#!/usr/bin/env python
"""Demo for property C14 (map rotation / placement / windowing / symmetrisation share one active convention).

Usage: demo.py [library root]   (default: current directory)
Exits 0 and prints PASS when every clause checked below holds.
"""
import os
import sys

ROOT = os.path.abspath(sys.argv[1]) if len(sys.argv) > 1 else os.getcwd()
sys.path.insert(0, ROOT)

import warnings

import numpy as np
import pandas as pd
from scipy.ndimage import affine_transform
from scipy.spatial.transform import Rotation as R

import cryocat
from cryocat import cryomap
from cryocat.cryomotl import Motl

assert os.path.abspath(cryocat.__file__).startswith(ROOT), (cryocat.__file__, ROOT)

warnings.filterwarnings("ignore", message="Gimbal lock")

FAILURES = []


def check(cond, msg):
    if not cond:
        FAILURES.append(msg)
        print("FAIL:", msg)


def blob(n, centres, sigma=2.5, weights=None):
    """Smooth band-limited map: a sum of Gaussians at the given (float) voxel positions."""
    g = np.indices((n, n, n)).astype(float)
    out = np.zeros((n, n, n))
    for k, c in enumerate(centres):
        w = 1.0 if weights is None else weights[k]
        d2 = sum((g[a] - c[a]) ** 2 for a in range(3))
        out += w * np.exp(-d2 / (2 * sigma**2))
    return out


def ref_rotate(vol, rot):
    """Independent reference: density at offset v from floor(N/2) goes to offset rot*v."""
    c = np.asarray(vol.shape) // 2
    m = rot.as_matrix().T  # pull-back: out[c + o] = in[c + R^T o]
    offset = c - m @ c
    return affine_transform(vol, m, offset=offset, order=3, output=np.float64)


# ---------------------------------------------------------------- clause 1: the 24 cube rotations permute voxels
def check_cube_rotations():
    rng = np.random.default_rng(14)
    group = R.create_group("O")
    assert len(group) == 24
    for n in (7, 8, 5, 6):
        vol = rng.normal(size=(n, n, n))
        c = n // 2
        idx = np.indices((n, n, n)).reshape(3, -1).T
        interior = idx[np.all((idx >= 1) & (idx <= n - 2), axis=1)]
        for k in range(24):
            rot = group[k]
            ang = rot.as_euler("zxz", degrees=True)
            rm = np.rint(R.from_euler("zxz", ang, degrees=True).as_matrix()).astype(int)
            out = cryomap.rotate(vol, rotation_angles=ang)
            check(out.shape == vol.shape, f"cube rot {k} n={n}: shape changed")
            dest = (interior - c) @ rm.T + c
            ok = np.all((dest >= 0) & (dest <= n - 1), axis=1)
            src, dst = interior[ok], dest[ok]
            check(len(src) >= (n - 3) ** 3, f"cube rot {k} n={n}: too few voxels tested")
            err = np.abs(out[dst[:, 0], dst[:, 1], dst[:, 2]] - vol[src[:, 0], src[:, 1], src[:, 2]]).max()
            check(err < 1e-9, f"cube rot {k} n={n}: voxels not permuted to R*v (max err {err:.3g})")
            # the same through a Rotation object, as place_object does it
            out2 = cryomap.rotate(vol, rotation=rot, transpose_rotation=True)
            err2 = np.abs(out2[dst[:, 0], dst[:, 1], dst[:, 2]] - vol[src[:, 0], src[:, 1], src[:, 2]]).max()
            check(err2 < 1e-9, f"cube rot {k} n={n}: rotation= path not active (max err {err2:.3g})")


# ---------------------------------------------------------------- clause 1b: random rotations of smooth blobs
def check_random_rotations():
    rng = np.random.default_rng(141)
    for n in (30, 31):
        c = n // 2
        for trial in range(6):
            rot = R.random(random_state=int(rng.integers(1 << 30)))
            ang = rot.as_euler("zxz", degrees=True)
            offs = rng.uniform(-3.0, 3.0, size=(3, 3))
            wts = np.array([1.0, 0.7, 0.4])
            vol = blob(n, offs + c, sigma=2.5, weights=wts)
            out = cryomap.rotate(vol, rotation_angles=ang)
            # density at offset v must now sit at offset R v
            expect = blob(n, rot.apply(offs) + c, sigma=2.5, weights=wts)
            err = np.abs(out - expect).max()
            check(err < 2e-3, f"random rot n={n} #{trial}: blob not carried to R*v (err {err:.3g})")
            err_ref = np.abs(out - ref_rotate(vol, rot)).max()
            check(err_ref < 1e-9, f"random rot n={n} #{trial}: differs from reference pull-back ({err_ref:.3g})")
            # rotating by the inverse restores the map
            back = cryomap.rotate(out, rotation=rot, transpose_rotation=False)
            errb = np.abs(back - vol).max()
            check(errb < 5e-3, f"random rot n={n} #{trial}: inverse does not restore (err {errb:.3g})")
            back2 = cryomap.rotate(out, rotation_angles=rot.inv().as_euler("zxz", degrees=True))
            errb2 = np.abs(back2 - vol).max()
            check(errb2 < 5e-3, f"random rot n={n} #{trial}: inverse angles do not restore (err {errb2:.3g})")
            # radians are honoured too
            out_rad = cryomap.rotate(vol, rotation_angles=np.deg2rad(ang), degrees=False)
            check(np.abs(out_rad - out).max() < 1e-9, f"random rot n={n} #{trial}: degrees=False differs")


# ---------------------------------------------------------------- clause 2: place_object
def make_motl(pos1, shifts, angles, object_id, cls=None, score=None):
    k = len(pos1)
    df = pd.DataFrame(0.0, index=range(k), columns=Motl.motl_columns)
    df[["x", "y", "z"]] = np.asarray(pos1, dtype=float)
    df[["shift_x", "shift_y", "shift_z"]] = np.asarray(shifts, dtype=float)
    df[["phi", "theta", "psi"]] = np.asarray(angles, dtype=float)
    df["tomo_id"] = 1.0
    df["subtomo_id"] = np.arange(1, k + 1, dtype=float)
    df["object_id"] = np.asarray(object_id, dtype=float)
    df["class"] = np.asarray(cls if cls is not None else np.ones(k), dtype=float)
    df["score"] = np.asarray(score if score is not None else np.zeros(k), dtype=float)
    return Motl(df)


def expected_placement(templates, motl_df, shape, field, start=None):
    out = np.zeros(shape) if start is None else np.array(start, dtype=float)
    for i, (_, row) in enumerate(motl_df.iterrows()):
        tmpl = templates[i] if isinstance(templates, list) else templates
        rot = R.from_euler("zxz", [row["phi"], row["theta"], row["psi"]], degrees=True)
        mask = ref_rotate(np.asarray(tmpl, dtype=float), rot) > 0.1
        pos0 = np.array([row["x"] + row["shift_x"], row["y"] + row["shift_y"], row["z"] + row["shift_z"]]) - 1.0
        assert np.allclose(pos0, np.rint(pos0))
        pos0 = np.rint(pos0).astype(int)
        tc = np.asarray(mask.shape) // 2
        for t in np.argwhere(mask):
            p = pos0 + (t - tc)
            if np.all(p >= 0) and np.all(p < np.asarray(shape)):
                out[tuple(p)] = row[field]
    return out


def lshape(n):
    """An asymmetric binary template (no symmetry, so the orientation matters)."""
    t = np.zeros((n, n, n))
    c = n // 2
    t[c - 2 : c + 3, c, c] = 1.0
    t[c + 2, c : c + 2, c] = 1.0
    t[c - 2, c, c : c + 3] = 1.0
    return t


def check_place_object():
    rng = np.random.default_rng(1414)
    group = R.create_group("O")
    for n_t in (7, 8):
        tmpl = lshape(n_t)
        for k in (1, 2, 5, 20):
            shape = (30, 28, 26)
            pos1 = np.column_stack([rng.integers(1, s + 1, size=k) for s in shape]).astype(float)
            half = rng.integers(0, 2, size=(k, 3)) * 0.5  # x.5 + shift .5 is still a whole complete position
            pos1 = pos1 - half
            shifts = half + rng.integers(-2, 3, size=(k, 3))
            ang = np.array([group[int(j)].as_euler("zxz", degrees=True) for j in rng.integers(0, 24, size=k)])
            oid = rng.permutation(np.arange(1, k + 1))
            cls = rng.integers(1, 4, size=k)
            score = np.round(rng.uniform(0.1, 0.9, size=k), 3)
            m = make_motl(pos1, shifts, ang, oid, cls, score)
            df_before = m.df.copy()
            tmpl_before = tmpl.copy()
            for field in ("object_id", "class", "score"):
                kwargs = {} if field == "object_id" else {"feature_to_color": field}
                got = cryomap.place_object(tmpl, m, volume_shape=shape, **kwargs)
                exp = expected_placement(tmpl, df_before, shape, field)
                check(got.shape == shape, f"place n_t={n_t} k={k} {field}: shape")
                check(np.array_equal(got, exp), f"place n_t={n_t} k={k} {field}: volume differs from expected stamps")
            check(m.df.equals(df_before), f"place n_t={n_t} k={k}: particle list modified")
            check(np.array_equal(tmpl, tmpl_before), f"place n_t={n_t} k={k}: template modified")

    # non right-angle orientations, smooth template (threshold 0.1 acts on interpolated values)
    tmpl = blob(9, [[4, 4, 4], [6.0, 4.0, 4.0], [4.0, 5.5, 3.0]], sigma=1.1)
    k = 6
    shape = (24, 24, 24)
    pos1 = rng.integers(4, 20, size=(k, 3)).astype(float)
    ang = rng.uniform(0, 360, size=(k, 3)) * [1, 0.5, 1]
    m = make_motl(pos1, np.zeros((k, 3)), ang, np.arange(1, k + 1))
    got = cryomap.place_object(tmpl, m, volume_shape=shape)
    exp = expected_placement(tmpl, m.df, shape, "object_id")
    check(np.mean(got != exp) < 2e-4, "place smooth template: stamps differ from expected")

    # list of templates, one per particle; existing volume as the canvas (must not be written into)
    tmpls = [lshape(7), np.ones((3, 3, 3)), lshape(8), np.ones((4, 4, 4))]
    pos1 = np.array([[5, 6, 7], [1, 1, 1], [20, 20, 20], [12, 3, 18]], dtype=float)
    ang = np.array([group[j].as_euler("zxz", degrees=True) for j in (3, 9, 17, 22)])
    m = make_motl(pos1, np.zeros((4, 3)), ang, [4, 3, 2, 1])
    canvas = np.full((20, 20, 20), 9.0)
    canvas_before = canvas.copy()
    got = cryomap.place_object(tmpls, m, volume=canvas)
    exp = expected_placement(tmpls, m.df, canvas.shape, "object_id", start=canvas_before)
    check(np.array_equal(got, exp), "place list of templates on an existing volume differs")
    check(np.array_equal(canvas, canvas_before), "place: caller's volume was modified")

    # single voxel template: exactly the 0-based voxel of the complete position is coloured
    one = np.zeros((5, 5, 5))
    one[2, 2, 2] = 1.0
    m = make_motl([[3, 4, 5], [10, 1, 8]], [[1, 0, -1], [0, 0, 0]], [[90, 90, 0], [0, 0, 0]], [7, 8])
    got = cryomap.place_object(one, m, volume_shape=(10, 10, 10))
    exp = np.zeros((10, 10, 10))
    exp[3, 3, 3] = 7
    exp[9, 0, 7] = 8
    check(np.array_equal(got, exp), "place single voxel: not at complete position minus one")


# ---------------------------------------------------------------- clause 3: extract_subvolume
def expected_window(vol, coord, box):
    mean = np.mean(vol)
    out = np.full(box, mean)
    start = np.floor(np.asarray(coord, dtype=float) - np.asarray(box) / 2).astype(int)
    for t in np.ndindex(*box):
        p = start + t
        if np.all(p >= 0) and np.all(p < np.asarray(vol.shape)):
            out[t] = vol[tuple(p)]
    return out


def check_extract_subvolume():
    rng = np.random.default_rng(3)
    vol = rng.normal(loc=2.0, size=(12, 14, 16))
    vol_before = vol.copy()
    cases = [
        ((6, 7, 8), (4, 4, 4)),  # fully inside
        ((6, 7, 8), (6, 8, 4)),
        ((2, 2, 2), (4, 4, 4)),  # touching the corner exactly
        ((1, 7, 15), (4, 6, 8)),  # partly outside on two sides
        ((0, 0, 0), (6, 6, 6)),
        ((11, 13, 15), (8, 8, 8)),
        ((6, 7, 8), (20, 20, 20)),  # window larger than the volume
        ((-10, 7, 8), (4, 4, 4)),  # fully outside
        ((30, 30, 30), (6, 6, 6)),
        ((6, 7, 40), (2, 2, 2)),
        ((5.5, 6.5, 7.5), (4, 4, 2)),  # half-integer centres
        ((12, 14, 16), (2, 2, 2)),
    ]
    for coord, box in cases:
        got = cryomap.extract_subvolume(vol, np.asarray(coord), box)
        exp = expected_window(vol, coord, box)
        check(got.shape == tuple(box), f"window {coord} {box}: shape {got.shape}")
        check(np.array_equal(got, exp), f"window {coord} {box}: content differs")
    check(np.array_equal(vol, vol_before), "window: volume modified")
    # fully outside == constant mean
    got = cryomap.extract_subvolume(vol, np.asarray((-10, -10, -10)), (4, 4, 4))
    check(np.all(got == np.mean(vol)), "window fully outside is not the volume mean")


# ---------------------------------------------------------------- clause 4: symmetrize_volume
def check_symmetrize():
    rng = np.random.default_rng(4)
    for n_box in (24, 25):
        c = n_box // 2
        offs = rng.uniform(-4.0, 4.0, size=(4, 3))
        vol = blob(n_box, offs + c, sigma=2.2, weights=[1.0, 0.8, 0.5, 0.3])
        vol_before = vol.copy()
        for n in range(2, 13):
            specs = [n, f"C{n}"] if n % 3 else [n, f"c{n}", float(n)]
            ref = np.zeros(vol.shape)
            for k in range(1, n + 1):
                ref = ref + ref_rotate(vol, R.from_euler("zxz", [0, 0, (k * 360 / n) % 360], degrees=True))
            ref = ref / n
            for spec in specs:
                sym = cryomap.symmetrize_volume(vol, spec)
                check(sym.shape == vol.shape, f"C{n} ({spec!r}): shape")
                err = np.abs(sym - ref).max()
                check(err < 1e-9, f"C{n} ({spec!r}) box {n_box}: not the mean of the n rotated copies ({err:.3g})")
                turned = ref_rotate(sym, R.from_euler("z", 360 / n, degrees=True))
                inv = np.abs(turned - sym).max()
                check(inv < 5e-3, f"C{n} ({spec!r}) box {n_box}: not invariant under 360/n about z ({inv:.3g})")
                dens = abs(sym.sum() - vol.sum()) / vol.sum()
                check(dens < 1e-3, f"C{n} ({spec!r}) box {n_box}: total density changed ({dens:.3g})")
            check(np.array_equal(vol, vol_before), f"C{n}: input modified")
    # raw voxel noise, n = 2 and 4: exact permutation average away from the faces
    vol = rng.normal(size=(9, 9, 9))
    for n in (2, 4):
        sym = cryomap.symmetrize_volume(vol, n)
        exp = sum(np.rot90(vol, k * (4 // n), axes=(0, 1)) for k in range(n)) / n
        err = np.abs(sym - exp)[1:-1, 1:-1, 1:-1].max()
        check(err < 1e-9, f"C{n} on noise: interior is not the average of the quarter turns ({err:.3g})")


def extra_checks():
    """Edge cases of the edit: specifications without an order and order 0 are refused (as before, the exception type
    is not part of the statement); all ways of writing a valid order n give the same map."""
    rng = np.random.default_rng(44)
    vol = blob(20, [[11.0, 8.5, 10.0], [7.0, 11.0, 12.0]], sigma=2.0, weights=[1.0, 0.6])

    def refused(spec):
        try:
            cryomap.symmetrize_volume(vol, spec)
        except Exception:
            return
        check(False, f"symmetrize_volume accepted {spec!r}")

    for spec in (0, 0.0, "C0", "C", "", "cyclic", None, [4], (3,)):
        refused(spec)

    for n in range(2, 13):
        ref = np.zeros(vol.shape)
        for k in range(1, n + 1):
            ref = ref + ref_rotate(vol, R.from_euler("zxz", [0, 0, (k * 360 / n) % 360], degrees=True))
        ref = ref / n
        for spec in (n, float(n), f"C{n}", f"c{n}", f"C_{n}", f" C{n} "):
            sym = cryomap.symmetrize_volume(vol, spec)
            check(np.abs(sym - ref).max() < 1e-9, f"symmetrize {spec!r}: not the mean of the {n} rotated copies")
    # n = 1: the single copy rotated by 360 degrees, i.e. the map itself
    sym = cryomap.symmetrize_volume(vol, 1)
    check(np.abs(sym - vol).max() < 1e-9, "C1 is not the map itself")
    # noise map in an even box, C4: interior is the average over the four quarter turns about floor(N/2)
    noise = rng.normal(size=(8, 8, 8))
    sym = cryomap.symmetrize_volume(noise, "C4")
    c = 4
    acc = np.zeros((5, 5, 8))
    for k in range(4):
        rm = np.rint(R.from_euler("z", 90 * k, degrees=True).as_matrix()).astype(int)
        for x in range(-2, 3):
            for y in range(-2, 3):
                xs, ys, _ = rm @ np.array([x, y, 0])
                acc[x + 2, y + 2, :] += noise[c + xs, c + ys, :]
    check(np.abs(sym[2:7, 2:7, 1:-1] - acc[:, :, 1:-1] / 4).max() < 1e-9, "C4 on noise (even box): not the orbit average")


def main():
    check_cube_rotations()
    check_random_rotations()
    check_place_object()
    check_extract_subvolume()
    check_symmetrize()
    extra_checks()
    if FAILURES:
        print(f"{len(FAILURES)} check(s) failed")
        return 1
    print("PASS")
    return 0


if __name__ == "__main__":
    sys.exit(main())
