#!/usr/bin/env python
"""Standalone check of property C08 (particle-list set algebra and identifier discipline).

Usage: python demo.py [library_root]      (default: current directory)

The program compares the library's subset / remove / split / intersection / drop-duplicates /
merge-and-renumber / merge-and-drop-duplicates / renumber-particles / renumber-objects operations with a
pure-Python row-set model on hand-written edge cases and on seeded random sequences of up to 10 operations.
Only what the statement speaks about is compared: which rows survive, their order, the values of the 20
fields.  Column dtypes and row labels (the pandas index) are deliberately NOT compared.
Prints PASS and exits 0 when every clause holds.
"""
import copy
import contextlib
import io
import os
import sys
import warnings

ROOT = os.path.abspath(sys.argv[1] if len(sys.argv) > 1 else ".")
sys.path.insert(0, ROOT)
warnings.simplefilter("ignore")

import numpy as np  # noqa: E402
import pandas as pd  # noqa: E402
import cryocat  # noqa: E402
from cryocat.cryomotl import Motl, EmMotl  # noqa: E402

assert os.path.abspath(cryocat.__file__).startswith(ROOT), (cryocat.__file__, ROOT)

COLS = list(Motl.motl_columns)
IX = {c: i for i, c in enumerate(COLS)}
KEYS = ["tomo_id", "object_id", "class", "subtomo_id", "geom1"]
CHECKS = [0]


def ok(cond, msg):
    CHECKS[0] += 1
    if not cond:
        print("FAIL:", msg)
        sys.exit(1)


def quiet(fn, *a, **k):
    with contextlib.redirect_stdout(io.StringIO()):
        return fn(*a, **k)


# ----------------------------------------------------------------------------- model helpers
def rows(df):
    """Rows of a table as tuples of floats in the canonical field order (labels and dtypes dropped)."""
    ok(len(df.columns) == 20 and sorted(df.columns) == sorted(COLS), "table does not have exactly the 20 fields")
    return [tuple(float(v) for v in r) for r in df[COLS].to_numpy(dtype=float)]


def without(r, *fields):
    skip = {IX[f] for f in fields}
    return tuple(v for i, v in enumerate(r) if i not in skip)


def as_list(values):
    return [float(v) for v in np.atleast_1d(np.asarray(values, dtype=float))]


def is_bijection(pairs):
    fwd, bwd = {}, {}
    for a, b in pairs:
        if fwd.setdefault(a, b) != b or bwd.setdefault(b, a) != a:
            return False
    return True


def model_subset(rs, fid, values):
    return [r for v in as_list(values) for r in rs if r[IX[fid]] == v]


def model_remove(rs, fid, values):
    vs = as_list(values)
    return [r for r in rs if all(r[IX[fid]] != v for v in vs)]


def model_split(rs, fid):
    seen = []
    for r in rs:
        if r[IX[fid]] not in seen:
            seen.append(r[IX[fid]])
    return [[r for r in rs if r[IX[fid]] == v] for v in seen]


def model_intersection(r1, r2, fid):
    ids = {r[IX[fid]] for r in r2}
    return [r for r in r1 if r[IX[fid]] in ids]


# ----------------------------------------------------------------------------- clause checks
def check_subset(m, fid, values, **kw):
    before = rows(m.df)
    res = m.get_motl_subset(values, feature_id=fid, **kw)
    res_df = res if isinstance(res, pd.DataFrame) else res.df
    ok(rows(res_df) == model_subset(before, fid, values), f"subset({fid},{values!r}) is not the matching rows")
    ok(rows(m.df) == before, "subset changed its input")
    return res if not isinstance(res, pd.DataFrame) else Motl(res)


def check_remove(m, fid, values):
    before = rows(m.df)
    out = copy.deepcopy(m)
    out.remove_feature(fid, values)
    got = rows(out.df)
    ok(got == model_remove(before, fid, values), f"remove({fid},{values!r}) is not the complement of the selection")
    # complementarity with the selection of the same (distinct) values
    distinct = []
    for v in as_list(values):
        if v not in distinct:
            distinct.append(v)
    sel = rows(m.get_motl_subset(distinct, feature_id=fid).df) if distinct else []
    ok(sorted(sel + got) == sorted(before), "selection and removal are not complementary")
    return out


def check_split(m, fid):
    before = rows(m.df)
    parts = m.split_by_feature(fid)
    got = [rows(p.df) for p in parts]
    ok(got == model_split(before, fid), f"split({fid}) is not the partition by value")
    ok(sorted(r for g in got for r in g) == sorted(before), "split parts do not add up to the list")
    ok(all(isinstance(p, Motl) for p in parts), "split did not return particle lists")
    ok(rows(m.df) == before, "split changed its input")
    return parts


def check_intersection(cls, m1, m2, fid):
    b1, b2 = rows(m1.df), rows(m2.df)
    res = cls.get_motl_intersection(m1, m2, feature_id=fid)
    ok(rows(res.df) == model_intersection(b1, b2, fid), f"intersection({fid}) is wrong")
    ok(rows(m1.df) == b1 and rows(m2.df) == b2, "intersection changed an input")
    return res


def check_drop_duplicates(m, dup="subtomo_id", dec="score", asc=False):
    before = rows(m.df)
    out = copy.deepcopy(m)
    out.drop_duplicates(duplicates_column=dup, decision_column=dec, decision_sort_ascending=asc)
    got = rows(out.df)
    ids = [r[IX[dup]] for r in got]
    ok(len(set(ids)) == len(ids), "drop_duplicates left two rows with one id")
    ok(set(ids) == {r[IX[dup]] for r in before}, "drop_duplicates lost or invented an id")
    for r in got:
        ok(r in before, "drop_duplicates changed a row")
        cands = [q[IX[dec]] for q in before if q[IX[dup]] == r[IX[dup]]]
        best = min(cands) if asc else max(cands)
        ok(r[IX[dec]] == best, "drop_duplicates did not keep a best-scoring row")
    return out


def _check_object_offsets(inputs_rows, got_rows_per_input):
    new_sets = []
    for src, dst in zip(inputs_rows, got_rows_per_input):
        pairs = [(a[IX["object_id"]], b[IX["object_id"]]) for a, b in zip(src, dst)]
        ok(is_bijection(pairs), "merge did not keep an input's object grouping")
        new_sets.append({b for _, b in pairs})
    for i in range(len(new_sets)):
        for j in range(i + 1, len(new_sets)):
            ok(not (new_sets[i] & new_sets[j]), "object numbers of two merged inputs collide")


def check_merge_and_renumber(cls, motls):
    befores = [rows(m.df) for m in motls]
    res = quiet(cls.merge_and_renumber, list(motls))
    got = rows(res.df)
    n = sum(len(b) for b in befores)
    ok(len(got) == n, "merge lost or duplicated rows")
    ok([r[IX["subtomo_id"]] for r in got] == [float(i) for i in range(1, n + 1)], "subtomogram numbers are not 1..N")
    flat = [r for b in befores for r in b]
    ok(
        [without(r, "subtomo_id", "object_id") for r in got] == [without(r, "subtomo_id", "object_id") for r in flat],
        "merge changed another field or the order",
    )
    pieces, pos = [], 0
    for b in befores:
        pieces.append(got[pos : pos + len(b)])
        pos += len(b)
    _check_object_offsets(befores, pieces)
    ok(all(rows(m.df) == b for m, b in zip(motls, befores)), "merge changed an input")
    return res


def check_merge_and_drop_duplicates(cls, motls):
    befores = [rows(m.df) for m in motls]
    res = quiet(cls.merge_and_drop_duplicates, list(motls))
    got = rows(res.df)
    flat = [(i, r) for i, b in enumerate(befores) for r in b]
    ids = [r[IX["subtomo_id"]] for r in got]
    ok(len(set(ids)) == len(ids), "merge_and_drop_duplicates left two rows with one id")
    ok(set(ids) == {r[IX["subtomo_id"]] for _, r in flat}, "merge_and_drop_duplicates lost or invented an id")
    per_input = [([], []) for _ in befores]
    for r in got:
        best = max(q[IX["score"]] for _, q in flat if q[IX["subtomo_id"]] == r[IX["subtomo_id"]])
        ok(r[IX["score"]] == best, "merge_and_drop_duplicates did not keep a best-scoring row")
        origin = [(i, q) for i, q in flat if without(q, "object_id") == without(r, "object_id")]
        ok(origin, "merge_and_drop_duplicates changed a field other than the object number")
        # attribute the row to an input that is consistent with the object numbering, if there is a choice
        per_input[origin[0][0]][0].append(origin[0][1])
        per_input[origin[0][0]][1].append(r)
    if all(len({without(q, "object_id") for q in b}) == len(b) for b in befores) and len(
        {without(q, "object_id") for _, q in flat}
    ) == len(flat):
        _check_object_offsets([p[0] for p in per_input], [p[1] for p in per_input])
    ok(all(rows(m.df) == b for m, b in zip(motls, befores)), "merge_and_drop_duplicates changed an input")
    return res


def check_renumber_particles(m):
    before = rows(m.df)
    out = copy.deepcopy(m)
    out.renumber_particles()
    got = rows(out.df)
    ok([r[IX["subtomo_id"]] for r in got] == [float(i) for i in range(1, len(before) + 1)], "particles are not 1..N")
    ok([without(r, "subtomo_id") for r in got] == [without(r, "subtomo_id") for r in before], "renumbering changed another field")
    return out


def check_renumber_objects(m, start=1):
    before = rows(m.df)
    out = copy.deepcopy(m)
    out.renumber_objects_sequentially(starting_number=start)
    got = rows(out.df)
    ok([without(r, "object_id") for r in got] == [without(r, "object_id") for r in before], "object renumbering changed another field")
    pairs = [((a[IX["tomo_id"]], a[IX["object_id"]]), b[IX["object_id"]]) for a, b in zip(before, got)]
    ok(is_bijection(pairs), "object renumbering does not keep the (tomogram, object) grouping")
    new = sorted({b for _, b in pairs})
    ok(new == [float(start + i) for i in range(len(new))], "new object numbers are not consecutive")
    return out


# ----------------------------------------------------------------------------- inputs
def make_df(rng, n, tag):
    data = {c: rng.integers(0, 5, size=n).astype(float) for c in COLS}
    data["score"] = rng.integers(0, 4, size=n) / 4.0
    if rng.random() < 0.5:
        data["subtomo_id"] = rng.integers(1, max(2, n), size=n).astype(float)  # repeated, unsorted ids
    else:
        data["subtomo_id"] = rng.permutation(n).astype(float) + 1  # unique, unsorted ids
    data["geom5"] = tag + np.arange(n, dtype=float)  # makes every generated row distinct
    data["x"] = np.round(rng.normal(size=n) * 100, 3)
    df = pd.DataFrame(data, columns=COLS)
    style = int(rng.integers(0, 4))
    if style == 1:
        df = df.astype({"tomo_id": int, "object_id": int, "class": int, "subtomo_id": int})
    elif style == 2:
        df = df[list(rng.permutation(COLS))]
    elif style == 3 and n:
        df.index = rng.permutation(n) * 3 + 7
    return df


def rand_values(rng):
    pool = [0, 1, 2, 3, 4, 7, 0.25, 0.5]  # 7 is a value that never occurs ("missing")
    k = int(rng.integers(0, 4))
    if k == 0:
        return pool[int(rng.integers(0, len(pool)))]
    vals = [pool[int(i)] for i in rng.integers(0, len(pool), size=int(rng.integers(0, 5)))]
    return vals if k < 3 else np.array(vals, dtype=float)


def random_sequences(nseq=40):
    for seed in range(nseq):
        rng = np.random.default_rng(seed)
        sizes = [0, 1, 2, 3, 5, 8, 13, 30, 200]
        pool = [Motl(make_df(rng, int(rng.choice(sizes)), 1000.0 * (i + 1))) for i in range(int(rng.integers(1, 4)))]
        pool.append(EmMotl(make_df(rng, int(rng.choice(sizes[:7])), 9000.0)))
        for _ in range(int(rng.integers(1, 11))):
            op = int(rng.integers(0, 9))
            a, b, c = (pool[int(i)] for i in rng.integers(0, len(pool), size=3))
            fid = KEYS[int(rng.integers(0, len(KEYS)))]
            vals = rand_values(rng)
            flag = bool(rng.integers(0, 2))
            cls = [Motl, EmMotl][int(rng.integers(0, 2))]
            if op == 0:
                pool.append(check_subset(a, fid, vals, reset_index=flag, return_df=bool(rng.integers(0, 2))))
            elif op == 1:
                pool.append(check_remove(a, fid, vals))
            elif op == 2:
                parts = check_split(a, fid)
                if parts:
                    pool.append(parts[int(rng.integers(0, len(parts)))])
                    if flag:
                        pool.append(check_merge_and_renumber(Motl, parts))
            elif op == 3:
                pool.append(check_intersection(cls, a, b, fid))
            elif op == 4:
                if flag:
                    pool.append(check_drop_duplicates(a))
                else:
                    pool.append(check_drop_duplicates(a, dup=fid, dec="geom2", asc=bool(rng.integers(0, 2))))
            elif op == 5:
                pool.append(check_merge_and_renumber(cls, [a, b] + ([c] if flag else [])))
            elif op == 6:
                pool.append(check_merge_and_drop_duplicates(cls, [a, b] + ([c] if flag else [])))
            elif op == 7:
                pool.append(check_renumber_particles(a))
            elif op == 8:
                pool.append(check_renumber_objects(a, start=int(rng.choice([1, 1, 0, 5, -3]))))


def small(rows_spec):
    """Particle list from (tomo, object, subtomo, score, class) tuples; remaining fields carry a row tag."""
    df = pd.DataFrame(0.0, index=range(len(rows_spec)), columns=COLS)
    for i, (t, o, s, sc, cl) in enumerate(rows_spec):
        df.loc[i, ["tomo_id", "object_id", "subtomo_id", "score", "class"]] = [t, o, s, sc, cl]
        df.loc[i, "geom5"] = 100.0 + i
        df.loc[i, "x"] = 1.5 * i
    return df


BASE = [
    (2, 7, 5, 0.50, 1),
    (1, 3, 9, 0.25, 2),
    (2, 7, 2, 0.75, 1),
    (1, 4, 5, 0.75, 3),
    (3, 3, 2, 0.10, 2),
    (2, 1, 11, 0.30, 1),
    (1, 3, 9, 0.90, 3),
]


def common_cases():
    m = Motl(small(BASE))
    e = Motl(Motl.create_empty_motl_df())
    other = Motl(small([(1, 1, 9, 0.95, 1), (5, 2, 40, 0.20, 1), (2, 7, 2, 0.75, 4), (2, 8, 5, 0.60, 4)]))
    for fid, vals in [
        ("tomo_id", 2), ("tomo_id", [2, 1]), ("tomo_id", [1, 2, 1]), ("tomo_id", [7]), ("tomo_id", []),
        ("object_id", np.array([3, 1])), ("class", [3, 9, 1]), ("subtomo_id", [9, 5]), ("score", 0.75),
    ]:
        for kw in ({}, {"reset_index": False}, {"return_df": True}):
            check_subset(m, fid, vals, **kw)
        check_remove(m, fid, vals)
        check_subset(e, fid, vals)
        check_remove(e, fid, vals)
    for fid in KEYS + ["score"]:
        check_split(m, fid)
        check_split(e, fid)
        for cls in (Motl, EmMotl):
            check_intersection(cls, m, other, fid)
            check_intersection(cls, other, m, fid)
            check_intersection(cls, m, m, fid)
            check_intersection(cls, m, e, fid)
            check_intersection(cls, e, m, fid)
    for x in (m, other, e):
        check_drop_duplicates(x)
        check_drop_duplicates(x, asc=True)
        check_drop_duplicates(x, dup="object_id", dec="x", asc=True)
        check_renumber_particles(x)
        for start in (1, 0, 10):
            check_renumber_objects(x, start)
    for cls in (Motl, EmMotl):
        for lst in ([m], [m, m], [m, other], [other, m, other], [e, m], [m, e, other], [e, e]):
            check_merge_and_renumber(cls, lst)
            check_merge_and_drop_duplicates(cls, lst)
    # a chain of operations on one list
    s = check_subset(m, "tomo_id", [2, 1], reset_index=False)
    s = check_remove(s, "object_id", [4])
    parts = check_split(s, "tomo_id")
    merged = check_merge_and_renumber(Motl, parts)
    merged = check_renumber_objects(merged)
    merged = check_drop_duplicates(merged)
    check_intersection(Motl, merged, m, "object_id")


def edge_cases():
    """Cases aimed at remove_feature: scalar / list / array / empty / repeated / absent values, removal of
    everything and of nothing, tables with repeated or shuffled row labels, removal chained with the other
    operations, and complementarity with get_motl_subset."""
    base = small(BASE)
    variants = [
        Motl(base),
        Motl(base.astype({"tomo_id": int, "object_id": int, "subtomo_id": int, "class": int})),
        Motl(base[COLS[::-1]]),
        Motl(base.set_index(pd.Index([10, 3, 3, 8, 1, 0, 5]))),  # repeated row labels
        Motl(base).get_motl_subset([2, 1, 2], reset_index=False),  # repeated rows and labels
        EmMotl(base),
        Motl(Motl.create_empty_motl_df()),
    ]
    requests = [
        ("tomo_id", 2), ("tomo_id", 2.0), ("tomo_id", np.int64(1)), ("tomo_id", [1, 2, 3]), ("tomo_id", [3, 3, 3]),
        ("tomo_id", [9]), ("tomo_id", []), ("tomo_id", np.array([])), ("tomo_id", np.array([2, 3])),
        ("object_id", [3, 7, 4, 1]), ("object_id", [1, 100]), ("subtomo_id", [5, 9]), ("score", 0.75),
        ("score", [0.1, 0.9, 0.3]), ("class", np.array([2.0])), ("geom5", [100.0, 106.0]),
    ]
    for m in variants:
        for fid, vals in requests:
            out = check_remove(m, fid, vals)
            # removing the same values again changes nothing; removal followed by the other operations
            again = check_remove(out, fid, vals)
            ok(rows(again.df) == rows(out.df), "removing twice differs from removing once")
            check_split(out, "tomo_id")
            check_intersection(Motl, m, out, "geom5")
            check_merge_and_renumber(Motl, [out, m])
            check_drop_duplicates(out)
            check_renumber_particles(out)
            check_renumber_objects(out)
        # remove value by value == remove all at once
        one = copy.deepcopy(m)
        for v in (1, 3):
            one.remove_feature("tomo_id", v)
        both = copy.deepcopy(m)
        both.remove_feature("tomo_id", [1, 3])
        ok(rows(one.df) == rows(both.df), "removing values one by one differs from removing them together")


if __name__ == "__main__":
    common_cases()
    edge_cases()
    random_sequences(40)
    print(f"PASS ({CHECKS[0]} checks, library at {os.path.dirname(cryocat.__file__)})")
    sys.exit(0)
