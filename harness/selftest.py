#!/usr/bin/env python3
"""Developer self-test (not a registered check): every catalogued breaking change must make the
corresponding quick check exit 1, and the clean tree must exit 0.

  selftest.py [--jobs N] [--only C07,C08] [--kind mutants,seeded,reverts,clean]

Sources of changes: mutants/Cxx-*.patch, seeded/*/patch.diff (+meta.json "property"), and the
reverts of the fix: commits listed in known_findings.json. Each change is applied to a scratch git
worktree of /repo under /tmp/selftest (removed afterwards) and checked from a scratch copy of /verif
(so Gen/ files, evidence and replays of the real /verif are never touched).
Writes selftest_report.json next to this file's parent (i.e. /verif/selftest_report.json).
"""
import os, sys, json, glob, re, subprocess, shutil, argparse, time
from concurrent.futures import ThreadPoolExecutor

VERIF = os.path.dirname(os.path.dirname(os.path.abspath(__file__)))
ROOT = "/tmp/selftest"
PY = "/venv/bin/python"


def sh(cmd, **kw):
    return subprocess.run(cmd, stdout=subprocess.PIPE, stderr=subprocess.STDOUT, text=True, **kw)


def jobs_list(only, kinds):
    props_with_check = {os.path.basename(p)[:-3].upper() for p in glob.glob(os.path.join(VERIF, "harness", "props", "c[0-9]*.py"))}
    out = []
    if "mutants" in kinds:
        for p in sorted(glob.glob(os.path.join(VERIF, "mutants", "*.patch"))):
            cid = os.path.basename(p).split("-")[0].upper()
            out.append(dict(kind="mutant", name=os.path.basename(p)[:-6], prop=cid, patch=p))
    if "seeded" in kinds:
        for d in sorted(glob.glob(os.path.join(VERIF, "seeded", "*"))):
            pd = os.path.join(d, "patch.diff")
            if os.path.exists(pd):
                meta = json.load(open(os.path.join(d, "meta.json")))
                out.append(dict(kind="seeded", name=os.path.basename(d), prop=meta["property"], patch=pd))
    if "reverts" in kinds:
        kf = json.load(open(os.path.join(VERIF, "known_findings.json")))
        for line in kf.get("fixed", []):
            m = re.match(r"fixed: property=(C\d+) (\w+) (.*)", line)
            out.append(dict(kind="revert", name=f"revert-{m.group(2)}", prop=m.group(1), commit=m.group(2), what=m.group(3)))
    if "clean" in kinds:
        for cid in sorted(props_with_check):
            out.append(dict(kind="clean", name=f"clean-{cid}", prop=cid))
    out = [j for j in out if j["prop"] in props_with_check and (not only or j["prop"] in only)]
    return out


def run_job(args):
    slot, job = args
    base = os.path.join(ROOT, f"slot{slot}")
    vcopy = os.path.join(base, "verif")
    wt = os.path.join(base, "repo")
    sh(["git", "-C", "/repo", "worktree", "remove", "--force", wt])
    shutil.rmtree(wt, ignore_errors=True)
    r = sh(["git", "-C", "/repo", "worktree", "add", "--detach", wt, "HEAD"])
    if r.returncode != 0:
        return dict(job, rc=None, error="worktree: " + r.stdout[-300:])
    try:
        if job["kind"] in ("mutant", "seeded"):
            r = sh(["git", "-C", wt, "apply", job["patch"]])
            if r.returncode != 0:
                return dict(job, rc=None, error="patch does not apply: " + r.stdout[-300:])
        elif job["kind"] == "revert":
            r = sh(["git", "-C", wt, "revert", "--no-commit", job["commit"]])
            if r.returncode != 0:
                return dict(job, rc=None, error="revert failed: " + r.stdout[-300:])
        env = dict(os.environ, CRYOCAT_REPO=wt, VERIF_SEED=os.environ.get("VERIF_SEED", "20260927"))
        t0 = time.time()
        r = sh([PY, "-W", "ignore", os.path.join(vcopy, "harness", "vcheck.py"), job["prop"], "--tier", "quick"], env=env, cwd=vcopy, timeout=3600)
        vio = [l for l in r.stdout.splitlines() if l.startswith("VIOLATION") or l.startswith("KNOWN-FINDING")]
        clause = ""
        m = re.search(r"replay=(\S+)", " ".join(vio))
        if m and os.path.exists(m.group(1)):
            try:
                rp = json.load(open(m.group(1)))
                clause = f"{rp.get('kind')}:{rp.get('clause')}" + ("; broken=" + ",".join(o["name"] for o in rp.get("broken_obligations", []))[:300] if rp.get("broken_obligations") else "")
            except Exception:
                pass
        expect = 0 if job["kind"] == "clean" else 1
        return dict(job, rc=r.returncode, ok=(r.returncode == expect), lines=vio, clause=clause, wall_s=round(time.time() - t0, 1),
                    tail=r.stdout[-600:] if r.returncode != expect else "")
    finally:
        sh(["git", "-C", "/repo", "worktree", "remove", "--force", wt])
        shutil.rmtree(wt, ignore_errors=True)


def main():
    ap = argparse.ArgumentParser()
    ap.add_argument("--jobs", type=int, default=4)
    ap.add_argument("--only", default="")
    ap.add_argument("--kind", default="mutants,seeded,reverts,clean")
    ap.add_argument("--names", default="", help="file with one job name per line: run only these")
    a = ap.parse_args()
    only = {x.strip().upper() for x in a.only.split(",") if x.strip()}
    jobs = jobs_list(only, set(a.kind.split(",")))
    if a.names:
        wanted = {l.strip() for l in open(a.names) if l.strip()}
        jobs = [j for j in jobs if j["name"] in wanted]
    os.makedirs(ROOT, exist_ok=True)
    n = max(1, min(a.jobs, len(jobs)))
    for s in range(n):
        base = os.path.join(ROOT, f"slot{s}")
        shutil.rmtree(base, ignore_errors=True)
        os.makedirs(base)
        sh(["cp", "-a", VERIF, os.path.join(base, "verif")])
    # a slot runs its jobs sequentially; slots run in parallel
    buckets = [[] for _ in range(n)]
    for i, j in enumerate(jobs):
        buckets[i % n].append(j)

    def run_bucket(s):
        return [run_job((s, j)) for j in buckets[s]]

    with ThreadPoolExecutor(n) as ex:
        results = [r for rs in ex.map(run_bucket, range(n)) for r in rs]
    shutil.rmtree(ROOT, ignore_errors=True)
    sh(["git", "-C", "/repo", "worktree", "prune"])
    results.sort(key=lambda r: (r["prop"], r["kind"], r["name"]))
    bad = [r for r in results if not r.get("ok")]
    for r in results:
        print(f"{'ok  ' if r.get('ok') else 'MISS'} {r['prop']} {r['kind']:7s} {r['name']:45s} rc={r.get('rc')} {r.get('clause','')[:110]} {r.get('error','')}")
    rp = os.path.join(VERIF, "selftest_report.json")
    merged = {}
    if os.path.exists(rp):
        for r in json.load(open(rp)):
            merged[(r["kind"], r["name"])] = r
    for r in results:
        r.pop("patch", None)
        merged[(r["kind"], r["name"])] = r
    json.dump(sorted(merged.values(), key=lambda r: (r["prop"], r["kind"], r["name"])), open(rp, "w"), indent=1)
    print(f"{len(results) - len(bad)}/{len(results)} as expected")
    sys.exit(1 if bad else 0)


if __name__ == "__main__":
    main()
