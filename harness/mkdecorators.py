#!/venv/bin/python
"""Writes harness/decorators.json: the decorator list of every function/class the translators look up with
Source.find, as found in /repo's CURRENT tree. Run by the integrator when the pinned tree legitimately changes
(never by a check): the file is the documented value the `binding:` obligations compare with."""
import os, sys, json, glob, importlib
sys.path.insert(0, os.path.dirname(os.path.abspath(__file__)))
import core
out = {}
for p in sorted(glob.glob(os.path.join(core.VERIF, "harness", "props", "c[0-9]*.py"))):
    mod = importlib.import_module("props." + os.path.basename(p)[:-3])
    src = core.Source(core.REPO)
    mod.translate(src)
    for a in src.binding_anchors():
        key = a["name"][len("binding:"):]
        (scope, node) = src._found[tuple(key.split(":", 1))]
        import ast
        d = [ast.unparse(x).replace(" ", "") for x in getattr(node, "decorator_list", [])]
        if d:
            out[key] = d
        if not a["ok"] and "decorators" not in a.get("detail", ""):
            print("WARNING", a["name"], a.get("detail"))
json.dump(out, open(os.path.join(core.VERIF, "harness", "decorators.json"), "w"), indent=1, sort_keys=True)
print(len(out), "decorated functions documented")
