#!/venv/bin/python
"""Writes harness/bindings.json: for every function/class the translators look up with Source.find, the facts of /repo's
CURRENT tree that the `binding:` obligations compare with (decorator list, fingerprint of its string literals, the
module-level statements it depends on, overriding subclasses). Run by the integrator when the reviewed tree legitimately
changes (never by a check)."""
import os, sys, json, glob, importlib
sys.path.insert(0, os.path.dirname(os.path.abspath(__file__)))
import core
out = {}
for p in sorted(glob.glob(os.path.join(core.VERIF, "harness", "props", "c[0-9]*.py"))):
    mod = importlib.import_module("props." + os.path.basename(p)[:-3])
    src = core.Source(core.REPO)
    mod.translate(src)
    for (rel, qn), (scope, node) in sorted(src._found.items()):
        out[f"{rel}:{qn}"] = src.definition_facts(rel, qn, node)
json.dump(out, open(os.path.join(core.VERIF, "harness", "bindings.json"), "w"), indent=1, sort_keys=True)
print(len(out), "looked-up definitions documented")
