#!/venv/bin/python
"""Regenerates /verif/MANIFEST.json from the check modules that exist (harness/props/cXX.py)."""
import os, sys, json, importlib, glob
HERE = os.path.dirname(os.path.abspath(__file__))
VERIF = os.path.dirname(HERE)
sys.path.insert(0, HERE)
PY = "/venv/bin/python -W ignore"
BASELINE = "cd /repo && /venv/bin/python -m pytest -ra -q -p no:cacheprovider --timeout=900 --continue-on-collection-errors"
props = [json.loads(l) for l in open(os.path.join(VERIF, "properties.jsonl"))]
pending = json.load(open(os.path.join(HERE, "pending.json"))) if os.path.exists(os.path.join(HERE, "pending.json")) else {}
checks, na = [], []
for p in props:
    cid = p["id"]
    path = os.path.join(HERE, "props", cid.lower() + ".py")
    if os.path.exists(path) and cid not in pending:
        src = open(path).read()
        ns = {}
        # read only the metadata constants without importing numpy-heavy modules
        import ast
        for node in ast.parse(src).body:
            if isinstance(node, ast.Assign) and isinstance(node.targets[0], ast.Name) and node.targets[0].id in ("LEVEL_TEXT", "LEVEL_NOTE", "TECHNIQUE", "DESIGN_REF"):
                ns[node.targets[0].id] = ast.literal_eval(node.value)
        checks.append({
            "property_id": cid,
            "quick_cmd": f"{PY} harness/vcheck.py {cid} --tier quick",
            "thorough_cmd": f"{PY} harness/vcheck.py {cid} --tier thorough",
            "evidence_file": f"/verif/evidence/{cid}.json",
            "replay_cmd_template": f"{PY} harness/vcheck.py replay {{path}}",
            "engine": "lean4-proof+correspondence",
            "level_claimed": {"category": "proof", "text": ns["LEVEL_TEXT"], "design_ref": ns.get("DESIGN_REF", "DESIGN.md section 4")},
            "level_note": ns["LEVEL_NOTE"],
            "technique": ns["TECHNIQUE"],
        })
    else:
        na.append({"property_id": cid, "reason": pending.get(cid, "check not built yet: the Lean model, theorems and correspondence for this property are still under construction (see DESIGN.md section 4); not a statement that proof cannot apply")})
man = {
    "version": 1,
    "setup_cmd": f"{PY} harness/vcheck.py setup",
    "hooks": {"guard": "CRYOCAT_VERIF", "enable": "no source hooks are needed: every check imports cryocat from /repo's working tree and observes the public API; CRYOCAT_VERIF=1 is exported by the harness for future hooks",
              "baseline_off_cmd": BASELINE, "source_commits": [], "add_only": True},
    "engines": [{"name": "lean4-proof+correspondence", "path": "harness/vcheck.py", "serves_properties": [c["property_id"] for c in checks],
                 "kind_free_text": "Lean 4.33 theorems about executable models (lean/CryoCat), models tied to /repo by an AST translator (regenerated lean/CryoCat/Gen) and by differential correspondence against the compiled model driver"}],
    "checks": checks,
    "not_applicable": na,
    "notes": "See DESIGN.md. known_findings.json lists open findings (printed as KNOWN-FINDING) and fixed defects (fix: commits in /repo).",
}
json.dump(man, open(os.path.join(VERIF, "MANIFEST.json"), "w"), indent=1)
print(f"{len(checks)} checks, {len(na)} not claimed")
