"""Shared machinery of the cryoCAT Lean-proof checks.

A check run for property Cxx (see DESIGN.md section 2.5):
  A  translate   : props/cxx.translate(Source) -> lean/CryoCat/Gen/Cxx.lean            (T)
  B  build+audit : lake build CryoCat.Props.Cxx, driver ; `#print axioms` of every
                   theorem of Props/Cxx.lean ; forbidden-token grep                      (P)
  C  correspondence: corpus + generated cases, real cryoCAT vs. Lean driver             (C)
  D/E outcome     : evidence, KNOWN-FINDING lines, VIOLATION line + replay, exit code
"""
import os, sys, json, time, subprocess, fcntl, re, importlib, traceback, hashlib, math, tempfile, shutil

VERIF = os.path.dirname(os.path.dirname(os.path.abspath(__file__)))
REPO = os.environ.get("CRYOCAT_REPO", "/repo")
LEAN = os.path.join(VERIF, "lean")
DRIVER = os.path.join(LEAN, ".lake", "build", "bin", "driver")
ALLOWED_AXIOMS = {"propext", "Quot.sound", "Classical.choice"}
FORBIDDEN = re.compile(r"\b(sorry|admit|native_decide|bv_decide|implemented_by|unsafe)\b|^\s*axiom\s|maxHeartbeats\s+0\b", re.M)
GUARD = "CRYOCAT_VERIF"

os.environ.setdefault(GUARD, "1")
os.environ.setdefault("NUMBA_CACHE_DIR", os.path.join(tempfile.gettempdir(), "cryocat_verif_numba"))
os.environ.setdefault("MPLBACKEND", "Agg")


def use_repo():
    """Put the repository under test first on sys.path (cryocat is imported from its working tree)."""
    if REPO not in sys.path:
        sys.path.insert(0, REPO)
    for k in [k for k in sys.modules if k == "cryocat" or k.startswith("cryocat.")]:
        del sys.modules[k]


# ----------------------------------------------------------------------------------------------
# Lean side
# ----------------------------------------------------------------------------------------------
class Lock:
    def __init__(self):
        os.makedirs(os.path.join(LEAN, ".lake"), exist_ok=True)
        self.path = os.path.join(LEAN, ".lake", "verif.lock")

    def __enter__(self):
        self.f = open(self.path, "w")
        fcntl.flock(self.f, fcntl.LOCK_EX)
        return self

    def __exit__(self, *a):
        fcntl.flock(self.f, fcntl.LOCK_UN)
        self.f.close()


def sh(cmd, cwd=None, timeout=3600, input=None):
    p = subprocess.run(cmd, cwd=cwd, stdout=subprocess.PIPE, stderr=subprocess.STDOUT, text=True, timeout=timeout, input=input)
    return p.returncode, p.stdout


def strip_comments(text):
    text = re.sub(r"/-.*?-/", "", text, flags=re.S)
    return re.sub(r"--.*", "", text)


def lean_files_of(cid):
    """Lean sources whose content the property depends on (for the forbidden-token grep)."""
    out = []
    for root, _, files in os.walk(os.path.join(LEAN, "CryoCat")):
        for f in files:
            if f.endswith(".lean"):
                out.append(os.path.join(root, f))
    out.append(os.path.join(LEAN, "Driver.lean"))
    return sorted(out)


def theorem_names(cid):
    path = os.path.join(LEAN, "CryoCat", "Props", f"{cid}.lean")
    text = strip_comments(open(path).read())
    ns = []
    names = []
    for line in text.splitlines():
        m = re.match(r"\s*namespace\s+(\S+)", line)
        if m:
            ns.append(m.group(1)); continue
        m = re.match(r"\s*end\s+(\S+)", line)
        if m and ns and ns[-1].split(".")[-1] == m.group(1).split(".")[-1]:
            ns.pop(); continue
        m = re.match(r"\s*(?:@\[[^\]]*\]\s*)?(?:protected\s+)?theorem\s+(\S+)", line)  # private helper lemmas are audited through their users
        if m:
            names.append(".".join(ns + [m.group(1)]))
    return names


def write_if_changed(path, text):
    old = open(path).read() if os.path.exists(path) else None
    if old != text:
        os.makedirs(os.path.dirname(path), exist_ok=True)
        with open(path, "w") as f:
            f.write(text)
        return True
    return False


def build_and_audit(cid, gen_text, log):
    """Returns dict(obligations=[{name, ok, detail}], broken=[names], build_log)"""
    obligations = []
    with Lock():
        if gen_text is not None:
            write_if_changed(os.path.join(LEAN, "CryoCat", "Gen", f"{cid}.lean"), gen_text)
        names = theorem_names(cid)
        audit = f"import CryoCat.Props.{cid}\n" + "".join(f"#print axioms {n}\n" for n in names)
        write_if_changed(os.path.join(LEAN, "CryoCat", "Audit", f"{cid}.lean"), audit)
        t0 = time.time()
        rc_drv, out_drv = sh(["lake", "build", "driver"], cwd=LEAN)
        rc, out = sh(["lake", "build", f"CryoCat.Props.{cid}"], cwd=LEAN)
        log(f"lake build driver rc={rc_drv}, Props.{cid} rc={rc} ({time.time()-t0:.1f}s)")
        audit_out = ""
        if rc == 0:
            rc_a, audit_out = sh(["lake", "env", "lean", os.path.join("CryoCat", "Audit", f"{cid}.lean")], cwd=LEAN)
        else:
            rc_a = 1
    if rc_drv != 0:
        obligations.append(dict(name="build:driver", kind="build", ok=False, detail=out_drv[-2000:]))
    failed_thms = set()
    if rc != 0:
        # which theorems failed: parse "error: ...Cxx.lean:LINE:COL" and map to the enclosing theorem
        path = os.path.join(LEAN, "CryoCat", "Props", f"{cid}.lean")
        lines = open(path).read().splitlines()
        for m in re.finditer(r"error: [^\n]*?([\w/]+\.lean):(\d+):(\d+)", out):
            if m.group(1).endswith(f"Props/{cid}.lean"):
                ln = int(m.group(2))
                for k in range(min(ln, len(lines)) - 1, -1, -1):
                    mm = re.match(r"\s*(?:@\[[^\]]*\]\s*)?(?:private\s+|protected\s+)?(theorem|example|def|instance)\s+(\S+)", lines[k])
                    if mm:
                        failed_thms.add(mm.group(2) if mm.group(1) != "example" else f"example@{k+1}")
                        break
            else:
                failed_thms.add(f"{m.group(1)}:{m.group(2)}")
        if not failed_thms:
            failed_thms.add("build")
        obligations.append(dict(name=f"build:Props.{cid}", kind="build", ok=False, detail=out[-3000:], failed=sorted(failed_thms)))
    ax = {}
    for m in re.finditer(r"'([^']+)' (does not depend on any axioms|depends on axioms: \[([^\]]*)\])", audit_out, flags=re.S):
        ax[m.group(1)] = [] if m.group(3) is None else [a.strip() for a in m.group(3).replace("\n", " ").split(",") if a.strip()]
    for n in names:
        short = n
        if rc != 0:
            ok = n.split(".")[-1] not in failed_thms and False  # nothing is discharged when the file does not build
            obligations.append(dict(name=n, kind="theorem", ok=ok, detail="Props file does not build"))
            continue
        if n not in ax:
            obligations.append(dict(name=n, kind="theorem", ok=False, detail="no #print axioms output: " + audit_out[-500:]))
        else:
            bad = [a for a in ax[n] if a not in ALLOWED_AXIOMS]
            obligations.append(dict(name=n, kind="theorem", ok=not bad, axioms=ax[n], detail=("forbidden axioms " + ",".join(bad)) if bad else ""))
    # forbidden tokens
    hits = []
    for f in lean_files_of(cid):
        txt = strip_comments(open(f).read())
        for m in FORBIDDEN.finditer(txt):
            hits.append(f"{os.path.relpath(f, LEAN)}: {m.group(0).strip()}")
    obligations.append(dict(name="grep:no-sorry-axiom-native_decide", kind="grep", ok=not hits, detail="; ".join(hits[:10])))
    return dict(obligations=obligations, build_ok=(rc == 0 and rc_drv == 0), driver_ok=(rc_drv == 0), build_log=out)


def run_driver(requests, timeout=3600):
    """requests: list of JSON-able dicts -> list of parsed responses (same length)."""
    if not requests:
        return []
    if not os.path.exists(DRIVER):
        raise RuntimeError("driver binary missing")
    data = "\n".join(json.dumps(r, separators=(",", ":")) for r in requests) + "\n"
    p = subprocess.run([DRIVER], input=data, stdout=subprocess.PIPE, stderr=subprocess.PIPE, text=True, timeout=timeout)
    lines = p.stdout.splitlines()
    if len(lines) != len(requests):
        raise RuntimeError(f"driver returned {len(lines)} lines for {len(requests)} requests (rc={p.returncode}): {p.stderr[-500:]}")
    return [json.loads(l) for l in lines]


# ----------------------------------------------------------------------------------------------
# numbers on the wire
# ----------------------------------------------------------------------------------------------
import struct


def f2b(x):
    """float -> IEEE-754 binary64 bit pattern (int)"""
    return struct.unpack("<Q", struct.pack("<d", float(x)))[0]


def b2f(n):
    return struct.unpack("<d", struct.pack("<Q", int(n)))[0]


def f32bits(x):
    import numpy as np
    return int(np.array([x], dtype=np.float32).view(np.uint32)[0])


# ----------------------------------------------------------------------------------------------
# translator support (pure ast; never imports cryocat)
# ----------------------------------------------------------------------------------------------
import ast


class AnchorMissing(Exception):
    pass


class Source:
    def __init__(self, repo=None):
        self.repo = repo or REPO
        self._cache = {}
        self.anchors = []  # dicts name, where, ok, value

    def text(self, rel):
        return open(os.path.join(self.repo, rel)).read()

    def tree(self, rel):
        if rel not in self._cache:
            self._cache[rel] = ast.parse(self.text(rel))
        return self._cache[rel]

    def find(self, rel, qualname):
        """qualname 'Class.method' / 'func' / 'Class' / 'func.inner' -> ast node"""
        node = self.tree(rel)
        for part in qualname.split("."):
            nxt = None
            for ch in ast.walk(node) if False else node.body:
                if isinstance(ch, (ast.FunctionDef, ast.ClassDef, ast.AsyncFunctionDef)) and ch.name == part:
                    nxt = ch
                    break
            if nxt is None:
                # search nested statements (inner functions defined inside if/for bodies)
                for ch in ast.walk(node):
                    if isinstance(ch, (ast.FunctionDef, ast.ClassDef)) and ch.name == part and ch is not node:
                        nxt = ch
                        break
            if nxt is None:
                raise AnchorMissing(f"{rel}:{qualname}")
            node = nxt
        return node

    def class_attr(self, rel, cls, attr):
        c = self.find(rel, cls)
        for st in c.body:
            if isinstance(st, ast.Assign) and any(isinstance(t, ast.Name) and t.id == attr for t in st.targets):
                return st.value
        raise AnchorMissing(f"{rel}:{cls}.{attr}")

    def literal(self, node):
        try:
            return ast.literal_eval(node)
        except Exception as e:
            raise AnchorMissing(f"not a literal: {ast.unparse(node)[:80]}")

    def exprs(self, node, pred):
        return [n for n in ast.walk(node) if pred(n)]

    def anchor(self, name, fn):
        """Evaluate one anchor; record the result. Returns value or None when missing."""
        try:
            v = fn()
            self.anchors.append(dict(name=name, ok=True, value=v if isinstance(v, (int, float, str, list, bool)) else str(v)))
            return v
        except AnchorMissing as e:
            self.anchors.append(dict(name=name, ok=False, value=None, detail=str(e)))
            return None
        except Exception as e:
            self.anchors.append(dict(name=name, ok=False, value=None, detail=f"{type(e).__name__}: {e}"))
            return None

    @property
    def ok(self):
        return all(a["ok"] for a in self.anchors)


def lean_str(s):
    return '"' + s.replace("\\", "\\\\").replace('"', '\\"') + '"'


def lean_str_list(xs):
    return "[" + ", ".join(lean_str(x) for x in xs) + "]"


def lean_rat(x):
    """decimal literal (python float/str) -> Lean Rat expression, exact in decimal"""
    from fractions import Fraction
    fr = Fraction(str(x))
    return f"(({fr.numerator} : Int) / ({fr.denominator} : Int) : Rat)" if False else f"mkRat ({fr.numerator}) {fr.denominator}"


def norm_expr(node):
    """normalised source text of an expression (for expression-skeleton anchors)"""
    return ast.unparse(node).replace(" ", "")
