"""C05 — pose bookkeeping: position x+shift and orientation transform rigidly (DESIGN.md section 4, C05)."""
import ast, math, re, copy
from fractions import Fraction
import core
from core import f2b, b2f

PROP = "C05"
COUNT = {"quick": 260, "thorough": 5000, "search": 1200}
PARALLEL = True
REL = "cryocat/cryomotl.py"
# the 20 fields in Motl.motl_columns order (= Lean `Field.all`); wire rows carry all of them
COLS = ["score", "geom1", "geom2", "subtomo_id", "tomo_id", "object_id", "subtomo_mean", "x", "y", "z",
        "shift_x", "shift_y", "shift_z", "geom3", "geom4", "geom5", "phi", "psi", "theta", "class"]
ID, TOMO, X, Y, Z, SX, SY, SZ, PHI, PSI, THETA = 3, 4, 7, 8, 9, 10, 11, 12, 16, 17, 18
FIELDS = ["x", "y", "z", "shift_x", "shift_y", "shift_z", "phi", "theta", "psi", "tomo_id"]  # the pose fields, as `_p10` orders them
POSE_IDX = [X, Y, Z, SX, SY, SZ, PHI, THETA, PSI, TOMO]

RULE = ("histories of 1..6 (thorough: up to 30) operations update_coordinates / scale_coordinates(f>0) / shift_positions(s) / "
        "apply_rotation(Q) / flip_handedness(dims) on particle lists of 1..8 particles in 1..3 tomograms (all 20 fields filled, distinct "
        "unordered subtomo ids); positions and shifts on the dyadic grid 2^-10 with both signs, a share of exact half-integer complete "
        "positions (ties), of off-grid values and of rows with ALL shifts zero at non-integer coordinates (also the history scale(1.5) -> "
        "update of a freshly picked list); Euler angles generic, gimbal (theta 0/180), multiples of 90, negative and >360; in-plane "
        "rotations of either sense; values as typed or printed with 1..3 decimals (off the dyadic grid: 101.3, 57.25, 12.345; angles, shift vectors, "
        "scale factors such as 1.35, non-integer mirror planes such as 300.5); particles on both sides of scipy's gimbal zone (theta 1e-9 .. 1e-5 "
        "degrees and 180 -+ 4e-6, 10 % of the off-grid cases, with in-plane / identity rotations that keep them there); "
        "INTEGER-TYPED COLUMNS: 15 % of the lists are built the way reading a STAR / CSV file builds them (every column whose values are all whole "
        "numbers is int64) and 9 % hold whole numbers only with chosen column groups (x y z / shifts / angles / the other 11 / all 20) int64, "
        "met first by every kind of operation; RECEIVER CLASS: 35 % of the lists are held in a subclass (EmMotl / RelionMotl / StopgapMotl / DynamoMotl / "
        "ModMotl constructed from the motl-format frame) so that every operation and observer is called on that receiver; COLUMN ORDER: 30 % of the lists store the 20 columns in another order than Motl.motl_columns (Motl accepts "
        "any order) -- interleaved x, shift_x, y, shift_y, z, shift_z / z, y, x / reversed / alphabetical / random permutation -- for every operation "
        "(observations are read by column NAME); DataFrame index default / permuted 0..n-1 / offset / sparse-descending / every label twice, "
        "re-imposed by the caller before EVERY operation in 60 % of the cases (shift_positions resets it); dimension tables: one triple (list / "
        "tuple / 1-D or 1x3 ndarray, each also with python / numpy integers, float or int DataFrame, text file, IMOD .com file) or rows per "
        "tomogram (nested list / nested tuple / ndarray / DataFrame / text file, a single row also flat; shuffled, extra tomograms, duplicate rows "
        "with equal or conflicting z); 3 % are tables of a shape dimensions_load documents it refuses (1x2, 2x3, Nx5 ...): the call must raise "
        "ValueError (judged by exception type, never by the message) and the Lean shape dispatch loadDims must refuse too. The RAW table goes to "
        "the driver (the model does the 1x3 / Nx4 dispatch itself) and ioutils.dimensions_load is also called directly on the argument and "
        "compared with loadDims. QUANTIFIER of flip_handedness: the statement speaks of a particle only when the "
        "dimensions cover its tomogram (a triple, or a table with at least one row for it whose rows agree); a call without dimensions, a "
        "table lacking the particle's tomogram or giving it two z sizes is outside the quantifier: there the real code is compared with "
        "the model of the code only (kind corr), never with the statement (no spec finding, Lean specOp = none). "
        "Keywords: every option is omitted (library default) / passed by keyword / positionally in shares of ~30 %. "
        "Histories with flips: 9 % of the single-list cases are a scale-free history with 1..3 flips (same dimensions) run on the real code TWICE, as "
        "given and as its normal form (python mirror of Lean pushFlips: flips removed, later operations mirrored, one flip appended iff their number "
        "is odd): the final poses must agree (spec, composition-history-flip-parity; the law is Lean's spec_history_flip_parity) and Lean's specRun "
        "of both must agree (corr). Cross-call state: 30 % of the cases re-use one caller-owned argument object (shift vector, Rotation, dimension list / ndarray / "
        "DataFrame / file path) for two calls, in 40 % of those legitimately rewritten by the caller in between (an argument whose content is to stay the same is NOT refreshed by the harness: the next call sees whatever an earlier call left in it); 15 % run TWO lists in one "
        "process with interleaved operations and shared arguments; every argument is compared before/after the call (DataFrame: values "
        "and shape, not the column labels dimensions_load assigns), the list not operated on must stay bit-identical, and with "
        "inplace=False so must the original. After EVERY operation all 20 fields, their dtypes, get_coordinates()/get_angles() (with "
        "dtype; per tomogram and get_rotations() in 35 %) are observed: text or non-finite values in a pose field are spec findings; "
        "complete positions and orientation MATRICES (own products of elementary rotations, never scipy Euler code; an implementation "
        "may store any Euler triple of the right orientation) are compared with the statement evaluated directly (spec) and with the "
        "Lean model run on the state the real code had before the operation (corr; x,y,z,shifts bit-exact for update/scale/flip, 1e-9 "
        "otherwise; the non-pose fields bit-exact); exact steps also go through the Lean verified checkers; the final pose of each "
        "list is compared with the specification folded over its whole history. "
        "non-trivial = >=2 operations of >=2 kinds, some non-zero shift and some non-zero theta in the list; distinct = distinct case content")
ASSUMPTIONS = [
    "scipy Rotation.from_euler('zxz', degrees=True) is Rz(psi)Rx(theta)Rz(phi); as_euler returns a triple that reproduces the matrix (also at gimbal lock); "
    "'*' is the matrix product and apply() the matrix-vector product -- each compared on every case against the harness's own elementary-rotation "
    "products within 1e-9 and probed separately (probes()); over the reals these assumptions are satisfiable: Lemmas/C05_Euler proves that every proper "
    "rotation has zxz Euler angles and Props/C05 instantiates every theorem with realSvc (no assumption left)",
    "numpy/pandas float64 +,-,* are IEEE-754 binary64 like Lean Float (update/scale/flip steps are compared bit for bit)",
    "decimal.Decimal(float).to_integral_value(ROUND_HALF_UP) rounds the exact binary value half away from zero = Lean roundHalfUp on the exact rational (compared on every update step, incl. ties)",
    "libm cos/sin/atan2/acos used by the Lean driver's Float services agree with numpy within 1e-12 (inside the 1e-9 tolerance)",
    "flip_handedness: calls whose dimensions do not cover a particle's tomogram (none given / no row / conflicting rows) are outside the property's quantifier; "
    "so is a table of undocumented shape (documented refusal, ValueError)",
    "scipy as_euler inside its gimbal zone (theta within 1e-7 rad of 0 or pi) returns a triple that reproduces the matrix only up to 2 sin(theta) <= 2e-7: "
    "orientation comparisons that involve such a product allow 3 sin(theta) (probed each run on both sides of the zone); outside the zone 1e-9",
    "integer-typed columns hold values below 2^53 (float(v) exact); the model is run on the float values of the cells",
]
TRUSTED = ["harness elementary-rotation oracle rot_zxz() in props/c05.py (3x3 products with math.cos/math.sin)",
           "Drv/C05.lean Float services (cos/sin in degrees, zxz Euler extraction, exact Float->Rat decoding)"]
# H4 tolerances: matrices are compared entry-wise. 1e-9 covers the round-off of scipy's quaternion <-> Euler conversions of well-conditioned
# orientations (measured < 1e-14, see max_dev_R) with a wide margin and is far below any defect of the statement (a wrong sign / order / axis
# changes entries by O(1), a wrong unit by > 1e-3); next to gimbal lock the conditioned allowance `_gimbal_allow` is ADDED. Positions: relative
# 1e-9 of the magnitude (coordinates < 1e4 -> 1e-5 voxel absolute at worst); exact (bit-for-bit) wherever no trigonometry is involved.
TOL = 1e-9


# ------------------------------------------------------------------ translator
IOREL = "cryocat/ioutils.py"

# documented values (what the property's statement and the docstrings say); used as FALL-BACK when an anchor is missing so
# that a missing anchor never changes the model silently (the missing anchor itself breaks `anchors_ok`)
DOC = dict(
    coords=[["x", "y", "z"], ["shift_x", "shift_y", "shift_z"]],
    rounded=[["x", "x", "shift_x", "ROUND_HALF_UP"], ["y", "y", "shift_y", "ROUND_HALF_UP"], ["z", "z", "shift_z", "ROUND_HALF_UP"]],
    resid=[["shift_x", "x", "shift_x", "x", True], ["shift_y", "y", "shift_y", "y", True], ["shift_z", "z", "shift_z", "z", True]],
    scale=[["x", "y", "z"], ["shift_"]],
    euler=[["apply_rotation.from_euler", "zxz", "degrees"], ["apply_rotation.as_euler", "zxz", "degrees"],
           ["shift_positions.from_euler", "zxz", "degrees"], ["get_rotations.from_euler", "zxz", "degrees"]],
    angle_cols=[["phi", "theta", "psi"]] * 5,
    side=True,
    shift_targets=[["shift_x", 0], ["shift_y", 1], ["shift_z", 2]],
    flip=[1, 1, 2, 2, 1],
    signatures=[["Motl.get_coordinates", "tomo_number", "None"], ["Motl.get_angles", "tomo_number", "None"],
                ["Motl.get_rotations", "tomo_number", "None"], ["Motl.update_coordinates", "", ""],
                ["Motl.scale_coordinates", "scaling_factor", ""], ["Motl.shift_positions", "shift", ""],
                ["Motl.shift_positions", "inplace", "True"], ["Motl.apply_rotation", "rotation", ""],
                ["Motl.flip_handedness", "tomo_dimensions", "None"], ["dimensions_load", "input_dims", ""],
                ["dimensions_load", "tomo_idx", "None"], ["imod_com_read", "filename", ""]],
)
BODIES = [("getCoordinatesBody", REL, "Motl.get_coordinates"), ("getAnglesBody", REL, "Motl.get_angles"),
          ("getRotationsBody", REL, "Motl.get_rotations"), ("updateBody", REL, "Motl.update_coordinates"),
          ("scaleBody", REL, "Motl.scale_coordinates"), ("shiftBody", REL, "Motl.shift_positions"),
          ("rotateBody", REL, "Motl.apply_rotation"), ("flipBody", REL, "Motl.flip_handedness"),
          ("dimensionsLoadBody", IOREL, "dimensions_load"), ("imodComReadBody", IOREL, "imod_com_read")]


# DOC_BODIES_BEGIN
# the documented normalised bodies (the same literals as the `…_body_documented` theorems of Props/C05.lean): kept here so that
# a differing body is reported first-hand (entry, documented / found text, original source line) by the translator
DOC_BODIES = {
    'getCoordinatesBody': [
        'def get_coordinates(self, v0=None):',
        '    if v0 is None:',
        "        v1 = self.df.loc[:, ['x', 'y', 'z']].values + self.df.loc[:, ['shift_x', 'shift_y', 'shift_z']].values",
        '    else:',
        "        v1 = self.df.loc[self.df.loc[:, 'tomo_id'] == v0, ['x', 'y', 'z']].values + self.df.loc[self.df.loc[:, 'tomo_id'] == v0, ['shift_x', 'shift_y', 'shift_z']].values",
        '    return v1',
    ],
    'getAnglesBody': [
        'def get_angles(self, v0=None):',
        '    if v0 is None:',
        "        v1 = self.df.loc[:, ['phi', 'theta', 'psi']].values",
        '    else:',
        "        v1 = self.df.loc[self.df.loc[:, 'tomo_id'] == v0, ['phi', 'theta', 'psi']].values",
        '    return np.atleast_2d(v1)',
    ],
    'getRotationsBody': [
        'def get_rotations(self, v0=None):',
        '    v1 = self.get_angles(v0)',
        '    if v1.shape[0] == 0:',
        '        return []',
        "    v2 = rot.from_euler('zxz', v1, degrees=True)",
        '    return v2',
    ],
    'updateBody': [
        'def update_coordinates(self):',
        '    def v0(v1):',
        '        v2 = v1.copy()',
        "        v3 = v1['x'] + v1['shift_x']",
        "        v4 = v1['y'] + v1['shift_y']",
        "        v5 = v1['z'] + v1['shift_z']",
        "        v2['x'] = float(decimal.Decimal(float(v3)).to_integral_value(rounding=decimal.ROUND_HALF_UP))",
        "        v2['y'] = float(decimal.Decimal(float(v4)).to_integral_value(rounding=decimal.ROUND_HALF_UP))",
        "        v2['z'] = float(decimal.Decimal(float(v5)).to_integral_value(rounding=decimal.ROUND_HALF_UP))",
        "        v2['shift_x'] = v3 - v2['x']",
        "        v2['shift_y'] = v4 - v2['y']",
        "        v2['shift_z'] = v5 - v2['z']",
        '        return v2',
        '    self.df = self.df.apply(v0, axis=1)',
        "    warnings.warn('<message>')",
    ],
    'scaleBody': [
        'def scale_coordinates(self, v0):',
        "    for v1 in ('x', 'y', 'z'):",
        '        self.df[v1] = self.df[v1] * v0',
        "        v2 = 'shift_' + v1",
        '        self.df[v2] = self.df[v2] * v0',
    ],
    'shiftBody': [
        'def shift_positions(self, v0, v1=True):',
        '    def v2(v3):',
        '        v3 = v3.astype(float)',
        '        v4 = np.array(v0)',
        "        v5 = np.array([[v3['phi'], v3['theta'], v3['psi']]])",
        "        v6 = rot.from_euler(seq='zxz', angles=v5, degrees=True)",
        '        v7 = v6.apply(v4)',
        "        v3['shift_x'] = v3['shift_x'] + v7[0][0]",
        "        v3['shift_y'] = v3['shift_y'] + v7[0][1]",
        "        v3['shift_z'] = v3['shift_z'] + v7[0][2]",
        '        return v3',
        '    if v1:',
        '        self.df = self.df.apply(v2, axis=1).reset_index(drop=True)',
        '    else:',
        '        v8 = copy.deepcopy(self)',
        '        v8.df = v8.df.apply(v2, axis=1).reset_index(drop=True)',
        '        return v8',
    ],
    'rotateBody': [
        'def apply_rotation(self, v0):',
        '    if not isinstance(v0, rot):',
        "        raise ValueError('<message>')",
        "    v1 = self.df.loc[:, ['phi', 'theta', 'psi']].to_numpy()",
        "    v2 = rot.from_euler('zxz', v1, degrees=True)",
        '    v3 = v2 * v0',
        "    v1 = v3.as_euler('zxz', degrees=True)",
        "    self.df[['phi', 'theta', 'psi']] = v1",
    ],
    'flipBody': [
        'def flip_handedness(self, v0=None):',
        "    self.df.loc[:, 'theta'] = -self.df.loc[:, 'theta']",
        '    if v0 is not None:',
        '        v1 = ioutils.dimensions_load(v0)',
        "        self.df['z'] = self.df['z'].astype(float)",
        '        if v1.shape == (1, 3):',
        "            v2 = float(v1['z'].iloc[0]) + 1",
        "            self.df.loc[:, 'z'] = v2 - self.df.loc[:, 'z']",
        "            self.df.loc[:, 'shift_z'] = -self.df.loc[:, 'shift_z']",
        '        else:',
        "            v3 = v1['tomo_id'].unique()",
        '            for v4 in v3:',
        "                v2 = float(v1.loc[v1['tomo_id'] == v4, 'z'].iloc[0]) + 1",
        "                self.df.loc[self.df['tomo_id'] == v4, 'z'] = v2 - self.df.loc[self.df['tomo_id'] == v4, 'z']",
        "                self.df.loc[self.df['tomo_id'] == v4, 'shift_z'] = -self.df.loc[self.df['tomo_id'] == v4, 'shift_z']",
    ],
    'dimensionsLoadBody': [
        'def dimensions_load(v0, v1=None):',
        '    if isinstance(v0, pd.DataFrame):',
        '        v2 = v0',
        '    elif isinstance(v0, str):',
        "        if v0.endswith('.com'):",
        '            v3 = imod_com_read(v0)',
        '            v2 = np.zeros((1, 3))',
        "            v2[0, 0:2] = v3['FULLIMAGE']",
        "            v2[0, 2] = v3['THICKNESS'][0]",
        '            v2 = pd.DataFrame(v2)',
        '        elif os.path.isfile(v0):',
        "            v2 = pd.read_csv(v0, sep='\\\\s+', header=None, dtype=float)",
        '        else:',
        "            raise ValueError('<message>')",
        '    else:',
        '        v0 = np.asarray(v0)',
        '        if v0.ndim == 1:',
        '            v0 = np.reshape(v0, (1, v0.shape[0]))',
        '        v2 = pd.DataFrame(v0)',
        '    if v2.shape == (1, 3):',
        "        v2.columns = ['x', 'y', 'z']",
        '    elif v2.shape[1] == 4:',
        "        v2.columns = ['tomo_id', 'x', 'y', 'z']",
        '    else:',
        "        raise ValueError('<message>')",
        '    if v1 is not None:',
        '        v4 = tlt_load(v1).astype(int)',
        "        if 'tomo_id' not in v2.columns:",
        "            v5 = np.repeat(v2[['x', 'y', 'z']].values, len(v4), axis=0)",
        "            v2 = pd.DataFrame(v5, columns=['x', 'y', 'z'])",
        "            v2['tomo_id'] = v4",
        '    return v2',
    ],
    'imodComReadBody': [
        'def imod_com_read(v0):',
        '    v1 = {}',
        "    with open(v0, 'r') as v2:",
        '        for v3 in v2:',
        "            if v3.startswith('#') or v3.startswith('$'):",
        '                continue',
        '            v4 = v3.split()',
        '            v5 = v4[0]',
        '            v6 = [int(v7) if v7.isdigit() else float(v7) if is_float(v7) else v7 for v7 in v4[1:]]',
        '            v1[v5] = v6',
        '    return v1',
    ],
}
# DOC_BODIES_END


def _u(n):
    return ast.unparse(n).replace(" ", "").replace("'", '"')


def _str_list(node):
    v = ast.literal_eval(node)
    if not (isinstance(v, (list, tuple)) and all(isinstance(s, str) for s in v)):
        raise core.AnchorMissing("not a list of strings: " + _u(node))
    return list(v)


def _inner(fn, what):
    """the single function defined inside `fn` (whatever its name)"""
    inner = [s for s in ast.walk(fn) if isinstance(s, ast.FunctionDef) and s is not fn]
    if len(inner) != 1:
        raise core.AnchorMissing(f"{what}: expected exactly one inner function, found {len(inner)}")
    return inner[0]


MSG = "<message>"  # placeholder for the text of exception / warning / log messages (H1: rewording a message is a harmless edit)
_LOGGERS = ("warnings.warn", "print", "logging.", "logger.", "log.")


def _binding_nodes(fn):
    """every BINDING occurrence of a local name inside `fn` (parameters except self, assigned names, loop / with / except /
    comprehension targets, inner function names, local imports) in SOURCE order (line, column)"""
    occ = []
    for n in ast.walk(fn):
        if isinstance(n, (ast.FunctionDef, ast.AsyncFunctionDef)) and n is not fn:
            occ.append((n.lineno, n.col_offset, 0, n))
        elif isinstance(n, ast.arg) and n.arg != "self":
            occ.append((n.lineno, n.col_offset, 1, n))
        elif isinstance(n, ast.Name) and isinstance(n.ctx, ast.Store):
            occ.append((n.lineno, n.col_offset, 1, n))
        elif isinstance(n, ast.ExceptHandler) and n.name:
            occ.append((n.lineno, n.col_offset, 1, n))
        elif isinstance(n, ast.alias):
            occ.append((getattr(n, "lineno", 0), getattr(n, "col_offset", 0), 1, n))
    occ.sort(key=lambda t: t[:3])
    return [t[3] for t in occ]


def _bound_name(n):
    if isinstance(n, (ast.FunctionDef, ast.AsyncFunctionDef, ast.ExceptHandler)):
        return n.name
    if isinstance(n, ast.arg):
        return n.arg
    if isinstance(n, ast.alias):
        return (n.asname or n.name).split(".")[0]
    return n.id


class _Canon(ast.NodeTransformer):
    """annotation-free, message-free, alpha-renamed form of a function"""

    def __init__(self, names, discards):
        self.names, self.discards = names, discards

    def visit_Name(self, n):
        new = self.discards.get(id(n)) or self.names.get(n.id, n.id)
        return ast.copy_location(ast.Name(id=new, ctx=n.ctx), n)

    def visit_arg(self, a):
        a.arg = self.discards.get(id(a)) or self.names.get(a.arg, a.arg)
        a.annotation = None  # H1: a type hint is not behaviour
        return a

    def visit_FunctionDef(self, f):
        f.name = self.discards.get(id(f)) or self.names.get(f.name, f.name)
        f.returns = None
        # decorators of INNER functions (round_and_recenter, shift_coords) stay in the dump: the framework's binding obligation
        # covers the decorator list of the anchored (looked-up) function only, which `alpha_norm` clears itself
        self.generic_visit(f)
        return f

    def visit_ExceptHandler(self, h):
        if h.name:
            h.name = self.discards.get(id(h)) or self.names.get(h.name, h.name)
        self.generic_visit(h)
        return h

    def visit_AnnAssign(self, n):  # `x: T = v` is `x = v`; a bare declaration `x: T` is nothing
        self.generic_visit(n)
        if n.value is None:
            return ast.copy_location(ast.Pass(), n)
        return ast.copy_location(ast.Assign(targets=[n.target], value=n.value), n)

    @staticmethod
    def _blank(call):
        """the message arguments of an exception constructor / warning / log call: text literals and f-strings -> placeholder"""
        if isinstance(call, ast.Call):
            call.args = [ast.copy_location(ast.Constant(MSG), a) if (isinstance(a, ast.JoinedStr) or (isinstance(a, ast.Constant) and isinstance(a.value, str))
                         or (isinstance(a, ast.BinOp) and any(isinstance(x, (ast.JoinedStr,)) or (isinstance(x, ast.Constant) and isinstance(x.value, str)) for x in ast.walk(a)))) else a
                         for a in call.args]
            for k in call.keywords:
                if k.arg in ("message", "msg") and not isinstance(k.value, ast.Name):
                    k.value = ast.copy_location(ast.Constant(MSG), k.value)

    def visit_Raise(self, n):
        self.generic_visit(n)
        self._blank(n.exc)
        return n

    def visit_Expr(self, n):
        self.generic_visit(n)
        if isinstance(n.value, ast.Call):
            f = ast.unparse(n.value.func)
            if any(f == l or (l.endswith(".") and f.startswith(l)) for l in _LOGGERS):
                self._blank(n.value)
        return n

    def visit_UnaryOp(self, n):  # `not (a is None)` is `a is not None` (the same for `in`); identity / membership tests only
        self.generic_visit(n)
        flip = {ast.Is: ast.IsNot, ast.IsNot: ast.Is, ast.In: ast.NotIn, ast.NotIn: ast.In}
        if isinstance(n.op, ast.Not) and isinstance(n.operand, ast.Compare) and len(n.operand.ops) == 1 and type(n.operand.ops[0]) in flip:
            c = n.operand
            return ast.copy_location(ast.Compare(left=c.left, ops=[flip[type(c.ops[0])]()], comparators=c.comparators), n)
        return n


class _NoAnn(ast.NodeTransformer):
    """H1: the same function without type annotations (`x: T = v` -> `x = v`, bare `x: T` dropped, argument / return hints dropped);
    names and everything else untouched. Every semantic anchor reads the source through this, so a type hint never moves an anchor."""

    def visit_arg(self, a):
        a.annotation = None
        return a

    def visit_FunctionDef(self, f):
        f.returns = None
        self.generic_visit(f)
        return f

    def visit_AnnAssign(self, n):
        self.generic_visit(n)
        if n.value is None:
            return ast.copy_location(ast.Pass(), n)
        return ast.copy_location(ast.Assign(targets=[n.target], value=n.value), n)


def _no_ann(fn):
    out = _NoAnn().visit(copy.deepcopy(fn))
    ast.fix_missing_locations(out)
    return out


def alpha_norm(fn):
    """canonical form of a whole function (H1, H2, G5): docstrings dropped; decorators, argument / return / variable annotations
    dropped; texts of exception, warning and log messages replaced by a placeholder; `not (a is None)` written `a is not None`;
    every LOCAL name (parameters except self, assigned names, loop / with / except targets, inner functions, local imports)
    replaced by v0, v1, ... in the order of its first BINDING occurrence in the source, every binding of the discard name `_`
    getting a number of its own -- so renaming a local, adding a type hint, rewording a message do not change it, while any
    added / removed / reordered / altered statement does. Returns the normalised ast (line numbers kept)."""
    fn = copy.deepcopy(fn)
    for n in ast.walk(fn):
        if isinstance(n, (ast.FunctionDef, ast.AsyncFunctionDef)):
            if n.body and isinstance(n.body[0], ast.Expr) and isinstance(n.body[0].value, ast.Constant) and isinstance(n.body[0].value.value, str):
                n.body = n.body[1:] or [ast.Pass()]
    names, discards, k = {}, {}, 0
    for n in _binding_nodes(fn):
        x = _bound_name(n)
        if x == "_":
            discards[id(n)] = f"v{k}"; k += 1
        elif x not in names:
            names[x] = f"v{k}"; k += 1
    keep = fn.name
    fn = _Canon(names, discards).visit(fn)
    fn.name = keep
    fn.decorator_list = []  # the anchored function's own decorators are the framework's binding obligation (harness/decorators.json)
    ast.fix_missing_locations(fn)
    return fn


def alpha_lines(fn):
    """`alpha_norm(fn)` unparsed, one list entry per line"""
    return [l.rstrip() for l in ast.unparse(alpha_norm(fn)).splitlines() if l.strip()]


def _body_diff(src, rel, q, found, doc):
    """first-hand diagnostic for a whole-body anchor: which entry differs, the documented and the found normalised text, and the
    ORIGINAL source line(s) the found entry comes from (with the original identifiers)"""
    k = next((i for i, (x, y) in enumerate(zip(found, doc)) if x != y), min(len(found), len(doc)))
    f_txt = found[k] if k < len(found) else "<end of body>"
    d_txt = doc[k] if k < len(doc) else "<end of body>"
    orig = ""
    if k < len(found):
        norm = alpha_norm(src.find(rel, q))
        lines = src.text(rel).splitlines()
        hits = sorted({s.lineno for s in ast.walk(norm) if isinstance(s, ast.stmt) and ast.unparse(s).splitlines()[0].strip() == f_txt.strip()})
        if hits:
            orig = "; original source " + " / ".join(f"line {h}: `{lines[h - 1].strip()[:140]}`" for h in hits[:2])
    return f"{q}: normalised body differs from the documented one at entry {k}: documented {d_txt!r}, found {f_txt!r}{orig}"


def translate(src):
    A = src.anchor
    find = lambda rel, q: _no_ann(src.find(rel, q))  # every lookup is recorded by src.find (binding obligations)

    # --- get_coordinates: values of [x,y,z] + values of [shift_x,shift_y,shift_z], both branches
    def coords():
        fn = find(REL, "Motl.get_coordinates")
        found = []
        for n in ast.walk(fn):
            if isinstance(n, ast.Assign) and isinstance(n.value, ast.BinOp):
                if not isinstance(n.value.op, ast.Add):
                    raise core.AnchorMissing("get_coordinates: coordinates and shifts are not added: " + _u(n.value)[:80])
                lists = [_str_list(l) for side in (n.value.left, n.value.right) for l in ast.walk(side) if isinstance(l, ast.List)]
                found.append(lists)
        if len(found) != 2 or any(len(f) != 2 for f in found) or found[0] != found[1]:
            raise core.AnchorMissing("get_coordinates: expected two branches '<xyz>.values + <shifts>.values'")
        return found[0]

    cs = A("get_coordinates:x+shift", coords)
    if cs is None:  # a MISSING anchor (never a falsy value that was found) falls back to the documented value
        cs = DOC["coords"]

    # --- update_coordinates
    def update():
        outer = find(REL, "Motl.update_coordinates")
        fn = _inner(outer, "update_coordinates")
        row = fn.args.args[0].arg
        shifted, rounded, resid = {}, [], []
        for st in fn.body:
            if not isinstance(st, ast.Assign) or len(st.targets) != 1:
                continue
            t, v = st.targets[0], st.value
            if isinstance(t, ast.Name) and isinstance(v, ast.BinOp) and isinstance(v.op, ast.Add):
                m = re.fullmatch(rf'{row}\["(\w+)"\]\+{row}\["(\w+)"\]', _u(v))
                if m:
                    shifted[t.id] = (m.group(1), m.group(2))
            elif isinstance(t, ast.Subscript) and isinstance(v, ast.Call):
                # `Decimal(float(v))`: the sum of two integer-typed cells is a numpy integer, which Decimal refuses; float(v) is exact below 2^53
                m = re.fullmatch(r'float\(decimal\.Decimal\(float\((\w+)\)\)\.to_integral_value\(rounding=decimal\.(\w+)\)\)', _u(v))
                if m and m.group(1) in shifted:
                    col = ast.literal_eval(t.slice)
                    rounded.append([col, shifted[m.group(1)][0], shifted[m.group(1)][1], m.group(2)])
            elif isinstance(t, ast.Subscript) and isinstance(v, ast.BinOp) and isinstance(v.op, ast.Sub):
                m = re.fullmatch(r'(\w+)-(\w+)\["(\w+)"\]', _u(v))
                if m and m.group(1) in shifted:
                    resid.append([ast.literal_eval(t.slice), shifted[m.group(1)][0], shifted[m.group(1)][1], m.group(3), m.group(2) == _u(t.value)])
        if len(rounded) != 3 or len(resid) != 3:
            raise core.AnchorMissing(f"update_coordinates.{fn.name}: expected 3 roundings `float(decimal.Decimal(float(<x+shift_x>)).to_integral_value(rounding=...))` and 3 residual shifts, found {len(rounded)} / {len(resid)}: "
                                     + " ; ".join(ast.unparse(st)[:90] for st in fn.body if isinstance(st, ast.Assign) and "Decimal" in ast.unparse(st)))
        new_rows = [st.targets[0].id for st in fn.body if isinstance(st, ast.Assign) and _u(st.value) == f"{row}.copy()"]
        if not isinstance(fn.body[-1], ast.Return) or len(new_rows) != 1 or _u(fn.body[-1].value) != new_rows[0]:
            raise core.AnchorMissing("round_and_recenter does not return the new row")
        if not any(isinstance(s, ast.Assign) and _u(s) == f"self.df=self.df.apply({fn.name},axis=1)" for s in outer.body):
            raise core.AnchorMissing("update_coordinates does not apply round_and_recenter row by row")
        return [rounded, resid]

    up = A("update_coordinates:round_and_recenter", update)
    if up is None:
        up = [DOC["rounded"], DOC["resid"]]

    # --- scale_coordinates
    def scale():
        fn = find(REL, "Motl.scale_coordinates")
        loop = next((s for s in fn.body if isinstance(s, ast.For)), None)
        if loop is None:
            raise core.AnchorMissing("scale_coordinates: no loop over the coordinates")
        coords_ = _str_list(loop.iter)
        var = loop.target.id
        factor = fn.args.args[1].arg
        txt = [_u(s) for s in loop.body]
        want = [f'self.df[{var}]=self.df[{var}]*{factor}', None, None]
        m = re.fullmatch(rf'(\w+)="(\w+)"\+{var}', txt[1]) if len(txt) == 3 else None
        if len(txt) != 3 or txt[0] != want[0] or not m or txt[2] != f'self.df[{m.group(1)}]=self.df[{m.group(1)}]*{factor}':
            raise core.AnchorMissing("scale_coordinates: loop body is not 'col *= factor; shift_col *= factor': " + " ; ".join(txt)[:160])
        return [coords_, [m.group(2)]]

    sc = A("scale_coordinates:loop", scale)
    if sc is None:  # a MISSING anchor (never a falsy value that was found) falls back to the documented value
        sc = DOC["scale"]

    # --- Euler conventions: every from_euler / as_euler call in the anchored functions
    def euler_calls():
        out = []
        for q in ("Motl.apply_rotation", "Motl.shift_positions", "Motl.get_rotations"):
            fn = find(REL, q)
            for n in ast.walk(fn):
                if isinstance(n, ast.Call) and isinstance(n.func, ast.Attribute) and n.func.attr in ("from_euler", "as_euler"):
                    kw = {k.arg: k.value for k in n.keywords}
                    seq = kw.get("seq", n.args[0] if n.args else None)
                    deg = kw.get("degrees")
                    out.append([q.split(".")[1] + "." + n.func.attr, ast.literal_eval(seq) if seq is not None else "?",
                                "degrees" if (deg is not None and ast.literal_eval(deg) is True) else "radians"])
        if len(out) != 4:
            raise core.AnchorMissing(f"expected 4 from_euler/as_euler calls, found {len(out)}")
        return out

    eu = A("euler-conventions:from_euler/as_euler", euler_calls)
    if eu is None:  # a MISSING anchor (never a falsy value that was found) falls back to the documented value
        eu = DOC["euler"]

    # --- angle column order used to build / store Euler triples
    def angle_cols():
        out = []
        fn = find(REL, "Motl.apply_rotation")
        for n in ast.walk(fn):  # read: self.df.loc[:, [cols]]; write: the three columns assigned AS A WHOLE, self.df[[cols]] = <as_euler result>
            if isinstance(n, ast.Subscript) and _u(n.value) == "self.df.loc" and isinstance(n.ctx, ast.Load):
                out.append(_str_list(n.slice.elts[1]))
        writes = [st for st in ast.walk(fn) if isinstance(st, ast.Assign) and any(isinstance(t, ast.Subscript) and _u(t.value).startswith("self.df") for t in st.targets)]
        if len(out) != 1 or len(writes) != 1 or len(writes[0].targets) != 1:
            raise core.AnchorMissing(f"apply_rotation: expected one read `self.df.loc[:, [phi, theta, psi]]` and one write of the angle columns, found {len(out)} / {[_u(w)[:60] for w in writes]}")
        w = writes[0].targets[0]
        if _u(w.value) != "self.df" or not isinstance(w.slice, ast.List):
            raise core.AnchorMissing("apply_rotation: the angle columns are not assigned as a whole (`self.df[[phi, theta, psi]] = angles`; a `.loc[:, cols] = floats` "
                                     "assignment raises under pandas 3 when the columns are integer-typed): " + _u(writes[0])[:100])
        src_names = {x.id for x in ast.walk(writes[0].value) if isinstance(x, ast.Name)}
        as_e = [st.targets[0].id for st in ast.walk(fn) if isinstance(st, ast.Assign) and isinstance(st.targets[0], ast.Name) and isinstance(st.value, ast.Call) and _u(st.value.func).endswith(".as_euler")]
        if not as_e or as_e[-1] not in src_names:
            raise core.AnchorMissing("apply_rotation: what is stored is not the as_euler result: " + _u(writes[0])[:100])
        out.append(_str_list(w.slice))
        fn = find(REL, "Motl.get_angles")
        g = [_str_list(n.slice.elts[1]) for n in ast.walk(fn) if isinstance(n, ast.Subscript) and _u(n.value) == "self.df.loc"
             and isinstance(n.slice, ast.Tuple) and isinstance(n.slice.elts[1], ast.List)]
        if len(g) != 2:
            raise core.AnchorMissing("get_angles: expected two branches selecting the angle columns")
        out += g
        fn = _inner(find(REL, "Motl.shift_positions"), "shift_positions")
        row = fn.args.args[0].arg
        for n in ast.walk(fn):
            if isinstance(n, ast.Assign):
                m = re.fullmatch(rf'np\.array\(\[\[{row}\["(\w+)"\],{row}\["(\w+)"\],{row}\["(\w+)"\]\]\]\)', _u(n.value))
                if m:
                    # this array must be what from_euler gets
                    if not re.search(rf'angles={_u(n.targets[0])}\b', _u(fn)):
                        raise core.AnchorMissing("shift_coords: the [[phi, theta, psi]] array is not what from_euler gets")
                    out.append(list(m.groups()))
        if len(out) != 5:
            raise core.AnchorMissing("shift_coords: the Euler triple [[phi, theta, psi]] of the row was not found")
        return out

    ac = A("angle-columns:apply_rotation,get_angles,shift_coords", angle_cols)
    if ac is None:  # a MISSING anchor (never a falsy value that was found) falls back to the documented value
        ac = DOC["angle_cols"]

    # --- apply_rotation: which side the user's rotation multiplies on
    def rot_side():
        fn = find(REL, "Motl.apply_rotation")
        param = fn.args.args[1].arg
        from_e = None
        for n in ast.walk(fn):
            if isinstance(n, ast.Assign) and isinstance(n.value, ast.Call) and _u(n.value.func).endswith(".from_euler"):
                from_e = n.targets[0].id
        for n in ast.walk(fn):
            if isinstance(n, ast.Assign) and isinstance(n.value, ast.BinOp) and isinstance(n.value.op, ast.Mult):
                l, r = _u(n.value.left), _u(n.value.right)
                if (l, r) == (from_e, param):
                    prod = n.targets[0].id
                    side = True
                elif (l, r) == (param, from_e):
                    prod = n.targets[0].id
                    side = False
                else:
                    continue
                # the product must be what is converted back and stored
                txt = _u(fn)
                if f"{prod}.as_euler(" not in txt:
                    raise core.AnchorMissing("apply_rotation: the product is not converted back with as_euler")
                return side
        raise core.AnchorMissing("apply_rotation: no product '<from_euler angles> * <rotation>'")

    side = A("apply_rotation:angles_rot*rotation", rot_side)
    if side is None:
        side = DOC["side"]

    # --- shift_positions: own orientation applied to the shift, added to the shift columns
    def shift_targets():
        outer = find(REL, "Motl.shift_positions")
        fn = _inner(outer, "shift_positions")
        shift_param = outer.args.args[1].arg
        row = fn.args.args[0].arg
        txt = _u(fn)
        m = re.search(r'(\w+)=(\w+)\.apply\((\w+)\)', txt)
        mo = re.search(r'(\w+)=rot\.from_euler\(', txt)
        mv = re.search(rf'(\w+)=np\.array\({shift_param}\)', txt)
        if not (m and mo and mv and m.group(2) == mo.group(1) and m.group(3) == mv.group(1)):
            raise core.AnchorMissing("shift_coords: rshifts = orientations.apply(np.array(shift)) not found")
        rs = m.group(1)
        out = []
        for st in fn.body:
            if isinstance(st, ast.Assign):
                mm = re.fullmatch(rf'{row}\["(\w+)"\]={row}\["(\w+)"\]\+{rs}\[0\]\[(\d)\]', _u(st))
                if mm:
                    if mm.group(1) != mm.group(2):
                        raise core.AnchorMissing("shift_coords: a shift column is computed from another column")
                    out.append([mm.group(1), int(mm.group(3))])
        if len(out) != 3:
            raise core.AnchorMissing("shift_coords: expected three 'row[shift_c] = row[shift_c] + rshifts[0][i]'")
        # the row is made floating point first (a frame whose 20 columns are all int64 hands over int64 rows; pandas 3 refuses the float shift)
        if not (fn.body and _u(fn.body[0]) == f"{row}={row}.astype(float)"):
            raise core.AnchorMissing(f"shift_coords: the first statement is not `{row} = {row}.astype(float)`: " + (_u(fn.body[0])[:80] if fn.body else "<empty>"))
        # both entry points apply it row by row
        calls = len(re.findall(rf'\.df\.apply\({fn.name},axis=1\)', _u(outer)))
        if calls != 2:
            raise core.AnchorMissing(f"shift_positions: expected the row function applied in both branches (inplace / copy), found {calls}")
        return out

    st_ = A("shift_positions:shift+=R.apply(s)", shift_targets)
    if st_ is None:  # a MISSING anchor (never a falsy value that was found) falls back to the documented value
        st_ = DOC["shift_targets"]

    # --- flip_handedness
    def flip():
        fn = find(REL, "Motl.flip_handedness")
        neg_theta = any(isinstance(s, ast.Assign) and _u(s) == 'self.df.loc[:,"theta"]=-self.df.loc[:,"theta"]' for s in fn.body)
        offs, zvars, mirrors, negs = [], set(), 0, 0
        for n in ast.walk(fn):
            if isinstance(n, ast.Assign) and isinstance(n.targets[0], ast.Name) and isinstance(n.value, ast.BinOp) and '"z"' in _u(n.value):
                v = n.value
                if not (isinstance(v.op, ast.Add) and isinstance(v.right, ast.Constant) and re.fullmatch(r'float\(\w+(\.loc)?\[.*"z"\]\.iloc\[0\]\)', _u(v.left))):
                    raise core.AnchorMissing("flip_handedness: the mirror plane is not float(<dims>[...'z'].iloc[0]) + <const>: " + _u(v)[:100])
                offs.append(v.right.value)
                zvars.add(n.targets[0].id)
        for n in ast.walk(fn):
            if isinstance(n, ast.Assign) and isinstance(n.targets[0], ast.Subscript) and _u(n.targets[0].value) == "self.df.loc":
                tgt, val = _u(n.targets[0]), _u(n.value)
                if tgt.endswith(',"z"]') and any(val == zv + "-" + tgt for zv in zvars):
                    mirrors += 1
                if tgt.endswith(',"shift_z"]') and val == "-" + tgt:
                    negs += 1
        if len(offs) != 2 or offs[0] != offs[1] or not isinstance(offs[0], int) or offs[0] < 0:
            raise core.AnchorMissing(f"flip_handedness: offsets of the two branches: {offs}")
        # the z column is converted to float BEFORE either branch mirrors into it (integer-typed z columns, pandas 3)
        guard = next((st for st in fn.body if isinstance(st, ast.If)), None)
        casts = 0
        if guard is not None:
            for i, st in enumerate(guard.body):
                if isinstance(st, ast.Assign) and _u(st) == 'self.df["z"]=self.df["z"].astype(float)' and any(isinstance(x, ast.If) for x in guard.body[i + 1:]):
                    casts += 1
        return [offs[0], 1 if neg_theta else 0, mirrors, negs, casts]

    fl = A("flip_handedness:theta,z_dim,shift_z", flip)
    if fl is None:  # a MISSING anchor (never a falsy value that was found) falls back to the documented value
        fl = DOC["flip"]

    # --- signatures: parameter names and default values of every function the adapter calls (G1)
    def signatures():
        out = []
        for rel, q in [(REL, "Motl.get_coordinates"), (REL, "Motl.get_angles"), (REL, "Motl.get_rotations"), (REL, "Motl.update_coordinates"),
                       (REL, "Motl.scale_coordinates"), (REL, "Motl.shift_positions"), (REL, "Motl.apply_rotation"),
                       (REL, "Motl.flip_handedness"), (IOREL, "dimensions_load"), (IOREL, "imod_com_read")]:
            fn = find(rel, q)
            a = fn.args
            if a.vararg or a.kwarg or a.kwonlyargs or a.posonlyargs:
                raise core.AnchorMissing(f"{q}: unexpected *args/**kwargs/keyword-only parameters")
            params = [x.arg for x in a.args if x.arg != "self"]
            defaults = [""] * (len(params) - len(a.defaults)) + [ast.unparse(d) for d in a.defaults]
            if not params:
                out.append([q, "", ""])
            out += [[q, p, d] for p, d in zip(params, defaults)]
        return out

    sg = A("signatures:parameters-and-defaults", signatures)
    if sg is None:  # a MISSING anchor (never a falsy value that was found) falls back to the documented value
        sg = DOC["signatures"]

    # --- whole bodies, alpha-normalised (G5): any added / removed / reordered statement is seen, a renamed local is not
    bodies = {}
    for lean_name, rel, q in BODIES:
        def whole(rel=rel, q=q, lean_name=lean_name):
            d = alpha_lines(src.find(rel, q))
            bodies[lean_name] = d  # the text actually found goes to Gen (the Lean theorem compares it with the documented literal)
            if d != DOC_BODIES[lean_name]:
                raise core.AnchorMissing(_body_diff(src, rel, q, d, DOC_BODIES[lean_name]))
            return f"{len(d)} entries"
        bodies.setdefault(lean_name, None)
        A(f"body:{q}", whole)
    # helpers reached through dimensions_load only with a tomo_idx argument (never by flip_handedness): looked up so that the
    # framework's binding obligations (single definition, no re-binding, documented decorators) cover them too
    A("lookup:tlt_load,is_float", lambda: [src.find(IOREL, "tlt_load").name, src.find(IOREL, "is_float").name])

    def lst(xs):
        return core.lean_str_list(xs)

    def tuples(rows):
        return "[" + ", ".join("(" + ", ".join(core.lean_str(str(c)) if isinstance(c, str) else ("true" if c is True else "false" if c is False else str(c)) for c in r) + ")" for r in rows) + "]"

    def body_def(name):
        b = bodies[name]
        if b is None:
            return f"def {name} : List String := []"
        return f"def {name} : List String := [\n  " + ",\n  ".join(core.lean_str(l) for l in b) + "]"

    nl = "\n"
    return f"""-- GENERATED by harness/props/c05.py from {REL} and {IOREL}; do not edit
namespace CryoCat.Gen.C05
def anchorsOk : Bool := {"true" if src.ok else "false"}
/-- get_coordinates: the columns whose values are added -/
def coordColumns : List String := {lst(cs[0])}
def shiftColumns : List String := {lst(cs[1])}
/-- update_coordinates: (target, summand 1, summand 2, rounding mode) of the three roundings -/
def updateRounded : List (String × String × String × String) := {tuples(up[0])}
/-- update_coordinates: (target, summand 1, summand 2, subtracted new column, subtracted from the new row) -/
def updateResidual : List (String × String × String × String × Bool) := {tuples(up[1])}
def scaleCoords : List String := {lst(sc[0])}
def scaleShiftPrefix : String := {core.lean_str(sc[1][0])}
/-- (call site, sequence, unit) of every from_euler / as_euler call -/
def eulerCalls : List (String × String × String) := {tuples(eu)}
/-- angle columns at: apply_rotation read, apply_rotation write, get_angles (2 branches), shift_coords -/
def angleColumns : List (List String) := [{", ".join(lst(a) for a in ac)}]
/-- apply_rotation forms `from_euler(angles) * rotation` (true) or `rotation * from_euler(angles)` (false) -/
def rotationOnRight : Bool := {"true" if side else "false"}
/-- shift_coords: (shift column, component of orientations.apply(shift)) -/
def shiftTargets : List (String × Nat) := {tuples(st_)}
/-- flip_handedness: z_dim = dim_z + flipOffset -/
def flipOffset : Nat := {fl[0]}
def flipNegatesTheta : Bool := {"true" if fl[1] else "false"}
/-- number of branches with `z = z_dim - z` / with `shift_z = -shift_z` -/
def flipMirrorBranches : Nat := {fl[2]}
def flipShiftBranches : Nat := {fl[3]}
/-- number of `self.df["z"] = self.df["z"].astype(float)` statements placed before the mirror branches -/
def flipFloatCasts : Nat := {fl[4]}
/-- (function, parameter, default value as written; "" = no default) for every call the adapter makes -/
def signatures : List (String × String × String) := {tuples(sg)}
/-! whole function bodies: docstrings dropped, local names replaced by v0, v1, … in order of first binding -/
{nl.join(body_def(name) for name, _, _ in BODIES)}
end CryoCat.Gen.C05
"""


# ------------------------------------------------------------------ own rotation oracle (never scipy Euler code)
def _mm(a, b):
    return [[sum(a[i][k] * b[k][j] for k in range(3)) for j in range(3)] for i in range(3)]


def _mv(a, v):
    return [sum(a[i][k] * v[k] for k in range(3)) for i in range(3)]


def _rz(deg):
    t = math.radians(deg); c, s = math.cos(t), math.sin(t)
    return [[c, -s, 0.0], [s, c, 0.0], [0.0, 0.0, 1.0]]


def _rx(deg):
    t = math.radians(deg); c, s = math.cos(t), math.sin(t)
    return [[1.0, 0.0, 0.0], [0.0, c, -s], [0.0, s, c]]


def rot_zxz(phi, theta, psi):
    """scipy extrinsic 'zxz' of (phi, theta, psi) in degrees: Rz(psi) Rx(theta) Rz(phi), by elementary products"""
    return _mm(_rz(psi), _mm(_rx(theta), _rz(phi)))


MZ = [[1.0, 0.0, 0.0], [0.0, 1.0, 0.0], [0.0, 0.0, -1.0]]


def _maxdiff(a, b):
    return max(abs(a[i][j] - b[i][j]) for i in range(3) for j in range(3))


# ------------------------------------------------------------------ generators
GRID = 1024.0
TOMOS = [1.0, 2.0, 3.0, 7.0, 12.0]
INDEX_KINDS = ["default", "default", "permuted", "offset", "sparse", "dup"]
# scipy's as_euler declares gimbal lock for |theta| <= 1e-7 rad = 5.7e-6 degrees (and next to 180): both sides of that threshold
NEAR_GIMBAL = [1e-9, 1e-7, 3e-6, 5e-6, 1e-5, 180 - 4e-6, 180 + 3e-6, -3e-6, 180 - 1e-5]
INT_GROUPS = dict(xyz=["x", "y", "z"], shift=["shift_x", "shift_y", "shift_z"], angles=["phi", "theta", "psi"],
                  rest=["score", "geom1", "geom2", "subtomo_id", "tomo_id", "object_id", "subtomo_mean", "geom3", "geom4", "geom5", "class"])


def _dy(rng, lo, hi):
    return rng.randint(int(lo * GRID), int(hi * GRID)) / GRID


def _dec(rng, lo, hi):
    """a value as a user types or a program prints it: 1..3 decimals (off the dyadic grid, e.g. 101.3, 57.25, 12.345)"""
    return round(rng.uniform(lo, hi), rng.choice([1, 2, 2, 3]))


def _coord(rng, grid, whole=False):
    k = rng.random()
    if k < 0.55 or whole:
        return float(rng.randint(-60, 900))
    if k < 0.75 or grid:
        return _dy(rng, -50, 900)
    if k < 0.88:
        return _dec(rng, -50, 900)
    return rng.uniform(-50, 900)


def _nonint_coord(rng, grid):
    while True:
        v = _dy(rng, -50, 900) if (grid or rng.random() < 0.6) else rng.uniform(-50, 900)
        if v != math.floor(v):
            return v


def _shift_val(rng, grid, c, whole=False):
    k = rng.random()
    if whole:
        return 0.0 if k < 0.5 else float(rng.randint(-3, 3))
    if k < 0.15:
        return 0.0
    if k < 0.35:  # exact half-integer complete position (tie), both signs
        n = rng.randint(-4, 4)
        sv = (math.floor(c) - c) + n + 0.5
        return sv if c + sv == math.floor(c) + n + 0.5 else n + 0.5
    if k < 0.45:
        return float(rng.randint(-3, 3))
    if k < 0.75 or grid:
        return _dy(rng, -4, 4)
    if k < 0.88:
        return _dec(rng, -4, 4)
    return rng.gauss(0, 1.5)


def _angle(rng, kind, whole=False, near=False):
    k = rng.random()
    if whole:  # whole-number angles, as a STAR / CSV file with 0, 90, 45, 30 ... holds them
        return float(rng.choice([0, 0, 90, 180, -90, 45, 30, 60, 120, 270, -45, rng.randint(-180, 360)]))
    if kind == "theta" and (near or k > 0.97):
        return rng.choice(NEAR_GIMBAL)
    if 0.70 < k < 0.85:
        return _dec(rng, 0.0, 180.0) if kind == "theta" else _dec(rng, -180.0, 360.0)
    if kind == "theta":
        if k < 0.12:
            return rng.choice([0.0, 180.0])
        if k < 0.22:
            return rng.choice([90.0, -90.0, 45.0, 270.0, -180.0, 360.0])
        if k < 0.85:
            return rng.uniform(0.0, 180.0)
        return rng.uniform(-180.0, 360.0)
    if k < 0.12:
        return 0.0
    if k < 0.25:
        return rng.choice([90.0, -90.0, 180.0, 270.0, -180.0, 360.0, 450.0])
    if k < 0.85:
        return rng.uniform(-180.0, 180.0)
    return rng.uniform(-360.0, 720.0)


def _rows(rng, n, grid, id_base=0, whole=False, near=False):
    """n rows of 20 values in Motl.motl_columns order; subtomo ids are distinct (the harness follows a particle by its id)"""
    pool = rng.sample(TOMOS, rng.randint(1, 3))
    ids = list(range(1, n + 1)) if rng.random() < 0.5 else rng.sample(range(1, 4000), n)
    zero_shift_list = rng.random() < 0.1  # a freshly picked list: integer-or-not positions, all shifts zero
    rows = []
    for i in range(n):
        k = rng.random()
        if whole:
            c = [_coord(rng, grid, True) for _ in range(3)]
            s = [_shift_val(rng, grid, ci, True) for ci in c]
        elif k < 0.12 or (zero_shift_list and k < 0.6):  # no residual shift at all but non-integer coordinates
            c = [_nonint_coord(rng, grid) if rng.random() < 0.8 else _coord(rng, grid) for _ in range(3)]
            s = [0.0, 0.0, 0.0]
        elif zero_shift_list:
            c = [_coord(rng, grid) for _ in range(3)]
            s = [0.0, 0.0, 0.0]
        else:
            c = [_coord(rng, grid) for _ in range(3)]
            s = [_shift_val(rng, grid, ci) for ci in c]
        r = dict(score=rng.choice([0.125 * i, round(rng.random(), 4)]), geom1=float(rng.randint(0, 3)), geom2=float(rng.randint(-2, 2)),
                 subtomo_id=float(ids[i] + id_base), tomo_id=rng.choice(pool), object_id=float(rng.randint(1, 4)),
                 subtomo_mean=float(rng.randint(0, 1)), x=c[0], y=c[1], z=c[2], shift_x=s[0], shift_y=s[1], shift_z=s[2],
                 geom3=float(rng.randint(0, 5)), geom4=rng.choice([0.0, 1.5, -2.25]), geom5=float(rng.randint(0, 9)),
                 phi=_angle(rng, "phi", whole), psi=_angle(rng, "psi", whole), theta=_angle(rng, "theta", whole, near and rng.random() < 0.8))
        r["class"] = float(rng.randint(1, 3))
        rows.append([r[c_] for c_ in COLS])
    return rows


def _gen_Q(rng, near=False):
    k = rng.random()
    if near:  # keeps a near-gimbal particle near gimbal lock: identity or a rotation about z
        k = rng.choice([0.01, 0.35, 0.35, 0.9])
    if k < 0.08:
        ang = (0.0, 0.0, 0.0)
    elif k < 0.3:
        ang = tuple(rng.choice([0.0, 90.0, 180.0, -90.0]) for _ in range(3))
    elif k < 0.42:  # in-plane rotations of either sense
        ang = (rng.choice([-40.0, 240.0, 270.0, 120.0, -120.0, rng.uniform(-180, 180)]), 0.0, 0.0)
    elif k < 0.5:
        ang = (_dec(rng, -180, 180), _dec(rng, 0, 180), _dec(rng, -180, 180))
    else:
        ang = (rng.uniform(-180, 180), rng.uniform(0, 180), rng.uniform(-180, 180))
    q = rot_zxz(*ang)
    return dict(kind="rotate", q=[f2b(v) for r in q for v in r], angles=list(ang), kw=rng.random() < 0.3)


FORMS1 = ["list", "listint", "tuple", "tupleint", "array", "arrayint", "array2d", "df", "dfint", "file", "com"]
FORMSN = ["array", "arrayint", "list", "listint", "tuple", "df", "dfint", "file"]
INT_FORMS = ("listint", "tupleint", "arrayint", "dfint", "file", "com")  # forms that hold whole numbers only


def _gen_dims(rng, tomos, grid, halfint=False):
    k = rng.random()
    # dimensions are whole numbers of voxels; non-integer ones only where no text file / integer container is involved
    # (pandas' default float parser is not correctly rounded, which is no concern of this property)
    form1 = rng.choice(FORMS1)
    formN = rng.choice(FORMSN)
    if halfint:  # a mirror plane that is not a whole number (a binned tomogram): 50.5
        form1 = rng.choice(["list", "tuple", "array", "array2d", "df"])
        formN = rng.choice(["array", "list", "tuple", "df"])
    textual = lambda form: form in INT_FORMS
    def dimz(form):
        if halfint:
            return rng.randint(100, 2000) + 0.5
        if grid or textual(form) or rng.random() < 0.8:
            return float(rng.randint(100, 2000))
        return _dec(rng, 100, 2000) if rng.random() < 0.5 else rng.uniform(100, 2000)
    kw = rng.random() < 0.3
    if k < 0.4:
        return dict(kind="flip", dims=dict(single=f2b(dimz(form1))), form=form1, kw=kw)
    if k < 0.45:
        return dict(kind="flip", dims=None, form="none", omit=rng.random() < 0.5, kw=kw)
    if k < 0.48:  # a table of a shape dimensions_load documents it refuses (ValueError): neither 1 x 3 nor N x 4
        shape = rng.choice([(1, 2), (2, 3), (1, 5), (3, 5), (2, 2)])
        bad = [[f2b(float(rng.randint(1, 900))) for _ in range(shape[1])] for _ in range(shape[0])]
        return dict(kind="flip", dims=dict(bad=bad), form=rng.choice(["array", "list", "tuple", "df"]), kw=kw)
    present = list(tomos)
    if rng.random() < 0.08 and len(present) > 1:
        present = present[:-1]  # a tomogram without dimensions: outside the quantifier (model-only comparison)
    extra = [t for t in TOMOS + [20.0, 31.0] if t not in tomos]
    present += rng.sample(extra, rng.randint(0 if present else 1, 2))
    rng.shuffle(present)
    table = [[f2b(t), f2b(dimz(formN))] for t in present]
    if rng.random() < 0.2 and table:  # duplicate rows for a tomogram: the same z size (fine) or two different ones (ambiguous)
        t, z = rng.choice(table)
        dup = [t, z if rng.random() < 0.6 else f2b(dimz(formN))]
        table.insert(rng.randint(0, len(table)), dup)
    op = dict(kind="flip", dims=dict(table=table), form=formN, kw=kw)
    if len(table) == 1 and formN in ("array", "arrayint", "list", "listint", "tuple") and rng.random() < 0.5:
        op["flat"] = True  # one tomogram: the row given flat, [tomo_id, x, y, z]
    return op


def _gen_op(rng, tomos, grid, kinds, near=False, halfint=False):
    kind = rng.choice(kinds)
    if kind == "update":
        return dict(kind="update")
    if kind == "scale":
        if grid or rng.random() < 0.6:
            f = rng.choice([0.5, 2.0, 0.25, 4.0, 1.5, 0.75, 1.0, 3.0, 0.125, 1.25])
        elif rng.random() < 0.5:
            f = rng.choice([1.35, 0.66, 2.27, 0.8, 1.1, 3.3, 0.454, _dec(rng, 0.1, 5.0) or 0.1])  # pixel-size ratios as typed
        else:
            f = rng.uniform(0.1, 5.0)
        return dict(kind="scale", f=f2b(f), kw=rng.random() < 0.3)
    if kind == "shift":
        k = rng.random()
        if k < 0.08:
            v = [0.0, 0.0, 0.0]
        elif k < 0.5:
            v = [_dy(rng, -20, 20) for _ in range(3)]
        elif k < 0.65:
            v = [0.0, 0.0, 0.0]; v[rng.randrange(3)] = float(rng.randint(-10, 10))
        elif k < 0.8:
            v = [_dec(rng, -20, 20) for _ in range(3)]
        else:
            v = [rng.gauss(0, 8) for _ in range(3)]
        # inplace: "omit" = the keyword is left out (library default), True / False = passed explicitly
        return dict(kind="shift", v=[f2b(x) for x in v], inplace=rng.choice(["omit", "omit", True, False, False]),
                    form=rng.choice(["array", "array", "list", "tuple"] + (["listint", "tupleint", "arrayint"] if all(x == int(x) for x in v) else ["list"])), kw=rng.random() < 0.3)
    if kind == "rotate":
        return _gen_Q(rng, near and rng.random() < 0.7)
    return _gen_dims(rng, tomos, grid, halfint and rng.random() < 0.6)


def _combine(a, b):
    """the single operation the property says two successive ones amount to (None for flip,flip = nothing)"""
    if a["kind"] == "shift":
        va, vb = [b2f(x) for x in a["v"]], [b2f(x) for x in b["v"]]
        return dict(kind="shift", v=[f2b(x + y) for x, y in zip(va, vb)], inplace="omit", form="array")
    if a["kind"] == "rotate":
        qa = [[b2f(a["q"][3 * i + j]) for j in range(3)] for i in range(3)]
        qb = [[b2f(b["q"][3 * i + j]) for j in range(3)] for i in range(3)]
        return dict(kind="rotate", q=[f2b(v) for r in _mm(qa, qb) for v in r])
    return None


def _conj_op(o):
    """python mirror of Lean `conjOp`: the operation whose effect on the mirrored list is the mirror image of o's effect"""
    if o["kind"] == "shift":
        v = [b2f(x) for x in o["v"]]
        return dict(o, v=[f2b(v[0]), f2b(v[1]), f2b(-v[2])])
    if o["kind"] == "rotate":
        q = [[b2f(o["q"][3 * i + j]) for j in range(3)] for i in range(3)]
        return dict(kind="rotate", q=[f2b(v) for r in _mm(MZ, _mm(q, MZ)) for v in r], kw=o.get("kw", False))
    return o


def _push_flips(ops):
    """python mirror of Lean `pushFlips false`: flips removed, every other operation mirrored iff an odd number of flips precede it;
    returns (flip-free history, parity of the number of flips)"""
    par, out = False, []
    for o in ops:
        if o["kind"] == "flip":
            par = not par
        else:
            out.append(_conj_op(o) if par else o)
    return out, par


_POSE6 = ("x", "y", "z", "shift_x", "shift_y", "shift_z")
# the classes a user holds a particle list in: every subclass constructor accepts a frame in motl format (check_df_type) and
# inherits the six operations and the observers from Motl -- an override in a subclass is reachable only through that receiver
RECEIVERS = ["EmMotl", "RelionMotl", "StopgapMotl", "DynamoMotl", "ModMotl"]


def _col_order(rng):
    """a column order of the particle table other than Motl.motl_columns (Motl accepts the 20 columns in ANY order: check_df_correct_format
    compares the sorted names): [label, names]"""
    others = [c for c in COLS if c not in _POSE6]
    k = rng.choice(["interleaved", "zyx", "reversed", "sorted", "perm", "perm"])
    if k == "interleaved":  # assembled coordinate by coordinate: each position next to its residual shift
        order = ["tomo_id", "subtomo_id", "x", "shift_x", "y", "shift_y", "z", "shift_z"] + [c for c in others if c not in ("tomo_id", "subtomo_id")]
    elif k == "zyx":  # from a z, y, x (array index) ordered source
        order = others + ["z", "y", "x", "shift_z", "shift_y", "shift_x"]
    elif k == "reversed":
        order = list(reversed(COLS))
    elif k == "sorted":
        order = sorted(COLS)
    else:
        order = list(COLS)
        rng.shuffle(order)
    return [k, order]


def _tomos_of(rows):
    return sorted({r[TOMO] for r in rows})


def generate(rng, tier, n):
    for t in range(n):
        grid = rng.random() < 0.4
        nrows = rng.randint(1, 8) if tier != "thorough" or rng.random() < 0.9 else rng.randint(9, 40)
        if rng.random() < 0.015:
            nrows = 0  # the empty list is a particle list too
        # H3: a list as Starfile / CSV reading gives it: every column whose values are all whole numbers is int64 ("auto"); a share of
        # lists holds whole numbers only (picked positions, zero or whole shifts, angles 0 / 90 / 45 ...) with chosen column groups int64
        whole = rng.random() < 0.09
        near = (not grid) and (not whole) and rng.random() < 0.10  # particles next to gimbal lock (both sides of scipy's 1e-7 rad zone)
        intcols = None
        if whole:
            intcols = rng.choice([["auto"], ["angles"], ["xyz"], ["xyz", "shift"], ["xyz", "angles"], ["shift"], ["rest"], ["xyz", "shift", "angles", "rest"]])
        elif rng.random() < 0.15:
            intcols = ["auto"]
        rows = _rows(rng, nrows, grid, whole=whole, near=near)
        two = rng.random() < 0.15  # G2: a second list in the same process, sharing caller-owned arguments with the first
        rows2 = _rows(rng, rng.randint(1, 5), grid, id_base=5000, whole=whole and rng.random() < 0.5) if two else None
        tomos = sorted(set(_tomos_of(rows) + (_tomos_of(rows2) if two else [])))
        maxops = 6 if (tier != "thorough" or rng.random() < 0.85) else 30
        compose = (not two) and rng.random() < 0.4
        nops = rng.randint(0, maxops - 2) if compose else rng.randint(1, maxops)
        kinds = ["update", "scale", "flip", "rotate"] if grid else ["update", "scale", "shift", "rotate", "flip", "shift", "rotate", "flip"]
        if near:
            kinds = ["rotate", "rotate", "rotate", "shift", "flip", "update", "scale"]
        if whole:
            kinds = ["rotate", "flip", "flip", "shift", "update", "scale", "rotate"]
        G = lambda ks: _gen_op(rng, tomos, grid, ks, near, whole)
        ops = [G(kinds) for _ in range(nops)]
        if rng.random() < 0.08 and not grid:  # the history a freshly picked list really gets: scale by a non-integer factor, then update
            ops = [dict(kind="scale", f=f2b(rng.choice([1.5, 0.75, 1.25, 2.5]))), dict(kind="update")] + ops[:maxops - 2]
        nscale = 0
        for i, o in enumerate(ops):  # keep the grid cases exactly representable: at most two scalings
            if o["kind"] == "scale":
                nscale += 1
                if grid and nscale > 2:
                    ops[i] = dict(kind="update")
        case = dict(rows=[[f2b(v) for v in r] for r in rows], ops=ops, index=rng.choice(INDEX_KINDS),
                    reindex=rng.random() < 0.6, bytomo=rng.random() < 0.35)
        if intcols:
            case["intcols"] = intcols
        if rng.random() < 0.35:  # receiver-class stream: the list is held in a subclass of Motl (every operation and observer runs on it)
            case["cls"] = rng.choice(RECEIVERS)
        if rng.random() < 0.3:  # column-order stream: every operation meets a table whose 20 columns are not in the canonical order
            case["colorder"] = _col_order(rng)
            if two and rng.random() < 0.5:
                case["colorder2"] = _col_order(rng)
        if two:
            case["rows2"] = [[f2b(v) for v in r] for r in rows2]
            case["index2"] = rng.choice(INDEX_KINDS)
            for o in ops:
                o["on"] = rng.randint(0, 1)
        if (not two) and (not compose) and rng.random() < 0.09:
            # the composition law for histories with flips (Lean spec_history_flip_parity): a scale-free history whose flips all use the same
            # dimensions equals its flip-free mirrored normal form followed by ONE flip iff the number of flips is odd -- run both on the real code
            fl = None
            while fl is None or fl["dims"] is None or "bad" in fl["dims"]:
                fl = G(["flip"])
            body = [G(["update", "shift", "rotate", "shift", "rotate"]) for _ in range(rng.randint(1, 3))]
            nf = rng.randint(1, 3)
            hist = body + [copy.deepcopy(fl) for _ in range(nf)]
            rng.shuffle(hist)
            nf_, par = _push_flips(hist)
            case["ops"] = hist
            case["twin"] = dict(at=0, ops=nf_ + ([copy.deepcopy(fl)] if par else []), clause="history-flip-parity")
        if compose:  # a composition clause: (shift,shift) (rotate,rotate) (flip,flip) somewhere in the history
            kind = rng.choice(["flip", "rotate"] if grid else ["shift", "rotate", "flip"])
            a = G([kind])
            b = copy.deepcopy(a) if kind == "flip" else G([kind])
            if kind == "flip" and rng.random() < 0.6:  # the natural way to flip twice: the very same dimension object / file
                a["share"] = b["share"] = "twin"
            at = rng.randint(0, len(ops))
            c = _combine(a, b)
            case["ops"] = ops[:at] + [a, b] + ops[at:]
            case["twin"] = dict(at=at, ops=ops[:at] + ([c] if c else []) + ops[at:], clause=kind + "-" + kind)
        # G2: caller-owned argument objects used by several calls (same object, same file path; sometimes rewritten in between)
        if rng.random() < (0.6 if two else 0.3):
            ops_ = case["ops"]
            by_kind = {}
            for i, o in enumerate(ops_):
                if o["kind"] in ("shift", "rotate", "flip") and "share" not in o:
                    by_kind.setdefault(o["kind"], []).append(i)
            cands = [k for k, v in by_kind.items() if len(v) >= 1]
            if cands:
                k = rng.choice(cands)
                i = rng.choice(by_kind[k])
                src_op = ops_[i]
                src_op["share"] = "s0"
                twin_ok = "twin" not in case
                if twin_ok:  # add one more call with the same object (same content, or legitimately rewritten content)
                    o2 = copy.deepcopy(src_op)
                    if rng.random() < 0.4 and k != "rotate":
                        fresh = G([k])
                        if k == "shift":
                            o2["v"] = fresh["v"]
                        elif fresh["dims"] is not None and src_op["dims"] is not None and "bad" not in fresh["dims"] and "bad" not in src_op["dims"] and ("single" in fresh["dims"]) == ("single" in src_op["dims"]):
                            if not (src_op["form"] in INT_FORMS and any(b2f(z) != math.floor(b2f(z)) for z in ([fresh["dims"]["single"]] if "single" in fresh["dims"] else [r[1] for r in fresh["dims"]["table"]]))):
                                o2["dims"] = fresh["dims"]
                    if two:
                        o2["on"] = 1 - src_op.get("on", 0)
                    ops_.insert(rng.randint(i + 1, len(ops_)), o2)
        yield case


def shrink(case):
    case = _norm_case(case)
    rows, ops = case["rows"], case["ops"]
    base = {k: v for k, v in case.items() if k != "twin"}
    if "twin" in case:
        yield base
    if "rows2" in case:
        c = {k: v for k, v in base.items() if k not in ("rows2", "index2")}
        c["ops"] = [{k: v for k, v in o.items() if k != "on"} for o in ops if o.get("on", 0) == 0]
        yield c
        c = {k: v for k, v in base.items() if k not in ("rows2", "index2")}
        c["rows"] = case["rows2"]; c["index"] = case.get("index2", "default")
        c["ops"] = [{k: v for k, v in o.items() if k != "on"} for o in ops if o.get("on", 0) == 1]
        yield c
    if len(rows) > 1:  # rows are independent of the history (and of its twin)
        for i in range(len(rows)):
            yield dict(case, rows=rows[:i] + rows[i + 1:])
    if len(ops) > 1:
        for i in range(len(ops)):
            yield dict(base, ops=ops[:i] + ops[i + 1:])
    if case.get("cls"):
        yield {k: v for k, v in case.items() if k != "cls"}
    if case.get("colorder") or case.get("colorder2"):
        yield {k: v for k, v in case.items() if k not in ("colorder", "colorder2")}
    if case.get("intcols"):
        yield {k: v for k, v in case.items() if k != "intcols"}
        if case["intcols"] != ["auto"] and len(case["intcols"]) > 1:
            for g in case["intcols"]:
                yield dict(case, intcols=[g])
    if case.get("bytomo"):
        yield dict(case, bytomo=False)
    if case.get("reindex"):
        yield dict(case, reindex=False)
    if case.get("index", "default") != "default":
        yield dict(case, index="default")
    for i, o in enumerate(ops):
        for key in ("share", "kw", "omit"):
            if o.get(key):
                yield dict(base, ops=ops[:i] + [{k: v for k, v in o.items() if k != key}] + ops[i + 1:])
    # simpler numbers: integer coordinates, zero shifts, zero angles
    for i, r in enumerate(rows):
        vals = [b2f(b) for b in r]
        for j in POSE_IDX[:9]:
            simple = (float(round(vals[j])) if j in (X, Y, Z) else (0.0 if vals[j] != 0.0 else None))
            if simple is not None and simple != vals[j]:
                nr = list(r); nr[j] = f2b(simple)
                yield dict(case, rows=rows[:i] + [nr] + rows[i + 1:])


def sample_view(case):
    case = _norm_case(case)

    def opv(o):
        v = dict(kind=o["kind"])
        if "f" in o: v["f"] = b2f(o["f"])
        if "v" in o: v["v"] = [b2f(x) for x in o["v"]]
        if "q" in o: v["q"] = [round(b2f(x), 6) for x in o["q"]]
        if o["kind"] == "flip":
            d = o["dims"]
            v["dims"] = None if d is None else ({"single": b2f(d["single"])} if "single" in d else {"undocumented-shape": [[b2f(a) for a in r] for r in d["bad"]]} if "bad" in d else {"table": [[b2f(a), b2f(b)] for a, b in d["table"]]})
            v["form"] = o.get("form")
        for k in ("on", "share", "inplace", "kw", "omit", "flat"):
            if k in o: v[k] = o[k]
        return v
    return dict(rows=[[b2f(b) for b in r] for r in case["rows"]][:3], n_rows=len(case["rows"]), fields=COLS,
                n_rows2=len(case.get("rows2") or []), ops=[opv(o) for o in case["ops"]][:8], n_ops=len(case["ops"]),
                twin=case.get("twin", {}).get("clause"), index=case.get("index"), reindex=case.get("reindex"), bytomo=case.get("bytomo"),
                receiver_class=case.get("cls", "Motl"), integer_typed_columns=case.get("intcols"), column_order=(case.get("colorder") or ["motl_columns"])[0],
                columns=(case.get("colorder") or [None, None])[1])


def _norm_case(case):
    """cases stored before the hardening pass carry 10 values per row (x y z shifts phi theta psi tomo_id): complete them"""
    if case.get("rows") and len(case["rows"][0]) == 10:
        case = dict(case)
        rows = []
        for i, r in enumerate(case["rows"]):
            d = {c: f2b(0.0) for c in COLS}
            d.update(zip(FIELDS, r))
            d["subtomo_id"] = f2b(float(i + 1)); d["score"] = f2b(0.125 * i); d["object_id"] = f2b(1.0); d["class"] = f2b(1.0)
            rows.append([d[c] for c in COLS])
        case["rows"] = rows
        ops = []
        for o in case["ops"]:
            o = dict(o)
            if o["kind"] == "shift":
                if "form" not in o:
                    o["form"] = "list" if o.pop("as_list", False) else "array"
                if isinstance(o.get("inplace", True), bool) and o.get("inplace", True) is True:
                    o["inplace"] = "omit"
            ops.append(o)
        case["ops"] = ops
        if case.get("index") == "sparse":
            case["reindex"] = case.get("reindex", False)
        if "twin" in case:
            case["twin"] = dict(case["twin"], ops=[dict(o, inplace="omit") if o["kind"] == "shift" and o.get("inplace") is True else o for o in case["twin"]["ops"]])
    return case


# ------------------------------------------------------------------ implementation
def _dims_content(op):
    d = op["dims"]
    if d is None:
        return None
    if "single" in d:
        return [[512.0, 480.0, b2f(d["single"])]]
    if "bad" in d:
        return [[b2f(v) for v in r] for r in d["bad"]]
    return [[b2f(t), 512.0, 480.0, b2f(z)] for t, z in d["table"]]


def _raw_bits(op):
    """the table of the call as the caller gave it (bit patterns), for the model's own shape dispatch (Lean `loadDims`)"""
    tab = _dims_content(op)
    return None if tab is None else [[f2b(v) for v in r] for r in tab]


def _write_dims(path, tab, com):
    with open(path, "w") as f:
        if com:
            f.write("# Command file to run Tilt\n$tilt -StandardInput\nInputProjections ts.ali\nOutputFile ts.rec\n")
            f.write(f"FULLIMAGE {int(tab[0][0])} {int(tab[0][1])}\nTHICKNESS {int(tab[0][2])}\nRADIAL 0.35 0.035\n$if (-e ./savework) ./savework\n")
        else:
            for r in tab:
                f.write(" ".join(repr(v) for v in r) + "\n")


def _arg_snapshot(obj):
    """content of a caller-owned argument, for the before/after comparison (DataFrame: values and shape, not the labels)"""
    import numpy as np, pandas as pd
    from scipy.spatial.transform import Rotation
    if obj is None:
        return None
    if isinstance(obj, str):
        return ["file", open(obj, "rb").read().decode("latin1")]
    if isinstance(obj, pd.DataFrame):
        return ["df", list(obj.shape), [str(t) for t in obj.dtypes], [[f2b(float(v)) for v in r] for r in obj.to_numpy().tolist()]]
    if isinstance(obj, np.ndarray):
        return ["array", list(obj.shape), str(obj.dtype), [f2b(float(v)) for v in obj.ravel().tolist()]]
    if isinstance(obj, Rotation):
        return ["rotation", [f2b(float(v)) for v in obj.as_matrix().ravel().tolist()]]
    if isinstance(obj, (list, tuple)):
        a = np.asarray(obj, dtype=float)
        leaf = obj[0][0] if (len(obj) and isinstance(obj[0], (list, tuple)) and len(obj[0])) else (obj[0] if len(obj) else None)
        return [type(obj).__name__, list(a.shape), type(leaf).__name__, [f2b(float(v)) for v in a.ravel().tolist()]]
    return ["other", repr(obj)[:80]]


def _make_arg(op, idx, shared, td):
    """the argument object of the call; ops with the same `share` key get the SAME python object / file path (if the content
    differs the caller rewrites its own object / file in place before the call, which is legitimate)"""
    import numpy as np, pandas as pd, os
    from scipy.spatial.transform import Rotation
    k, key = op["kind"], op.get("share")
    have = shared.get(key) if key else None
    # what the CALLER last put into the shared object: when the next call wants the very same content the caller does nothing at all
    # (it does not "refresh" its object), so whatever an earlier call did to the object is what the next call sees
    wanted = ("shift", op["v"]) if k == "shift" else ("flip", _raw_bits(op)) if k == "flip" else None
    if have is not None and wanted is not None and shared.get(("content", key)) == wanted and not (k == "flip" and op.get("form") in ("file", "com")):
        return have
    if key and wanted is not None:
        shared[("content", key)] = wanted
    if k == "shift":
        v = [b2f(x) for x in op["v"]]
        form = op.get("form", "array")
        if isinstance(have, tuple) and list(have) == v:
            obj = have
        elif have is not None and not isinstance(have, tuple) and not (isinstance(have, np.ndarray) and have.dtype.kind in "iu" and any(x != int(x) for x in v)):
            keep_int = all(x == int(x) for x in v) and ((isinstance(have, np.ndarray) and have.dtype.kind in "iu") or (isinstance(have, list) and have and all(isinstance(x, int) for x in have)))
            have[:] = [int(x) for x in v] if keep_int else v  # the caller rewrites its own array / list in place
            obj = have
        else:
            ints = [int(x) for x in v] if all(x == int(x) for x in v) else None  # "…int" forms: python / numpy INTEGERS, as a user types [0, 0, 3]
            if form == "array":
                obj = np.array(v)
            elif form == "arrayint" and ints is not None:
                obj = np.array(ints)
            elif form == "listint" and ints is not None:
                obj = list(ints)
            elif form == "tupleint" and ints is not None:
                obj = tuple(ints)
            elif form in ("list", "listint"):
                obj = list(v)
            else:
                obj = tuple(v)
    elif k == "rotate":
        obj = have if have is not None else Rotation.from_matrix(np.array([b2f(x) for x in op["q"]]).reshape(3, 3))
    elif k == "flip":
        tab, form = _dims_content(op), op.get("form", "array")
        if tab is None:
            obj = None
        else:
            flat = len(tab) == 1 and ("single" in op["dims"] or bool(op.get("flat")) or ("bad" in op["dims"] and form != "df"))
            whole = all(v == int(v) for r in tab for v in r)
            num = (lambda v: int(v)) if (form in ("listint", "tupleint", "arrayint", "dfint") and whole) else (lambda v: v)
            nested = [[num(v) for v in r] for r in tab]
            if form in ("file", "com"):
                obj = have if isinstance(have, str) else os.path.join(td, f"dims_{key or idx}" + (".com" if form == "com" else ".txt"))
                _write_dims(obj, tab, form == "com")
            elif isinstance(have, pd.DataFrame) and have.shape == (len(tab), len(tab[0])):
                have.iloc[:, :] = np.array(nested, dtype=have.to_numpy().dtype)
                obj = have
            elif isinstance(have, np.ndarray) and have.size == len(tab) * len(tab[0]) and (have.ndim == 1) == flat:
                have[...] = np.array(nested).reshape(have.shape)
                obj = have
            elif isinstance(have, list) and (flat == (not (have and isinstance(have[0], list)))):
                have[:] = nested[0] if flat else nested  # the caller rewrites its own list in place
                obj = have
            elif isinstance(have, tuple) and np.asarray(have, dtype=float).tolist() == (tab[0] if flat else tab):
                obj = have  # an unchanged tuple is the same object; a changed one is necessarily a new one
            elif form in ("list", "listint"):
                obj = list(nested[0]) if flat else nested
            elif form in ("tuple", "tupleint"):
                obj = tuple(nested[0]) if flat else tuple(tuple(r) for r in nested)
            elif form in ("df", "dfint"):
                obj = pd.DataFrame(nested)
            elif form == "array2d":
                obj = np.array(nested)
            else:  # array / arrayint
                obj = np.array(nested[0]) if flat else np.array(nested)
    else:
        obj = None
    if key and obj is not None:
        shared[key] = obj
    return obj


def _cell(v):
    import numpy as np
    if isinstance(v, (bool, np.bool_)):
        return {"t": repr(v), "k": "bool"}
    if isinstance(v, (int, np.integer)):
        return f2b(float(v)) if abs(int(v)) < 2 ** 53 else {"t": repr(v), "k": "bigint"}
    if isinstance(v, (float, np.floating)):
        return f2b(float(v))
    return {"t": repr(v)[:60], "k": type(v).__name__}


def _arr(a):
    import numpy as np
    a = np.asarray(a)
    out = dict(dtype=str(a.dtype), shape=list(a.shape))
    out["v"] = [[_cell(v) for v in r] for r in a.tolist()] if a.ndim == 2 else [[_cell(v) for v in a.ravel().tolist()]]
    return out


def _snap(m, tomos, bytomo):
    """what the library holds / reports, with its types: column names and dtypes, every cell of the 20 fields (numbers as bit
    patterns, anything else as text), get_coordinates() / get_angles() with their dtype, optionally per tomogram"""
    df = m.df
    cols = [str(c) for c in df.columns]
    out = dict(cols=cols if cols != COLS else "motl_columns", dtypes=[str(t) for t in df.dtypes])
    if not all(c in cols for c in COLS) or len(set(cols)) != len(cols):
        out["bad"] = True
        return out
    out["cells"] = [[_cell(v) for v in r] for r in df[COLS].itertuples(index=False, name=None)]

    def observer(fn):  # an observer that raises is an observation too (the table itself is still recorded above)
        try:
            return _arr(fn())
        except Exception as e:
            where, inside = _where(e)
            return dict(raised=f"{type(e).__name__}: {str(e)[:200]}", where=where, in_cryocat=inside, dtype="?", shape=[], v=[])

    out["coords"] = observer(lambda: m.get_coordinates())
    out["angles"] = observer(lambda: m.get_angles(tomo_number=None))
    if bytomo and len(df) > 0 and "raised" not in out["coords"] and "raised" not in out["angles"]:
        out["bytomo"] = [dict(t=f2b(t), coords=observer(lambda: m.get_coordinates(t)), angles=observer(lambda: m.get_angles(tomo_number=t))) for t in tomos]
        try:
            rots = m.get_rotations()
            out["rots"] = [[f2b(float(v)) for v in r] for r in rots.as_matrix().reshape(-1, 9).tolist()]
        except Exception:
            pass
    return out


def _index_labels(kind, n):
    if kind == "permuted":
        return [(5 * i + 3) % n for i in range(n)] if n % 5 else [(3 * i + 1) % n for i in range(n)] if n % 3 else list(reversed(range(n)))
    if kind == "offset":
        return [10 + i for i in range(n)]
    if kind == "sparse":
        return [3 * i + 2 for i in reversed(range(n))]
    if kind == "dup":  # two tables concatenated without ignore_index: every label twice (Motl(df) keeps them)
        return [i % ((n + 1) // 2) for i in range(n)]
    return None


def _build(rows, index, intcols=None, colorder=None, cls=None):
    import pandas as pd
    from cryocat import cryomotl
    data = {c: [b2f(r[j]) for r in rows] for j, c in enumerate(COLS)}
    df = pd.DataFrame(data, columns=COLS, dtype=float)
    # H3: integer-typed columns, as reading a STAR / CSV file with whole-number values produces them ("auto": every all-whole column)
    want = set()
    for g in intcols or []:
        want.update(COLS if g == "auto" else INT_GROUPS.get(g, []))
    for c in COLS:
        if c in want and len(df) and all(v == math.floor(v) and abs(v) < 2 ** 53 for v in data[c]):
            df[c] = df[c].astype("int64")
    if colorder and sorted(colorder[1]) == sorted(COLS):
        df = df[list(colorder[1])].copy()  # the same 20 columns, stored in another order
    lab = _index_labels(index, len(rows))
    if lab is not None:
        df.index = lab
    if cls in RECEIVERS:
        m = getattr(cryomotl, cls)(df)  # the subclass constructors copy the frame and reset its row labels (check_df_type) ...
        if lab is not None:
            m.df.index = lab            # ... so the caller re-labels its own table afterwards, as `reindex` does before every operation
        return m
    return cryomotl.Motl(df)


def _where(e):
    import traceback, os
    tb = traceback.extract_tb(e.__traceback__)
    frames = [fr for fr in tb if "/cryocat/" in fr.filename.replace("\\", "/")]
    return (f"{os.path.basename(frames[-1].filename)}:{frames[-1].lineno}" if frames else ""), bool(frames)


def _load_obs(arg):
    """the top-level entry point `ioutils.dimensions_load` on the very argument of the flip call: shape, column labels and
    values of what it returns, or the TYPE of what it raises"""
    from cryocat import ioutils
    try:
        d = ioutils.dimensions_load(arg)
        return dict(shape=list(d.shape), cols=[str(c) for c in d.columns], v=[[_cell(v) for v in r] for r in d.to_numpy().tolist()])
    except Exception as e:
        where, inside = _where(e)
        return dict(raised=type(e).__name__, error=f"{type(e).__name__}: {str(e)[:200]}", where=where, in_cryocat=inside)


def _run_history(case, ops, td):
    import numpy as np, warnings
    from cryocat import cryomotl
    lists = [case["rows"]] + ([case["rows2"]] if case.get("rows2") else [])
    kinds = [case.get("index", "default"), case.get("index2", "default")]
    tomos = [sorted({b2f(r[TOMO]) for r in rows}) for rows in lists]
    ms = [_build(rows, kinds[j], case.get("intcols"), case.get("colorder2" if j == 1 and case.get("colorder2") else "colorder"), case.get("cls")) for j, rows in enumerate(lists)]
    bytomo = bool(case.get("bytomo"))
    snap_all = lambda: [_snap(m, tomos[j], bytomo) for j, m in enumerate(ms)]
    shared, steps = {}, []
    out = dict(initial=snap_all(), steps=steps, motl_columns_ok=(list(cryomotl.Motl.motl_columns) == COLS))
    with warnings.catch_warnings():
        warnings.simplefilter("ignore")
        for i, op in enumerate(ops):
            k, L = op["kind"], op.get("on", 0)
            if case.get("reindex"):  # the caller re-labels its own table: every operation meets the non-default index
                for j, m in enumerate(ms):
                    lab = _index_labels(kinds[j], len(m.df))
                    if lab is not None and len(m.df) == len(lists[j]):
                        m.df.index = lab
            rec = dict(before=snap_all())
            steps.append(rec)
            try:
                arg = _make_arg(op, i, shared, td)
                a0 = _arg_snapshot(arg)
                m, old = ms[L], None
                kw = bool(op.get("kw"))
                if k == "update":
                    m.update_coordinates()
                elif k == "scale":
                    m.scale_coordinates(scaling_factor=b2f(op["f"])) if kw else m.scale_coordinates(b2f(op["f"]))
                elif k == "shift":
                    ip = op.get("inplace", "omit")
                    args, kwargs = ((), dict(shift=arg)) if kw else ((arg,), {})
                    if ip != "omit":
                        kwargs["inplace"] = bool(ip)
                    ret = m.shift_positions(*args, **kwargs)
                    if ip is False:
                        old, ms[L] = m, ret
                        rec["original_after"] = _snap(old, tomos[L], False)
                    elif ret is not None:
                        rec["returned"] = type(ret).__name__
                elif k == "rotate":
                    m.apply_rotation(rotation=arg) if kw else m.apply_rotation(arg)
                elif k == "flip":
                    if arg is None and op.get("omit"):
                        m.flip_handedness()
                    elif kw:
                        m.flip_handedness(tomo_dimensions=arg)
                    else:
                        m.flip_handedness(arg)
                else:
                    raise ValueError("unknown op " + k)
                a1 = _arg_snapshot(arg)
                if a0 != a1:
                    rec["arg_changed"] = dict(before=a0, after=a1)
                rec["after"] = snap_all()
                if k == "flip" and arg is not None:
                    rec["dims_loaded"] = _load_obs(arg)
            except Exception as e:
                where, inside = _where(e)
                rec["raised"] = dict(error=f"{type(e).__name__}: {str(e)[:300]}", where=where, in_cryocat=inside, type=type(e).__name__)
                if k == "flip" and op.get("dims") is not None:
                    try:
                        rec["dims_loaded"] = _load_obs(_make_arg(op, i, shared, td))
                    except Exception:
                        pass
                break
    return out


def run_impl(case):
    import tempfile
    case = _norm_case(case)
    with tempfile.TemporaryDirectory(prefix="c05_") as td:
        out = _run_history(case, case["ops"], td)
        if "twin" in case:
            tw = _run_history(dict(case, bytomo=False), case["twin"]["ops"], td)
            if tw["steps"] and "raised" in tw["steps"][-1]:
                out["twin_raised"] = tw["steps"][-1]["raised"]
            else:
                out["twin_final"] = (tw["steps"][-1]["after"] if tw["steps"] else tw["initial"])[0]
    return out


# ------------------------------------------------------------------ requests to the Lean driver
def _wire_op(o):
    w = {k: o[k] for k in ("kind", "f", "v", "q") if k in o}
    if o["kind"] == "flip":  # the raw table: the Lean model does the shape dispatch of dimensions_load itself (`loadDims`)
        w["raw"] = _raw_bits(o)
    return w


def _fr(b):
    return Fraction(b2f(b))


def _exact(x):
    """is the rational x a binary64 value?"""
    try:
        return Fraction(float(x)) == x
    except OverflowError:
        return False


def _spec_dz(op, tomo_bits):
    """the z size the STATEMENT uses for a particle of this tomogram (python mirror of Lean `specDim`): None when no dimensions
    are given, the table has no row for the tomogram, or its rows for it disagree -> the call is outside the quantifier"""
    d = op["dims"]
    if d is None or "bad" in d:
        return None
    if "single" in d:
        return d["single"]
    zs = [z for t, z in d["table"] if b2f(t) == b2f(tomo_bits)]
    if not zs or any(b2f(z) != b2f(zs[0]) for z in zs):
        return None
    return zs[0]


def _usable(S):
    """every cell is a number and every pose field is finite (so that the state can be sent to the model)"""
    if S.get("bad"):
        return False
    for r in S["cells"]:
        if any(isinstance(c, dict) for c in r):
            return False
        if any(not math.isfinite(b2f(r[j])) for j in POSE_IDX):
            return False
    for name in ("coords", "angles"):
        if "raised" in S[name] or any(isinstance(c, dict) or not math.isfinite(b2f(c)) for r in S[name]["v"] for c in r):
            return False
    return True


def _p10(r):
    """x y z shift_x shift_y shift_z phi theta psi tomo_id of a 20-cell row"""
    return [r[j] for j in POSE_IDX]


def _step_exact(op, before, after):
    """every intermediate of this step (and the complete positions before and after) is exactly representable,
    so float arithmetic = rational arithmetic and the exact Lean checker applies"""
    k = op["kind"]
    if k not in ("update", "scale", "flip") or len(before["cells"]) != len(after["cells"]):
        return False
    for rb20, ra20 in zip(before["cells"], after["cells"]):
        rb, ra = _p10(rb20), _p10(ra20)
        for j in range(3):
            x, s = _fr(rb[j]), _fr(rb[j + 3])
            if not _exact(x + s) or not _exact(_fr(ra[j]) + _fr(ra[j + 3])):
                return False
            if k == "scale":
                f = _fr(op["f"])
                if not (_exact(x * f) and _exact(s * f) and _exact((x + s) * f)):
                    return False
        if k == "flip":
            dz = _spec_dz(op, rb[9])
            if dz is not None and not (_exact(_fr(dz) + 1) and _exact(_fr(dz) + 1 - _fr(rb[2])) and _exact(_fr(dz) + 1 - _fr(rb[2]) - _fr(rb[5]))):
                return False
    return True


def _plan(case, obs):
    """which driver requests are made for this observation: per executed step whose before/after states of the target list
    are usable a `step` (+ `check` when exact); per list whose whole history is usable a `history`"""
    plan = []
    nl = 2 if case.get("rows2") else 1
    ok = [True] * nl
    for i, rec in enumerate(obs["steps"]):
        op = case["ops"][i]
        L = op.get("on", 0)
        if "dims_loaded" in rec:
            plan.append(("loaddims", i, L))
        if "after" not in rec:
            ok = [False] * nl
            break
        B, A = rec["before"][L], rec["after"][L]
        if not (ok[L] and _usable(B) and _usable(A) and len(B["cells"]) == len(A["cells"])):
            ok[L] = False
            continue
        plan.append(("step", i, L))
        if _step_exact(op, B, A):
            plan.append(("check", i, L))
    for L in range(nl):
        if ok[L] and len(obs["steps"]) == len(case["ops"]) and _usable(obs["initial"][L]):
            plan.append(("history", None, L))
            if L == 0 and case.get("twin", {}).get("clause") == "history-flip-parity":
                plan.append(("history_twin", None, 0))  # the statement folded over the NORMAL FORM, evaluated by Lean too
    return plan


def requests(case, obs):
    case = _norm_case(case)
    if "error" in obs:
        return []
    reqs = []
    for what, i, L in _plan(case, obs):
        if what == "history_twin":
            reqs.append(dict(op="history", rows=case["rows"], ops=[_wire_op(o) for o in case["twin"]["ops"]]))
        elif what == "history":
            rows = case["rows2"] if L == 1 else case["rows"]
            reqs.append(dict(op="history", rows=rows, ops=[_wire_op(o) for o in case["ops"] if o.get("on", 0) == L]))
        else:
            rec, op = obs["steps"][i], case["ops"][i]
            if what == "loaddims":
                reqs.append(dict(op="loaddims", raw=_raw_bits(op)))
            elif what == "step":
                reqs.append(dict(op="step", rows=rec["before"][L]["cells"], **_wire_op(op)))
            else:
                reqs.append(dict(op="check", before=rec["before"][L]["cells"], after=rec["after"][L]["cells"], **_wire_op(op)))
    return reqs


# ------------------------------------------------------------------ judge
def _vals(rows):
    return [[b2f(b) for b in r] for r in rows]


def _R(angles_row):
    return rot_zxz(angles_row[0], angles_row[1], angles_row[2])


def _pose_of_wire(p):
    v = [b2f(b) for b in p]
    return v[:3], [v[3:6], v[6:9], v[9:12]]


def _close(a, b, scale):
    return abs(a - b) <= TOL * (1.0 + scale)


def _gimbal_allow(M):
    """H4: allowance for an orientation matrix rebuilt from the Euler triple `as_euler` returned for the matrix M. scipy declares
    gimbal lock when theta is within 1e-7 rad of 0 or pi; it then sets the third angle to 0 and keeps theta, so the returned
    triple reproduces M only up to the off-pole part it dropped: measured max |dev| = 2.00 * sin(theta) on 2000 orientations for
    each theta in {1e-9 .. 5.7e-6 degrees, 180 -+ 4e-6}, and 1e-15 just outside the zone (5.8e-6 degrees). This is the
    representation limit of scipy's Euler triples next to the pole (at most 2e-7), not a statement about cryoCAT: allowance
    3 sin(theta) while sin(theta) <= 1.5e-7 (margin for the zone test itself), nothing outside; sin(theta) = |(M13, M23)|."""
    st = math.hypot(M[0][2], M[1][2])
    return 3.0 * st + 1e-12 if st <= 1.5e-7 else 0.0


def _judge_loaddims(tag, op, rec, resp):
    """dimensions_load called directly on the argument of the flip vs. the Lean shape dispatch `loadDims` (kind corr), and the
    documented refusal: a table that is neither 1 x 3 nor N x 4 raises ValueError (classified by exception TYPE, H1)"""
    out = []
    got = rec["dims_loaded"]
    if "error" in resp or "ok" not in resp:
        return [dict(kind="corr", clause="model-error", detail=f"{tag}: loaddims {resp}")]
    if "raised" in got:
        if not got["in_cryocat"]:
            return [dict(kind="corr", clause="harness-or-library-raised", detail=f"{tag}: dimensions_load: {got['error']} (no frame inside cryocat)")]
        if resp["ok"]:
            inside = "bad" not in op["dims"]
            return [dict(kind="spec" if inside else "corr", clause="dimensions-load-raises" if inside else "dimensions-load-vs-model",
                         detail=f"{tag}: dimensions_load raised {got['error']} @{got['where']} for a {op.get('form')} of shape {len(_dims_content(op))}x{len(_dims_content(op)[0])} (documented: 1x3 or Nx4 array-like / DataFrame / file)")]
        if got["raised"] != "ValueError":
            out.append(dict(kind="corr", clause="refusal-type-differs-from-documented", detail=f"{tag}: a table of undocumented shape is refused with {got['raised']} (documented: ValueError)"))
        return out
    if not resp["ok"]:
        return [dict(kind="corr", clause="dimensions-load-vs-model", detail=f"{tag}: dimensions_load accepted a table of shape {got['shape']} that the model (documented shapes 1x3 / Nx4) refuses")]
    d = resp["dims"]
    cells = got["v"]
    if any(isinstance(c, dict) for r in cells for c in r):
        return [dict(kind="corr", clause="dimensions-load-vs-model", detail=f"{tag}: non-numeric cells {cells}")]
    if d["kind"] == "single":
        ok = got["shape"] == [1, 3] and got["cols"] == ["x", "y", "z"] and b2f(cells[0][2]) == b2f(d["z"])
    else:
        ok = got["shape"][1:] == [4] and got["cols"] == ["tomo_id", "x", "y", "z"] and [[b2f(r[0]), b2f(r[3])] for r in cells] == [[b2f(t), b2f(z)] for t, z in d["rows"]]
    if not ok:
        out.append(dict(kind="corr", clause="dimensions-load-vs-model", detail=f"{tag}: dimensions_load gives shape {got['shape']} columns {got['cols']} values {_vals(cells)}; model {d['kind']} {d.get('z') and b2f(d['z'])} {[[b2f(t), b2f(z)] for t, z in d.get('rows', [])]}"))
    return out


def _state_findings(S, tag, case, L):
    """findings about one snapshot on its own: columns, text cells (G3), non-finite pose fields, observables = table"""
    out = []
    if S.get("bad"):
        return [dict(kind="corr", clause="table-columns-changed", detail=f"{tag}: columns {S['cols']}")]
    for p, r in enumerate(S["cells"]):
        for j, c in enumerate(r):
            if isinstance(c, dict):
                out.append(dict(kind="spec", clause="numeric-field-came-back-as-text", detail=f"{tag} particle {p}: field {COLS[j]} is {c['t']} ({c['k']}); column dtypes {dict(zip(COLS, S['dtypes']))[COLS[j]] if len(S['dtypes']) == 20 else S['dtypes']}"))
            elif j in POSE_IDX and not math.isfinite(b2f(c)):
                out.append(dict(kind="spec", clause="non-finite-pose-field", detail=f"{tag} particle {p}: field {COLS[j]} = {b2f(c)}"))
    for name in ("coords", "angles"):
        o = S[name]
        if "raised" in o:
            out.append(dict(kind="spec" if o["in_cryocat"] else "corr", clause="observer-raises" if o["in_cryocat"] else "harness-or-library-raised",
                            detail=f"{tag}: get_{'coordinates' if name == 'coords' else 'angles'}() raised {o['raised']} @{o['where']}; column dtypes {S['dtypes']}"))
        elif any(isinstance(c, dict) for r in o["v"] for c in r) or o["dtype"] == "object":
            out.append(dict(kind="spec", clause="numeric-field-came-back-as-text", detail=f"{tag}: get_{'coordinates' if name == 'coords' else 'angles'}() has dtype {o['dtype']}"))
    if out:
        return out
    n = len(S["cells"])
    rows = _vals(S["cells"])
    co, an = _vals(S["coords"]["v"]), _vals(S["angles"]["v"])
    if n and (len(co) != n or len(an) != n or any(len(r) != 3 for r in co + an)):
        return [dict(kind="spec", clause="complete-position-is-x-plus-shift", detail=f"{tag}: get_coordinates shape {S['coords']['shape']}, get_angles shape {S['angles']['shape']} for {n} particles")]
    for p in range(n):
        r = rows[p]
        want = [r[X] + r[SX], r[Y] + r[SY], r[Z] + r[SZ]]
        if co[p] != want or an[p] != [r[PHI], r[THETA], r[PSI]]:
            out.append(dict(kind="spec", clause="complete-position-is-x-plus-shift", detail=f"{tag} particle {p}: get_coordinates {co[p]} vs x+shift {want}; get_angles {an[p]} vs phi,theta,psi {[r[PHI], r[THETA], r[PSI]]}"))
    for bt in S.get("bytomo", []):
        t = b2f(bt["t"])
        sel = [r for r in rows if r[TOMO] == t]
        want_c = [[r[X] + r[SX], r[Y] + r[SY], r[Z] + r[SZ]] for r in sel]
        want_a = [[r[PHI], r[THETA], r[PSI]] for r in sel]
        got_c, got_a = bt["coords"]["v"], bt["angles"]["v"]
        if "raised" in bt["coords"] or "raised" in bt["angles"]:
            o = bt["coords"] if "raised" in bt["coords"] else bt["angles"]
            out.append(dict(kind="spec" if o["in_cryocat"] else "corr", clause="observer-raises" if o["in_cryocat"] else "harness-or-library-raised", detail=f"{tag}: get_coordinates({t}) / get_angles({t}) raised {o['raised']} @{o['where']}"))
            continue
        bad_cell = any(isinstance(c, dict) for r in got_c + got_a for c in r)
        if bad_cell or (sel and (_vals(got_c) != want_c or _vals(got_a) != want_a)):
            out.append(dict(kind="spec", clause="complete-position-is-x-plus-shift", detail=f"{tag}: get_coordinates({t}) / get_angles({t}) = {got_c if bad_cell else _vals(got_c)} / {got_a if bad_cell else _vals(got_a)}; the table gives {want_c} / {want_a}"))
    if "rots" in S:
        for p in range(n):
            got = [[b2f(S["rots"][p][3 * a + b]) for b in range(3)] for a in range(3)]
            if _maxdiff(got, _R([rows[p][PHI], rows[p][THETA], rows[p][PSI]])) > TOL:
                out.append(dict(kind="corr", clause="get_rotations-vs-elementary-rotations", detail=f"{tag} particle {p}: get_rotations() differs from Rz(psi)Rx(theta)Rz(phi) by {_maxdiff(got, _R([rows[p][PHI], rows[p][THETA], rows[p][PSI]])):.3g}"))
    return out


def _arg_view(a):
    """readable form of an `_arg_snapshot` (bit patterns decoded)"""
    def dec(x):
        if isinstance(x, list):
            return [dec(y) for y in x]
        return b2f(x) if isinstance(x, int) and not isinstance(x, bool) else x
    if not a:
        return a
    if a[0] == "file":
        return f"file {a[1]!r}"
    if a[0] == "df":
        return f"DataFrame{tuple(a[1])} {dec(a[3])}"
    if a[0] == "array":
        return f"ndarray{tuple(a[1])} {a[2]} {dec(a[3])}"
    return f"{a[0]} {dec(a[1])}"


def _same_state(S1, S2):
    return S1.get("cells") == S2.get("cells") and S1.get("cols") == S2.get("cols")


def judge(case, obs, resps):
    case = _norm_case(case)
    out = []
    if "error" in obs:  # raised outside the per-operation guard (building the list, first snapshot)
        inside = bool(obs.get("where"))
        return [dict(kind="spec" if inside else "corr", clause="raises" if inside else "harness-or-library-raised", detail=obs["error"] + " @" + obs.get("where", ""))]
    if not obs.get("motl_columns_ok", True):
        out.append(dict(kind="corr", clause="motl-columns-differ-from-the-model", detail="Motl.motl_columns is not the documented 20-field order"))
    plan = _plan(case, obs)
    rmap = {(w, i, L): r for (w, i, L), r in zip(plan, resps)}
    nl = 2 if case.get("rows2") else 1
    dev = dict(pos=0.0, R=0.0, resid=0.0)
    flags = dict(angle_bits_changed=0, strict_flip_only_pos=0, dtypes=set(), refused=0, gimbal_zone=0)
    acc = [0.0] * nl       # accumulated near-gimbal allowance of the apply_rotation calls so far, per list (see _gimbal_allow)
    smax = [0.0] * nl      # accumulated length of the shift vectors, per list (a later shift turns an orientation error into a position error)
    alive = [True] * nl
    for L in range(nl):
        f = _state_findings(obs["initial"][L], f"initial list {L}", case, L)
        if f:  # the harness's own input came back wrong from the constructor / observers
            out += [dict(g, kind="corr") if g["clause"] != "complete-position-is-x-plus-shift" else g for g in f]
            alive[L] = alive[L] and _usable(obs["initial"][L])
    prev = list(obs["initial"])
    for i, rec in enumerate(obs["steps"]):
        op = case["ops"][i]
        k, L = op["kind"], op.get("on", 0)
        tag = f"op {i} ({k}" + (f" on list {L})" if nl > 1 else ")")
        # G2: nothing may have changed since the previous call returned
        for j in range(nl):
            if alive[j] and not _same_state(prev[j], rec["before"][j]):
                out.append(dict(kind="corr", clause="list-changed-between-operations", detail=f"{tag}: list {j} differs from what the previous call left: {_vals(prev[j].get('cells', []))[:2]} -> {_vals(rec['before'][j].get('cells', []))[:2]}"))
        if "dims_loaded" in rec and ("loaddims", i, L) in rmap:
            out += _judge_loaddims(tag, op, rec, rmap[("loaddims", i, L)])
        if k == "flip" and op.get("dims") and "bad" in op["dims"]:
            # documented refusal (dimensions_load: "ValueError if the dimensions do not conform to the expected shapes of 1x3 or Nx4"):
            # judged by exception TYPE and the violated precondition, never by the message text
            if "raised" not in rec:
                out.append(dict(kind="corr", clause="undocumented-shape-accepted", detail=f"{tag}: flip_handedness accepted a dimension table of shape {len(op['dims']['bad'])}x{len(op['dims']['bad'][0])}"))
            elif not rec["raised"]["in_cryocat"]:
                out.append(dict(kind="corr", clause="harness-or-library-raised", detail=f"{tag}: {rec['raised']['error']} (no frame inside cryocat)"))
            elif rec["raised"].get("type") != "ValueError":
                out.append(dict(kind="corr", clause="refusal-type-differs-from-documented", detail=f"{tag}: refused with {rec['raised']['error']} (documented: ValueError)"))
            flags["refused"] += 1
            break
        if "raised" in rec:
            r = rec["raised"]
            outside = k == "flip" and all(_spec_dz(op, row[TOMO]) is None for row in rec["before"][L].get("cells", []))
            if not r["in_cryocat"]:
                out.append(dict(kind="corr", clause="harness-or-library-raised", detail=f"{tag}: {r['error']} (no frame inside cryocat)"))
            elif outside:
                out.append(dict(kind="corr", clause="raises-outside-the-quantifier", detail=f"{tag}: {r['error']} @{r['where']}"))
            else:
                out.append(dict(kind="spec", clause="raises", detail=f"{tag}: {r['error']} @{r['where']}"))
            break
        B, A = rec["before"][L], rec["after"][L]
        prev = list(rec["after"])
        for j in range(nl):  # an operation on one list must leave the other list alone
            if j != L and alive[j] and not _same_state(rec["before"][j], rec["after"][j]):
                out.append(dict(kind="corr", clause="operation-changed-another-list", detail=f"{tag}: list {j} changed"))
        if "arg_changed" in rec:
            out.append(dict(kind="corr", clause="caller-owned-argument-modified", detail=f"{tag}: the caller's argument object was {_arg_view(rec['arg_changed']['before'])} before the call and {_arg_view(rec['arg_changed']['after'])} after it"))
        # spec: the docstring of shift_positions demands it ("inplace: whether to return a NEW INSTANCE of the motl with shifted coordinates (False)
        # or perform the shift on `df` directly (True)": with False the shift is not performed on the receiver's df); the caller's ARGUMENT objects
        # and the other lists of the process are nowhere mentioned by the statement or the docstrings: those clauses are corr
        if "original_after" in rec and not _same_state(rec["original_after"], B):
            out.append(dict(kind="spec", clause="inplace-false-modified-the-original", detail=f"{tag}: the list the method was called on changed although inplace=False"))
        if "returned" in rec:
            out.append(dict(kind="corr", clause="inplace-call-returned-an-object", detail=f"{tag}: returned {rec['returned']}"))
        if not alive[L]:
            continue
        sf = _state_findings(A, tag, case, L)
        out += sf
        flags["dtypes"].update(A.get("dtypes", []))
        if not _usable(A) or not _usable(B):
            alive[L] = False
            continue
        n = len(B["cells"])
        if len(A["cells"]) != n:
            out.append(dict(kind="spec", clause="particle-lost-or-added", detail=f"{tag}: {n} particles before, {len(A['cells'])} after"))
            alive[L] = False
            continue
        rb20, ra20 = _vals(B["cells"]), _vals(A["cells"])
        ids_b, ids_a = [r[ID] for r in rb20], [r[ID] for r in ra20]
        perm = list(range(n))
        if ids_a != ids_b and sorted(ids_a) == sorted(ids_b) and len(set(ids_b)) == n:
            perm = [ids_a.index(v) for v in ids_b]
            out.append(dict(kind="corr", clause="row-order-vs-model", detail=f"{tag}: subtomo ids {ids_b} -> {ids_a} (the model keeps the order)"))
        ra20 = [ra20[j] for j in perm]
        co_b, co_a = _vals(B["coords"]["v"]), [_vals(A["coords"]["v"])[j] for j in perm] if n else []
        step, chk = rmap.get(("step", i, L)), rmap.get(("check", i, L))
        allow = [0.0] * n  # per particle: near-gimbal allowance of THIS apply_rotation call
        if k == "shift":
            smax[L] += 3.0 * max(abs(b2f(x)) for x in op["v"])
        for p in range(n):
            rb, ra = _p10(rb20[p]), _p10(ra20[p])
            cb, ca = co_b[p], co_a[p]
            ab, aa = rb[6:9], ra[6:9]
            Rb, Ra = _R(ab), _R(aa)
            mag = max(abs(v) for v in ra[:6] + rb[:6])
            dR_same = _maxdiff(Ra, Rb)
            if k != "rotate" and k != "flip" and aa != ab:
                flags["angle_bits_changed"] += 1
            if k == "update":
                if ca != cb:
                    out.append(dict(kind="spec", clause="update-keeps-complete-position", detail=f"{tag} particle {p}: {cb} -> {ca}"))
                if any(ra[j] != math.floor(ra[j]) for j in range(3)):
                    out.append(dict(kind="spec", clause="update-makes-xyz-integers", detail=f"{tag} particle {p}: x,y,z = {ra[:3]} (before: x,y,z {rb[:3]}, shifts {rb[3:6]})"))
                if any(abs(ra[j]) > 0.5 for j in (3, 4, 5)):
                    out.append(dict(kind="spec", clause="update-shift-at-most-half", detail=f"{tag} particle {p}: shifts = {ra[3:6]}"))
                if dR_same > TOL:
                    out.append(dict(kind="spec", clause="update-keeps-orientation", detail=f"{tag} particle {p}: angles {ab} -> {aa}, matrices differ by {dR_same:.3g}"))
            elif k == "scale":
                f = b2f(op["f"])
                if any(not _close(ca[j], f * cb[j], mag) for j in range(3)):
                    out.append(dict(kind="spec", clause="scale-multiplies-complete-position", detail=f"{tag} particle {p}: f={f}, {cb} -> {ca}"))
                if dR_same > TOL:
                    out.append(dict(kind="spec", clause="scale-keeps-orientation", detail=f"{tag} particle {p}: angles {ab} -> {aa}, matrices differ by {dR_same:.3g}"))
            elif k == "shift":
                s = [b2f(x) for x in op["v"]]
                want = [cb[j] + w for j, w in enumerate(_mv(Rb, s))]
                if any(not _close(ca[j], want[j], mag + max(abs(x) for x in s)) for j in range(3)):
                    out.append(dict(kind="spec", clause="shift-moves-by-own-orientation", detail=f"{tag} particle {p}: s={s}, angles={ab}, {cb} -> {ca}, statement gives {want}"))
                if dR_same > TOL:
                    out.append(dict(kind="spec", clause="shift-keeps-orientation", detail=f"{tag} particle {p}: angles {ab} -> {aa}, matrices differ by {dR_same:.3g}"))
            elif k == "rotate":
                q = [[b2f(op["q"][3 * a + b]) for b in range(3)] for a in range(3)]
                want_R = _mm(Rb, q)
                d = _maxdiff(Ra, want_R)
                allow[p] = _gimbal_allow(want_R)
                if allow[p] > 1e-11:
                    flags["gimbal_zone"] += 1
                else:
                    dev["R"] = max(dev["R"], d)
                if d > TOL + allow[p]:
                    out.append(dict(kind="spec", clause="rotate-gives-R-times-Q", detail=f"{tag} particle {p}: angles {ab} -> {aa}; |R_after - R*Q| = {d:.3g}, |R_after - Q*R| = {_maxdiff(Ra, _mm(q, Rb)):.3g}"))
                if any(not _close(ca[j], cb[j], mag) for j in range(3)):
                    out.append(dict(kind="spec", clause="rotate-moves-nothing", detail=f"{tag} particle {p}: complete position {cb} -> {ca}"))
            elif k == "flip":
                dzb = _spec_dz(op, B["cells"][p][TOMO])
                if dzb is not None:  # the statement speaks about this particle only when the dimensions cover its tomogram
                    dz = b2f(dzb)
                    d = _maxdiff(Ra, _mm(MZ, _mm(Rb, MZ)))
                    if d > TOL:
                        out.append(dict(kind="spec", clause="flip-conjugates-orientation-by-z-mirror", detail=f"{tag} particle {p}: angles {ab} -> {aa}; |R_after - Mz R Mz| = {d:.3g}"))
                    if ca[:2] != cb[:2] or not _close(ca[2], dz + 1 - cb[2], mag + dz):
                        out.append(dict(kind="spec", clause="flip-mirrors-complete-z", detail=f"{tag} particle {p}: dim_z={dz}, complete position {cb} -> {ca}, statement gives z = {dz + 1 - cb[2]}"))
        # flipping twice (same dimensions, same list, nothing in between on this list) restores the list -- all 20 fields
        if k == "flip":
            j0 = next((j for j in range(i - 1, -1, -1) if case["ops"][j].get("on", 0) == L), None)
            if j0 is not None and case["ops"][j0]["kind"] == "flip" and case["ops"][j0]["dims"] == op["dims"] and "after" in obs["steps"][j0] and _usable(obs["steps"][j0]["before"][L]):
                r0 = _vals(obs["steps"][j0]["before"][L]["cells"])
                for p in range(n):
                    if _spec_dz(op, B["cells"][p][TOMO]) is None:
                        continue
                    q0 = next((r for r in r0 if r[ID] == rb20[p][ID]), r0[p])
                    bad = [COLS[j] for j in range(20) if (j not in (PHI, THETA, PSI) and not _close(ra20[p][j], q0[j], abs(q0[j]) + 2000))]
                    if _maxdiff(_R([ra20[p][PHI], ra20[p][THETA], ra20[p][PSI]]), _R([q0[PHI], q0[THETA], q0[PSI]])) > TOL:
                        bad.append("orientation")
                    if bad:
                        out.append(dict(kind="spec", clause="flip-twice-restores-the-list", detail=f"op {j0},{i} particle {p}: fields {bad} not restored: {q0} -> {ra20[p]}"))
        # ---- verified checker (exact rationals) on the implementation's output
        if chk is not None:
            if "error" in chk:
                out.append(dict(kind="corr", clause="checker-error", detail=f"{tag}: {chk}"))
            else:
                okp = [chk["okpos"][j] for j in perm] if perm != list(range(n)) else chk["okpos"]
                if perm == list(range(n)) and not all(okp):
                    p = okp.index(False)
                    out.append(dict(kind="spec", clause=f"lean-checker-rejects-{k}", detail=f"{tag} particle {p}: before {_p10(rb20[p])} after {_p10(ra20[p])}"))
                elif perm == list(range(n)) and not all(chk["ok"]):
                    flags["strict_flip_only_pos"] += 1
                if k == "flip":
                    cov_py = [_spec_dz(op, r[TOMO]) is not None for r in B["cells"]]
                    if cov_py != chk["covered"]:
                        out.append(dict(kind="corr", clause="coverage-python-vs-lean", detail=f"{tag}: {cov_py} vs {chk['covered']}"))
        # ---- correspondence with the Lean model run on the same before-state
        if step is None:
            continue
        if "error" in step:
            out.append(dict(kind="corr", clause="model-error", detail=f"{tag}: {step}")); continue
        mr20 = _vals(step["rows"])
        dev["resid"] = max(dev["resid"], b2f(step["resid"]))
        if k == "flip":
            cov_py = [_spec_dz(op, r[TOMO]) is not None for r in B["cells"]]
            cov_lean = [s is not None for s in step["spec"]]
            if cov_py != cov_lean:
                out.append(dict(kind="corr", clause="coverage-python-vs-lean", detail=f"{tag}: {cov_py} vs {cov_lean}"))
        for p in range(n):
            # every field the operation has no business with (score, class, geom*, ids, tomo_id ... and x y z / shifts where untouched)
            touched = {"update": (X, Y, Z, SX, SY, SZ), "scale": (X, Y, Z, SX, SY, SZ), "shift": (SX, SY, SZ), "rotate": (PHI, THETA, PSI), "flip": (Z, SZ, THETA)}[k]
            other = [j for j in range(20) if j not in touched and j not in (PHI, THETA, PSI)]
            badf = [COLS[j] for j in other if f2b(mr20[p][j]) != f2b(ra20[p][j])]
            if badf:
                out.append(dict(kind="corr", clause=f"{k}-other-fields-vs-model", detail=f"{tag} particle {p}: fields {badf} changed: before {rb20[p]}; code {ra20[p]}; model {mr20[p]}"))
            mr, ra = _p10(mr20[p]), _p10(ra20[p])
            if k in ("update", "scale", "flip"):
                if mr[:6] != ra[:6]:
                    out.append(dict(kind="corr", clause=f"{k}-fields-vs-model", detail=f"{tag} particle {p}: before {_p10(rb20[p])}; code {ra}; model {mr}"))
                dR = _maxdiff(_R(mr[6:9]), _R(ra[6:9]))
                dev["R"] = max(dev["R"], dR)
                if dR > TOL:
                    out.append(dict(kind="corr", clause=f"{k}-orientation-vs-model", detail=f"{tag} particle {p}: angles code {ra[6:9]}; model {mr[6:9]}; |R diff| {dR:.3g}"))
            else:
                mp, mR = _pose_of_wire(step["pose"][p])
                mag = max(abs(v) for v in ra[:6]) + 50
                dp = max(abs(mp[j] - co_a[p][j]) for j in range(3))
                dR = _maxdiff(mR, _R(ra[6:9]))
                dev["pos"] = max(dev["pos"], dp)
                if allow[p] <= 1e-11:
                    dev["R"] = max(dev["R"], dR)
                if dp > TOL * (1 + mag) or dR > TOL + allow[p]:
                    out.append(dict(kind="corr", clause=f"{k}-pose-vs-model", detail=f"{tag} particle {p}: |pos diff| {dp:.3g}, |R diff| {dR:.3g}; code {ra}; model {mr}"))
                if k == "rotate" and b2f(step["resid"]) > TOL:
                    out.append(dict(kind="corr", clause="model-euler-service-residual", detail=f"{tag}: EulerOK residual of the driver's Float service {b2f(step['resid']):.3g}"))
        acc[L] += max(allow, default=0.0)
    # ---- whole history per list: final pose vs. the specification folded over all its operations (Lean specRun)
    for L in range(nl):
        hist = rmap.get(("history", None, L))
        if hist is None or not alive[L]:
            continue
        fin = (obs["steps"][-1]["after"] if obs["steps"] else obs["initial"])[L]
        rows0 = _vals((case["rows2"] if L == 1 else case["rows"]))
        rf20 = _vals(fin["cells"])
        if "error" in hist:
            out.append(dict(kind="corr", clause="model-error", detail=f"history: {hist}")); continue
        if len(rf20) != len(rows0):
            continue
        ids0 = [r[ID] for r in rows0]
        idsf = [r[ID] for r in rf20]
        if sorted(ids0) == sorted(idsf) and len(set(ids0)) == len(ids0):
            rf20 = [rf20[idsf.index(v)] for v in ids0]
        scale = 1.0
        for o in case["ops"]:
            if o["kind"] == "scale" and o.get("on", 0) == L:
                scale *= max(1.0, abs(b2f(o["f"])))
        for p in range(len(rows0)):
            rf = _p10(rf20[p])
            cf = [rf[0] + rf[3], rf[1] + rf[4], rf[2] + rf[5]]
            for name in ("spec", "pose"):
                if hist[name][p] is None:  # some call of the history is outside the quantifier for this particle: the statement is silent
                    continue
                sp, sR = _pose_of_wire(hist[name][p])
                mag = (max(abs(v) for v in rf[:6]) + 2100) * scale
                dp = max(abs(sp[j] - cf[j]) for j in range(3))
                dR = _maxdiff(sR, _R(rf[6:9]))
                if acc[L] == 0.0:
                    dev["pos"] = max(dev["pos"], dp); dev["R"] = max(dev["R"], dR)
                if dp > 10 * TOL * (1 + mag) + acc[L] * (1 + smax[L]) * scale or dR > 10 * TOL + acc[L]:
                    out.append(dict(kind="corr", clause=f"history-final-pose-vs-{'specification' if name == 'spec' else 'model'}",
                                    detail=f"list {L} particle {p}: |pos diff| {dp:.3g}, |R diff| {dR:.3g}; code pos {cf} angles {rf[6:9]}; {name} pos {sp}"))
    # ---- python `_push_flips` vs the Lean theorem: the statement folded over the history and over its normal form must agree (Lean evaluates both)
    ht, h0 = rmap.get(("history_twin", None, 0)), rmap.get(("history", None, 0))
    if ht is not None and h0 is not None and "error" not in ht and "error" not in h0:
        for p, (a, b) in enumerate(zip(h0["spec"], ht["spec"])):
            if a is None:  # some flip does not cover this particle: outside the hypothesis of the theorem (and of the statement)
                continue
            if b is None:
                out.append(dict(kind="corr", clause="flip-normal-form-python-vs-lean", detail=f"particle {p}: the statement is defined for the history but not for its normal form"))
            else:
                (pa, Ra_), (pb, Rb_) = _pose_of_wire(a), _pose_of_wire(b)
                dp, dR = max(abs(pa[j] - pb[j]) for j in range(3)), _maxdiff(Ra_, Rb_)
                if dp > 1e-7 * (1 + max(abs(v) for v in pa)) or dR > 1e-9:
                    out.append(dict(kind="corr", clause="flip-normal-form-python-vs-lean", detail=f"particle {p}: specRun(history) and specRun(normal form) differ: |pos| {dp:.3g}, |R| {dR:.3g}"))
    # ---- composition clause stated directly on the real code: two calls = the one combined call
    if "twin_raised" in obs and len(obs["steps"]) == len(case["ops"]) and "raised" not in (obs["steps"][-1] if obs["steps"] else {}):
        r = obs["twin_raised"]
        out.append(dict(kind="spec" if r["in_cryocat"] else "corr", clause="raises" if r["in_cryocat"] else "harness-or-library-raised", detail=f"combined call of the composition clause: {r['error']} @{r['where']}"))
    if "twin" in case and "twin_final" in obs and alive[0] and obs["steps"] and "after" in obs["steps"][-1] and _usable(obs["twin_final"]):
        tf, fin = obs["twin_final"], obs["steps"][-1]["after"][0]
        if _usable(fin) and len(tf["cells"]) == len(fin["cells"]):
            rt, rf20 = _vals(tf["cells"]), _vals(fin["cells"])
            scale = 1.0
            for o in case["ops"]:
                if o["kind"] == "scale":
                    scale *= max(1.0, abs(b2f(o["f"])))
            covered_all = lambda p: all(o["kind"] != "flip" or _spec_dz(o, case["rows"][p][TOMO]) is not None for o in case["ops"])
            for p in range(len(rt)):
                if not covered_all(p):
                    continue
                a, b = _p10(rf20[p]), _p10(rt[p])
                cf, ct = [a[0] + a[3], a[1] + a[4], a[2] + a[5]], [b[0] + b[3], b[1] + b[4], b[2] + b[5]]
                mag = (max(abs(v) for v in a[:6]) + 2100) * scale
                dp = max(abs(ct[j] - cf[j]) for j in range(3))
                dR = _maxdiff(_R(b[6:9]), _R(a[6:9]))
                # both runs may have met scipy's gimbal zone (the same calls, or the combined call where neither single one did)
                if dp > 10 * TOL * (1 + mag) + 2 * acc[0] * (1 + smax[0]) * scale or dR > 10 * TOL + 2 * acc[0]:
                    out.append(dict(kind="spec", clause="composition-" + case["twin"]["clause"],
                                    detail=f"particle {p}: two successive calls at op {case['twin']['at']} give pos {cf} angles {a[6:9]}; the single combined call gives pos {ct} angles {b[6:9]}"))
    flags["dtypes"] = sorted(flags["dtypes"])
    obs["_dev"] = dev
    obs["_flags"] = flags
    return out


def nontrivial(case, obs):
    case = _norm_case(case)
    if "error" in obs or len(obs.get("steps", [])) != len(case["ops"]) or (obs["steps"] and "after" not in obs["steps"][-1]):
        return False
    kinds = {o["kind"] for o in case["ops"]}
    vals = _vals(case["rows"])
    return len(case["ops"]) >= 2 and len(kinds) >= 2 and any(r[SX] != 0 or r[SY] != 0 or r[SZ] != 0 for r in vals) and any(r[THETA] != 0 for r in vals)


def stats(case, obs, resps):
    case = _norm_case(case)
    vals = _vals(case["rows"])
    ops = case["ops"]
    out = {"n_ops": len(ops) if len(ops) <= 6 else "7+", "n_rows": len(vals) if len(vals) <= 8 else "9+",
           "op": [o["kind"] for o in ops], "index": case.get("index", "default") + ("+reimposed-before-every-op" if case.get("reindex") and case.get("index", "default") != "default" else ""),
           "twin": case.get("twin", {}).get("clause", "none"), "lists": 2 if case.get("rows2") else 1, "per_tomogram_observers": bool(case.get("bytomo"))}
    out["op_on_nondefault_index"] = [o["kind"] for i, o in enumerate(ops) if (case.get("index2" if o.get("on", 0) else "index", "default") != "default") and (case.get("reindex") or not any(p["kind"] == "shift" and p.get("on", 0) == o.get("on", 0) for p in ops[:i]))]
    out["flip_dims"] = [("none" + ("/omitted" if o.get("omit") else "/None") if o["dims"] is None else ("single/" if "single" in o["dims"] else "undocumented-shape/" if "bad" in o["dims"] else "table/") + o.get("form", "") + ("/flat-row" if o.get("flat") and "table" in o["dims"] and len(o["dims"]["table"]) == 1 else "")) for o in ops if o["kind"] == "flip"]
    out["integer_typed_columns"] = "+".join(case.get("intcols") or ["none"])
    out["column_order"] = (case.get("colorder") or ["motl_columns"])[0]
    out["op_on_noncanonical_column_order"] = [o["kind"] for o in ops if case.get("colorder2" if o.get("on", 0) == 1 and case.get("colorder2") else "colorder")]
    out["near_gimbal_particle"] = any(r[THETA] % 180.0 != 0 and abs(math.sin(math.radians(r[THETA]))) < 2e-7 for r in vals)
    out["off_grid_decimal_values"] = any(r[j] * GRID != math.floor(r[j] * GRID) and round(r[j], 3) == r[j] for r in vals for j in POSE_IDX[:9])
    out["flip_noninteger_mirror_plane"] = any(o["kind"] == "flip" and o["dims"] and any(b2f(z) != math.floor(b2f(z)) for z in ([o["dims"]["single"]] if "single" in o["dims"] else [r[1] for r in o["dims"].get("table", [])])) for o in ops)
    cov = []
    for o in ops:
        if o["kind"] == "flip" and o["dims"] is not None and "table" in o["dims"]:
            ts = [b2f(t) for t, _ in o["dims"]["table"]]
            rows = _vals(case["rows2"] if o.get("on", 0) else case["rows"])
            c = [(_spec_dz(o, f2b(r[TOMO])) is not None) for r in rows]
            cov.append(("duplicate-rows/" if len(set(ts)) < len(ts) else "") + ("all-covered" if all(c) else "some-particle-outside-the-quantifier"))
    out["flip_table_coverage"] = cov
    # the "...int" forms hold python / numpy integers only when the vector is whole (a rewritten shared vector may not be): label what is passed
    out["shift_inplace"] = [str(o.get("inplace", "omit")) + "/" + (o.get("form", "array") if all(b2f(x) == int(b2f(x)) for x in o["v"]) else o.get("form", "array").replace("int", "")) for o in ops if o["kind"] == "shift"]
    out["receiver_class"] = case.get("cls", "Motl")
    out["keyword_call"] = [o["kind"] for o in ops if o.get("kw")]
    shares = {}
    for o in ops:
        if o.get("share"):
            shares.setdefault(o["share"], []).append(o)
    out["shared_argument"] = [f"{v[0]['kind']}/{v[0].get('form', 'rotation')}/x{len(v)}" + ("/rewritten" if any(_wire_op(a) != _wire_op(v[0]) for a in v) else "") + ("/across-lists" if len({a.get('on', 0) for a in v}) > 1 else "") for v in shares.values()] or ["none"]
    zs = sum(1 for r in vals if r[SX] == 0 and r[SY] == 0 and r[SZ] == 0 and any(r[j] != math.floor(r[j]) for j in (X, Y, Z)))
    out["rows_zero_shift_noninteger"] = "0" if zs == 0 else "1+"
    ties = sum(1 for r in vals for a, b in ((X, SX), (Y, SY), (Z, SZ)) if (r[a] + r[b]) * 2 == math.floor((r[a] + r[b]) * 2) and (r[a] + r[b]) != math.floor(r[a] + r[b]))
    out["initial_half_integer_ties"] = "0" if ties == 0 else ("1-3" if ties <= 3 else "4+")
    out["negative_complete_coordinate"] = any(r[a] + r[b] < 0 for r in vals for a, b in ((X, SX), (Y, SY), (Z, SZ)))
    out["gimbal_theta"] = any(r[THETA] % 180.0 == 0 for r in vals)
    if "error" not in obs:
        plan = _plan(case, obs)
        out["lean_checker_steps"] = sum(1 for w, _, _ in plan if w == "check")
        upd_ties = 0
        for i, rec in enumerate(obs["steps"]):
            o = ops[i]
            if o["kind"] == "update" and _usable(rec["before"][o.get("on", 0)]):
                for r in _vals(rec["before"][o.get("on", 0)]["cells"]):
                    upd_ties += sum(1 for a, b in ((X, SX), (Y, SY), (Z, SZ)) if abs((r[a] + r[b]) - math.floor(r[a] + r[b]) - 0.5) == 0)
        out["ties_met_by_update"] = "0" if upd_ties == 0 else ("1-3" if upd_ties <= 3 else "4+")
        out["raised"] = any("raised" in r for r in obs["steps"])
        d, fl = obs.get("_dev"), obs.get("_flags")
        if d:
            out["max_dev_pos"] = "<1e-12" if d["pos"] < 1e-12 else ("<1e-10" if d["pos"] < 1e-10 else "<1e-8" if d["pos"] < 1e-8 else ">=1e-8")
            out["max_dev_R"] = "<1e-14" if d["R"] < 1e-14 else ("<1e-12" if d["R"] < 1e-12 else "<1e-9" if d["R"] < 1e-9 else ">=1e-9")
            out["euler_service_residual"] = "<1e-14" if d["resid"] < 1e-14 else ("<1e-12" if d["resid"] < 1e-12 else ">=1e-12")
        if fl:
            out["column_dtypes_seen"] = fl["dtypes"] or ["(no operation)"]
            out["documented_refusals_seen"] = fl.get("refused", 0)
            out["rotations_inside_scipy_gimbal_zone"] = "0" if not fl.get("gimbal_zone") else "1+"
            out["angles_bit_identical_where_untouched"] = fl["angle_bits_changed"] == 0
    return out


def classify(case, obs, finding):
    return None


def probes(rng):
    """the recorded scipy / decimal assumptions, probed directly"""
    import numpy as np, decimal, warnings
    from scipy.spatial.transform import Rotation
    out = []
    worst = 0.0; worst_rt = 0.0; worst_mul = 0.0
    with warnings.catch_warnings():
        warnings.simplefilter("ignore")
        for _ in range(200):
            a = [_angle(rng, "phi"), _angle(rng, "theta"), _angle(rng, "psi")]
            b = [_angle(rng, "phi"), _angle(rng, "theta"), _angle(rng, "psi")]
            ra, rb = Rotation.from_euler("zxz", a, degrees=True), Rotation.from_euler("zxz", b, degrees=True)
            worst = max(worst, _maxdiff(ra.as_matrix().tolist(), rot_zxz(*a)))
            worst_mul = max(worst_mul, _maxdiff((ra * rb).as_matrix().tolist(), _mm(rot_zxz(*a), rot_zxz(*b))))
            e = (ra * rb).as_euler("zxz", degrees=True)
            m_ = (ra * rb).as_matrix().tolist()
            worst_rt = max(worst_rt, _maxdiff(rot_zxz(*e), m_) - _gimbal_allow(m_))
        zone = 0.0  # inside scipy's gimbal zone the round trip is off by 2 sin(theta), as `_gimbal_allow` states (H4)
        for th in NEAR_GIMBAL:
            for _ in range(20):
                a = [rng.uniform(-180, 180), th, rng.uniform(-180, 180)]
                r_ = Rotation.from_euler("zxz", a, degrees=True)
                m_ = rot_zxz(*a)
                zone = max(zone, _maxdiff(rot_zxz(*r_.as_euler("zxz", degrees=True)), m_) - _gimbal_allow(m_))
    out.append(dict(name="scipy from_euler('zxz',deg) = Rz(psi)Rx(theta)Rz(phi)", ok=worst < 1e-12, detail=f"max dev {worst:.2e} on 200 triples"))
    out.append(dict(name="scipy Rotation '*' = matrix product", ok=worst_mul < 1e-12, detail=f"max dev {worst_mul:.2e}"))
    out.append(dict(name="scipy as_euler reproduces the matrix (EulerOK), incl. gimbal lock", ok=worst_rt < 1e-9, detail=f"max dev beyond the near-gimbal allowance {worst_rt:.2e}"))
    out.append(dict(name="scipy as_euler next to gimbal lock: deviation within 3 sin(theta) inside the 1e-7 rad zone, 1e-9 outside", ok=zone < 1e-9, detail=f"max dev beyond the allowance {zone:.2e} on {20 * len(NEAR_GIMBAL)} near-gimbal orientations"))
    xs = [n + 0.5 for n in range(-6, 7)] + [rng.uniform(-50, 50) for _ in range(50)] + [0.49999999999999994, -0.49999999999999994, 2.5000000000000004]
    r = core.run_driver([dict(prop=PROP, op="round", xs=[f2b(x) for x in xs])])[0]
    py = [int(decimal.Decimal(x).to_integral_value(rounding=decimal.ROUND_HALF_UP)) for x in xs]
    out.append(dict(name="Decimal ROUND_HALF_UP = Lean roundHalfUp on the exact value", ok=r.get("r") == py, detail=f"{len(xs)} values incl. 13 ties and 3 near-ties"))
    return out


LEVEL_TEXT = ("Lean 4 theorems about an executable, number-type-polymorphic model of update_coordinates / scale_coordinates / shift_positions / "
              "apply_rotation / flip_handedness: each operation and, by induction, every history of any length acts on the pose (complete position x+shift, "
              "orientation matrix) exactly as the statement says wherever the statement speaks (absPose_applyOpP, absPose_runOps; specOp is partial: a flip whose "
              "dimensions do not cover the particle's tomogram is outside the quantifier), with update_spec (position kept, integers, |shift|<=1/2 "
              "for ROUND_HALF_UP incl. ties), shift_shift, rotate_rotate, flip_flip, update_idem and verified exact checkers; over the reals every proper rotation "
              "has zxz Euler angles (exists_zxz_of_rot, realSvc_eulerOK) so the history theorem holds without any assumption on the numeric services "
              "(absPose_runOps_real); histories with flips: two successive flips cancel anywhere (flip_flip_in_history), and in a scale-free history all "
              "flips move to the end, leaving the mirrored flip-free history followed by one flip iff their number is odd (spec_history_flip_parity, "
              "history_flip_parity, history_flip_parity_real); the 1x3 / Nx4 shape dispatch of dimensions_load is modelled and executed (loadDims_*); tied to the source by regenerated anchors (x+shift columns, rounding mode, scale loop, Euler sequence/units, R*Q order, "
              "flip offset and both flip branches, the float conversions that make integer-typed columns work, signatures and defaults, canonical whole bodies "
              "incl. dimensions_load and imod_com_read) and by a per-operation differential run of the real "
              "code against the model and against the statement (all 20 fields, dtypes, caller-owned arguments, two lists per process)")
LEVEL_NOTE = ("for Float/Rat services the scipy facts are hypotheses of the theorems: cos even/sin odd (CsOdd) and, for apply_rotation only, that as_euler's triple "
              "reproduces the product matrix (EulerOK, per matrix); both are probed numerically each run and are theorems for the real-number services; float "
              "round-off is outside the proofs (exact steps are compared bit-exactly / by the exact Lean checker, trigonometric steps within 1e-9); the hypothesis-free real-number theorems (realSvc_meets_all, absPose_runOps_real, history_flip_parity_real) are about the IDEAL services realSvc, whose Euler "
              "extraction eulerR (sqrt / Complex.arg) is a different function from the extractor the driver executes (Drv/C05.eulerF, Float.atan2) and from scipy's as_euler: they show "
              "that the contract is satisfiable and what follows from it, not that the executed extractor meets it (that is measured: resid, probes); flip_flip / flip_flip_in_history "
              "are identities of exact arithmetic ((dz+1)-((dz+1)-z) = z can fail in the last bit at Float): the float restoration is validated within tolerance")
TECHNIQUE = "Lean 4 proof (ring identities over any commutative ring, Mz conjugation, cofactor identities and Euler-angle existence for SO(3), induction over histories, Rat floor rounding) + regenerated anchors + per-step differential correspondence"
DESIGN_REF = "DESIGN.md section 4, C05"
