"""C05 — pose bookkeeping: position x+shift and orientation transform rigidly (DESIGN.md section 4, C05)."""
import ast, math, re, copy
from fractions import Fraction
import core
from core import f2b, b2f

PROP = "C05"
COUNT = {"quick": 260, "thorough": 5000, "search": 2500}
PARALLEL = True
REL = "cryocat/cryomotl.py"
FIELDS = ["x", "y", "z", "shift_x", "shift_y", "shift_z", "phi", "theta", "psi", "tomo_id"]

RULE = ("histories of 1..6 (thorough: up to 30) operations update_coordinates / scale_coordinates(f>0) / shift_positions(s) / "
        "apply_rotation(Q) / flip_handedness(dims) on particle lists of 1..8 particles in 1..3 tomograms; positions and shifts on the "
        "dyadic grid 2^-10 with both signs, a share of exact half-integer complete positions (ties) and of off-grid values; Euler angles "
        "generic, gimbal (theta 0/180), multiples of 90, negative and >360; dimension tables: one triple (list / array / DataFrame / "
        "text file) or rows per tomogram (shuffled, with extra tomograms); a share of histories built around the composition clauses "
        "(shift,shift), (rotate,rotate), (flip,flip). After EVERY operation the complete positions, the x/y/z/shift fields and the "
        "orientation matrices (own products of elementary rotations, never scipy Euler code) are compared with the Lean model run on the "
        "state the real code had before the operation (bit-exact for update/scale/flip, 1e-9 for shift/rotate) and with the statement "
        "evaluated directly; the final pose is compared with the abstract specification folded over the whole history. "
        "non-trivial = >=2 operations of >=2 kinds, some non-zero shift and some non-zero theta in the list; distinct = distinct case content")
ASSUMPTIONS = [
    "scipy Rotation.from_euler('zxz', degrees=True) is Rz(psi)Rx(theta)Rz(phi); as_euler returns a triple that reproduces the matrix (also at gimbal lock); "
    "'*' is the matrix product and apply() the matrix-vector product -- each compared on every case against the harness's own elementary-rotation "
    "products within 1e-9 and probed separately (probes())",
    "numpy/pandas float64 +,-,* are IEEE-754 binary64 like Lean Float (update/scale/flip steps are compared bit for bit)",
    "decimal.Decimal(float).to_integral_value(ROUND_HALF_UP) rounds the exact binary value half away from zero = Lean roundHalfUp on the exact rational (compared on every update step, incl. ties)",
    "libm cos/sin/atan2/acos used by the Lean driver's Float services agree with numpy within 1e-12 (inside the 1e-9 tolerance)",
]
TRUSTED = ["harness elementary-rotation oracle rot_zxz() in props/c05.py (3x3 products with math.cos/math.sin)",
           "Drv/C05.lean Float services (cos/sin in degrees, zxz Euler extraction, exact Float->Rat decoding)"]
TOL = 1e-9


# ------------------------------------------------------------------ translator
def _u(n):
    return ast.unparse(n).replace(" ", "").replace("'", '"')


def _str_list(node):
    v = ast.literal_eval(node)
    if not (isinstance(v, (list, tuple)) and all(isinstance(s, str) for s in v)):
        raise core.AnchorMissing("not a list of strings: " + _u(node))
    return list(v)


def translate(src):
    A = src.anchor

    # --- get_coordinates: values of [x,y,z] + values of [shift_x,shift_y,shift_z], both branches
    def coords():
        fn = src.find(REL, "Motl.get_coordinates")
        found = []
        for n in ast.walk(fn):
            if isinstance(n, ast.Assign) and isinstance(n.value, ast.BinOp):
                if not isinstance(n.value.op, ast.Add):
                    raise core.AnchorMissing("get_coordinates: coordinates and shifts are not added: " + _u(n.value)[:80])
                lists = [_str_list(l) for side in (n.value.left, n.value.right) for l in ast.walk(side) if isinstance(l, ast.List)]
                found.append(lists)
        if len(found) != 2 or any(len(f) != 2 for f in found) or found[0] != found[1]:
            raise core.AnchorMissing("get_coordinates: expected two branches '<xyz>.values + <shifts>.values'")
        return found[0]

    cs = A("get_coordinates:x+shift", coords) or [[], []]

    # --- update_coordinates
    def update():
        fn = src.find(REL, "Motl.update_coordinates.round_and_recenter")
        row = fn.args.args[0].arg
        shifted, rounded, resid = {}, [], []
        for st in fn.body:
            if not isinstance(st, ast.Assign) or len(st.targets) != 1:
                continue
            t, v = st.targets[0], st.value
            if isinstance(t, ast.Name) and isinstance(v, ast.BinOp) and isinstance(v.op, ast.Add):
                m = re.fullmatch(rf'{row}\["(\w+)"\]\+{row}\["(\w+)"\]', _u(v))
                if m:
                    shifted[t.id] = (m.group(1), m.group(2))
            elif isinstance(t, ast.Subscript) and isinstance(v, ast.Call):
                m = re.fullmatch(r'float\(decimal\.Decimal\((\w+)\)\.to_integral_value\(rounding=decimal\.(\w+)\)\)', _u(v))
                if m and m.group(1) in shifted:
                    col = ast.literal_eval(t.slice)
                    rounded.append([col, shifted[m.group(1)][0], shifted[m.group(1)][1], m.group(2)])
            elif isinstance(t, ast.Subscript) and isinstance(v, ast.BinOp) and isinstance(v.op, ast.Sub):
                m = re.fullmatch(r'(\w+)-(\w+)\["(\w+)"\]', _u(v))
                if m and m.group(1) in shifted:
                    resid.append([ast.literal_eval(t.slice), shifted[m.group(1)][0], shifted[m.group(1)][1], m.group(3), m.group(2) == _u(t.value)])
        if len(rounded) != 3 or len(resid) != 3:
            raise core.AnchorMissing("update_coordinates.round_and_recenter: expected 3 roundings and 3 residual shifts")
        new_rows = [st.targets[0].id for st in fn.body if isinstance(st, ast.Assign) and _u(st.value) == f"{row}.copy()"]
        if not isinstance(fn.body[-1], ast.Return) or len(new_rows) != 1 or _u(fn.body[-1].value) != new_rows[0]:
            raise core.AnchorMissing("round_and_recenter does not return the new row")
        outer = src.find(REL, "Motl.update_coordinates")
        if not any(isinstance(s, ast.Assign) and _u(s) == "self.df=self.df.apply(round_and_recenter,axis=1)" for s in outer.body):
            raise core.AnchorMissing("update_coordinates does not apply round_and_recenter row by row")
        return [rounded, resid]

    up = A("update_coordinates:round_and_recenter", update) or [[], []]

    # --- scale_coordinates
    def scale():
        fn = src.find(REL, "Motl.scale_coordinates")
        loop = next((s for s in fn.body if isinstance(s, ast.For)), None)
        if loop is None:
            raise core.AnchorMissing("scale_coordinates: no loop over the coordinates")
        coords_ = _str_list(loop.iter)
        var = loop.target.id
        factor = fn.args.args[1].arg
        txt = [_u(s) for s in loop.body]
        want = [f'self.df[{var}]=self.df[{var}]*{factor}', None, None]
        m = re.fullmatch(rf'(\w+)="(\w+)"\+{var}', txt[1]) if len(txt) == 3 else None
        if len(txt) != 3 or txt[0] != want[0] or not m or txt[2] != f'self.df[{m.group(1)}]=self.df[{m.group(1)}]*{factor}':
            raise core.AnchorMissing("scale_coordinates: loop body is not 'col *= factor; shift_col *= factor': " + " ; ".join(txt)[:160])
        return [coords_, [m.group(2)]]

    sc = A("scale_coordinates:loop", scale) or [[], [""]]

    # --- Euler conventions: every from_euler / as_euler call in the anchored functions
    def euler_calls():
        out = []
        for q in ("Motl.apply_rotation", "Motl.shift_positions", "Motl.get_rotations"):
            fn = src.find(REL, q)
            for n in ast.walk(fn):
                if isinstance(n, ast.Call) and isinstance(n.func, ast.Attribute) and n.func.attr in ("from_euler", "as_euler"):
                    kw = {k.arg: k.value for k in n.keywords}
                    seq = kw.get("seq", n.args[0] if n.args else None)
                    deg = kw.get("degrees")
                    out.append([q.split(".")[1] + "." + n.func.attr, ast.literal_eval(seq) if seq is not None else "?",
                                "degrees" if (deg is not None and ast.literal_eval(deg) is True) else "radians"])
        if len(out) != 4:
            raise core.AnchorMissing(f"expected 4 from_euler/as_euler calls, found {len(out)}")
        return out

    eu = A("euler-conventions:from_euler/as_euler", euler_calls) or []

    # --- angle column order used to build / store Euler triples
    def angle_cols():
        out = []
        fn = src.find(REL, "Motl.apply_rotation")
        for n in ast.walk(fn):
            if isinstance(n, ast.Subscript) and _u(n.value) == "self.df.loc":
                out.append(_str_list(n.slice.elts[1]))
        if len(out) != 2:
            raise core.AnchorMissing("apply_rotation: expected one read and one write of the angle columns")
        fn = src.find(REL, "Motl.get_angles")
        g = [_str_list(n.slice.elts[1]) for n in ast.walk(fn) if isinstance(n, ast.Subscript) and _u(n.value) == "self.df.loc"
             and isinstance(n.slice, ast.Tuple) and isinstance(n.slice.elts[1], ast.List)]
        if len(g) != 2:
            raise core.AnchorMissing("get_angles: expected two branches selecting the angle columns")
        out += g
        fn = src.find(REL, "Motl.shift_positions.shift_coords")
        row = fn.args.args[0].arg
        for n in ast.walk(fn):
            if isinstance(n, ast.Assign) and _u(n.targets[0]) == "euler_angles":
                m = re.fullmatch(rf'np\.array\(\[\[{row}\["(\w+)"\],{row}\["(\w+)"\],{row}\["(\w+)"\]\]\]\)', _u(n.value))
                if not m:
                    raise core.AnchorMissing("shift_coords: euler_angles is not [[phi, theta, psi]] of the row")
                out.append(list(m.groups()))
        if len(out) != 5:
            raise core.AnchorMissing("shift_coords: euler_angles assignment not found")
        return out

    ac = A("angle-columns:apply_rotation,get_angles,shift_coords", angle_cols) or []

    # --- apply_rotation: which side the user's rotation multiplies on
    def rot_side():
        fn = src.find(REL, "Motl.apply_rotation")
        param = fn.args.args[1].arg
        from_e = None
        for n in ast.walk(fn):
            if isinstance(n, ast.Assign) and isinstance(n.value, ast.Call) and _u(n.value.func).endswith(".from_euler"):
                from_e = n.targets[0].id
        for n in ast.walk(fn):
            if isinstance(n, ast.Assign) and isinstance(n.value, ast.BinOp) and isinstance(n.value.op, ast.Mult):
                l, r = _u(n.value.left), _u(n.value.right)
                if (l, r) == (from_e, param):
                    prod = n.targets[0].id
                    side = True
                elif (l, r) == (param, from_e):
                    prod = n.targets[0].id
                    side = False
                else:
                    continue
                # the product must be what is converted back and stored
                txt = _u(fn)
                if f"{prod}.as_euler(" not in txt:
                    raise core.AnchorMissing("apply_rotation: the product is not converted back with as_euler")
                return side
        raise core.AnchorMissing("apply_rotation: no product '<from_euler angles> * <rotation>'")

    side = A("apply_rotation:angles_rot*rotation", rot_side)

    # --- shift_positions: own orientation applied to the shift, added to the shift columns
    def shift_targets():
        fn = src.find(REL, "Motl.shift_positions.shift_coords")
        row = fn.args.args[0].arg
        txt = _u(fn)
        m = re.search(r'(\w+)=(\w+)\.apply\((\w+)\)', txt)
        mo = re.search(r'(\w+)=rot\.from_euler\(', txt)
        mv = re.search(r'(\w+)=np\.array\(shift\)', txt)
        if not (m and mo and mv and m.group(2) == mo.group(1) and m.group(3) == mv.group(1)):
            raise core.AnchorMissing("shift_coords: rshifts = orientations.apply(np.array(shift)) not found")
        rs = m.group(1)
        out = []
        for st in fn.body:
            if isinstance(st, ast.Assign):
                mm = re.fullmatch(rf'{row}\["(\w+)"\]={row}\["(\w+)"\]\+{rs}\[0\]\[(\d)\]', _u(st))
                if mm:
                    if mm.group(1) != mm.group(2):
                        raise core.AnchorMissing("shift_coords: a shift column is computed from another column")
                    out.append([mm.group(1), int(mm.group(3))])
        if len(out) != 3:
            raise core.AnchorMissing("shift_coords: expected three 'row[shift_c] = row[shift_c] + rshifts[0][i]'")
        return out

    st_ = A("shift_positions:shift+=R.apply(s)", shift_targets) or []

    # --- flip_handedness
    def flip():
        fn = src.find(REL, "Motl.flip_handedness")
        neg_theta = any(isinstance(s, ast.Assign) and _u(s) == 'self.df.loc[:,"theta"]=-self.df.loc[:,"theta"]' for s in fn.body)
        offs, mirrors, negs = [], 0, 0
        for n in ast.walk(fn):
            if isinstance(n, ast.Assign) and _u(n.targets[0]) == "z_dim":
                v = n.value
                if not (isinstance(v, ast.BinOp) and isinstance(v.op, ast.Add) and isinstance(v.right, ast.Constant) and _u(v.left).startswith("float(dims")
                        and '"z"' in _u(v.left) and _u(v.left).endswith(".iloc[0])")):
                    raise core.AnchorMissing("flip_handedness: z_dim is not float(dims[...'z'].iloc[0]) + <const>: " + _u(v)[:100])
                offs.append(v.right.value)
            if isinstance(n, ast.Assign) and isinstance(n.targets[0], ast.Subscript) and _u(n.targets[0].value) == "self.df.loc":
                tgt, val = _u(n.targets[0]), _u(n.value)
                if tgt.endswith(',"z"]') and val == "z_dim-" + tgt:
                    mirrors += 1
                if tgt.endswith(',"shift_z"]') and val == "-" + tgt:
                    negs += 1
        if len(offs) != 2 or offs[0] != offs[1] or not isinstance(offs[0], int) or offs[0] < 0:
            raise core.AnchorMissing(f"flip_handedness: offsets of the two branches: {offs}")
        return [offs[0], 1 if neg_theta else 0, mirrors, negs]

    fl = A("flip_handedness:theta,z_dim,shift_z", flip) or [0, 0, 0, 0]

    def lst(xs):
        return core.lean_str_list(xs)

    def tuples(rows):
        return "[" + ", ".join("(" + ", ".join(core.lean_str(str(c)) if isinstance(c, str) else ("true" if c is True else "false" if c is False else str(c)) for c in r) + ")" for r in rows) + "]"

    return f"""-- GENERATED by harness/props/c05.py from {REL}; do not edit
namespace CryoCat.Gen.C05
def anchorsOk : Bool := {"true" if src.ok else "false"}
/-- get_coordinates: the columns whose values are added -/
def coordColumns : List String := {lst(cs[0])}
def shiftColumns : List String := {lst(cs[1])}
/-- update_coordinates: (target, summand 1, summand 2, rounding mode) of the three roundings -/
def updateRounded : List (String × String × String × String) := {tuples(up[0])}
/-- update_coordinates: (target, summand 1, summand 2, subtracted new column, subtracted from the new row) -/
def updateResidual : List (String × String × String × String × Bool) := {tuples(up[1])}
def scaleCoords : List String := {lst(sc[0])}
def scaleShiftPrefix : String := {core.lean_str(sc[1][0])}
/-- (call site, sequence, unit) of every from_euler / as_euler call -/
def eulerCalls : List (String × String × String) := {tuples(eu)}
/-- angle columns at: apply_rotation read, apply_rotation write, get_angles (2 branches), shift_coords -/
def angleColumns : List (List String) := [{", ".join(lst(a) for a in ac)}]
/-- apply_rotation forms `from_euler(angles) * rotation` (true) or `rotation * from_euler(angles)` (false) -/
def rotationOnRight : Bool := {"true" if side else "false"}
/-- shift_coords: (shift column, component of orientations.apply(shift)) -/
def shiftTargets : List (String × Nat) := {tuples(st_)}
/-- flip_handedness: z_dim = dim_z + flipOffset -/
def flipOffset : Nat := {fl[0]}
def flipNegatesTheta : Bool := {"true" if fl[1] else "false"}
/-- number of branches with `z = z_dim - z` / with `shift_z = -shift_z` -/
def flipMirrorBranches : Nat := {fl[2]}
def flipShiftBranches : Nat := {fl[3]}
end CryoCat.Gen.C05
"""


# ------------------------------------------------------------------ own rotation oracle (never scipy Euler code)
def _mm(a, b):
    return [[sum(a[i][k] * b[k][j] for k in range(3)) for j in range(3)] for i in range(3)]


def _mv(a, v):
    return [sum(a[i][k] * v[k] for k in range(3)) for i in range(3)]


def _rz(deg):
    t = math.radians(deg); c, s = math.cos(t), math.sin(t)
    return [[c, -s, 0.0], [s, c, 0.0], [0.0, 0.0, 1.0]]


def _rx(deg):
    t = math.radians(deg); c, s = math.cos(t), math.sin(t)
    return [[1.0, 0.0, 0.0], [0.0, c, -s], [0.0, s, c]]


def rot_zxz(phi, theta, psi):
    """scipy extrinsic 'zxz' of (phi, theta, psi) in degrees: Rz(psi) Rx(theta) Rz(phi), by elementary products"""
    return _mm(_rz(psi), _mm(_rx(theta), _rz(phi)))


MZ = [[1.0, 0.0, 0.0], [0.0, 1.0, 0.0], [0.0, 0.0, -1.0]]


def _maxdiff(a, b):
    return max(abs(a[i][j] - b[i][j]) for i in range(3) for j in range(3))


# ------------------------------------------------------------------ generators
GRID = 1024.0
TOMOS = [1.0, 2.0, 3.0, 7.0, 12.0]


def _dy(rng, lo, hi):
    return rng.randint(int(lo * GRID), int(hi * GRID)) / GRID


def _coord(rng, grid):
    k = rng.random()
    if k < 0.55:
        return float(rng.randint(-60, 900))
    if k < 0.8 or grid:
        return _dy(rng, -50, 900)
    return rng.uniform(-50, 900)


def _shift_val(rng, grid, c):
    k = rng.random()
    if k < 0.15:
        return 0.0
    if k < 0.35:  # exact half-integer complete position (tie), both signs
        n = rng.randint(-4, 4)
        sv = (math.floor(c) - c) + n + 0.5
        return sv if c + sv == math.floor(c) + n + 0.5 else n + 0.5
    if k < 0.45:
        return float(rng.randint(-3, 3))
    if k < 0.8 or grid:
        return _dy(rng, -4, 4)
    return rng.gauss(0, 1.5)


def _angle(rng, kind):
    k = rng.random()
    if kind == "theta":
        if k < 0.12:
            return rng.choice([0.0, 180.0])
        if k < 0.22:
            return rng.choice([90.0, -90.0, 45.0, 270.0, -180.0, 360.0])
        if k < 0.85:
            return rng.uniform(0.0, 180.0)
        return rng.uniform(-180.0, 360.0)
    if k < 0.12:
        return 0.0
    if k < 0.25:
        return rng.choice([90.0, -90.0, 180.0, 270.0, -180.0, 360.0, 450.0])
    if k < 0.85:
        return rng.uniform(-180.0, 180.0)
    return rng.uniform(-360.0, 720.0)


def _rows(rng, n, grid):
    pool = rng.sample(TOMOS, rng.randint(1, 3))
    rows = []
    for _ in range(n):
        c = [_coord(rng, grid) for _ in range(3)]
        s = [_shift_val(rng, grid, ci) for ci in c]
        rows.append(c + s + [_angle(rng, "phi"), _angle(rng, "theta"), _angle(rng, "psi"), rng.choice(pool)])
    return rows


def _gen_Q(rng):
    k = rng.random()
    if k < 0.08:
        ang = (0.0, 0.0, 0.0)
    elif k < 0.3:
        ang = tuple(rng.choice([0.0, 90.0, 180.0, -90.0]) for _ in range(3))
    else:
        ang = (rng.uniform(-180, 180), rng.uniform(0, 180), rng.uniform(-180, 180))
    q = rot_zxz(*ang)
    return dict(kind="rotate", q=[f2b(v) for r in q for v in r], angles=list(ang))


def _gen_dims(rng, rows, grid):
    tomos = sorted({r[9] for r in rows})
    k = rng.random()
    # dimensions are whole numbers of voxels; non-integer ones only where no text file is involved (pandas' default
    # float parser is not correctly rounded, which is no concern of this property)
    form1 = rng.choice(["list", "array", "df", "file"])
    formN = rng.choice(["array", "df", "file"])
    dimz = lambda form: float(rng.randint(100, 2000)) if (grid or form == "file" or rng.random() < 0.8) else rng.uniform(100, 2000)
    if k < 0.45:
        return dict(kind="flip", dims=dict(single=f2b(dimz(form1))), form=form1)
    if k < 0.5:
        return dict(kind="flip", dims=None, form="none")
    present = list(tomos)
    if rng.random() < 0.08 and len(present) > 1:
        present = present[:-1]  # a tomogram without dimensions: position stays, theta flips (model of the loop)
    extra = [t for t in TOMOS + [20.0, 31.0] if t not in tomos]
    present += rng.sample(extra, rng.randint(0 if present else 1, 2))
    rng.shuffle(present)
    return dict(kind="flip", dims=dict(table=[[f2b(t), f2b(dimz(formN))] for t in present]), form=formN)


def _gen_op(rng, rows, grid, kinds):
    kind = rng.choice(kinds)
    if kind == "update":
        return dict(kind="update")
    if kind == "scale":
        if grid or rng.random() < 0.6:
            f = rng.choice([0.5, 2.0, 0.25, 4.0, 1.5, 0.75, 1.0, 3.0, 0.125, 1.25])
        else:
            f = rng.uniform(0.1, 5.0)
        return dict(kind="scale", f=f2b(f))
    if kind == "shift":
        k = rng.random()
        if k < 0.08:
            v = [0.0, 0.0, 0.0]
        elif k < 0.5:
            v = [_dy(rng, -20, 20) for _ in range(3)]
        elif k < 0.65:
            v = [0.0, 0.0, 0.0]; v[rng.randrange(3)] = float(rng.randint(-10, 10))
        else:
            v = [rng.gauss(0, 8) for _ in range(3)]
        return dict(kind="shift", v=[f2b(x) for x in v], inplace=rng.random() < 0.8, as_list=rng.random() < 0.3)
    if kind == "rotate":
        return _gen_Q(rng)
    return _gen_dims(rng, rows, grid)


def _combine(a, b):
    """the single operation the property says two successive ones amount to (None for flip,flip = nothing)"""
    if a["kind"] == "shift":
        va, vb = [b2f(x) for x in a["v"]], [b2f(x) for x in b["v"]]
        return dict(kind="shift", v=[f2b(x + y) for x, y in zip(va, vb)], inplace=True, as_list=False)
    if a["kind"] == "rotate":
        qa = [[b2f(a["q"][3 * i + j]) for j in range(3)] for i in range(3)]
        qb = [[b2f(b["q"][3 * i + j]) for j in range(3)] for i in range(3)]
        return dict(kind="rotate", q=[f2b(v) for r in _mm(qa, qb) for v in r])
    return None


def generate(rng, tier, n):
    for t in range(n):
        grid = rng.random() < 0.4
        nrows = rng.randint(1, 8) if tier != "thorough" or rng.random() < 0.9 else rng.randint(9, 40)
        if rng.random() < 0.015:
            nrows = 0  # the empty list is a particle list too
        rows = _rows(rng, nrows, grid)
        maxops = 6 if (tier != "thorough" or rng.random() < 0.85) else 30
        compose = rng.random() < 0.4
        nops = rng.randint(0, maxops - 2) if compose else rng.randint(1, maxops)
        kinds = ["update", "scale", "flip", "rotate"] if grid else ["update", "scale", "shift", "rotate", "flip", "shift", "rotate", "flip"]
        ops = [_gen_op(rng, rows, grid, kinds) for _ in range(nops)]
        nscale = 0
        for i, o in enumerate(ops):  # keep the grid cases exactly representable: at most two scalings
            if o["kind"] == "scale":
                nscale += 1
                if grid and nscale > 2:
                    ops[i] = dict(kind="update")
        case = dict(rows=[[f2b(v) for v in r] for r in rows], ops=ops, index=rng.choice(["default", "default", "default", "sparse"]))
        if compose:  # a composition clause: (shift,shift) (rotate,rotate) (flip,flip) somewhere in the history
            kind = rng.choice(["flip", "rotate"] if grid else ["shift", "rotate", "flip"])
            a = _gen_op(rng, rows, grid, [kind])
            b = copy.deepcopy(a) if kind == "flip" else _gen_op(rng, rows, grid, [kind])
            at = rng.randint(0, len(ops))
            c = _combine(a, b)
            case["ops"] = ops[:at] + [a, b] + ops[at:]
            case["twin"] = dict(at=at, ops=ops[:at] + ([c] if c else []) + ops[at:], clause=kind + "-" + kind)
        yield case


def shrink(case):
    rows, ops = case["rows"], case["ops"]
    base = {k: v for k, v in case.items() if k != "twin"}
    if "twin" in case:
        yield base
    if len(rows) > 1:  # rows are independent of the history (and of its twin)
        for i in range(len(rows)):
            yield dict(case, rows=rows[:i] + rows[i + 1:])
    if len(ops) > 1:
        for i in range(len(ops)):
            yield dict(base, ops=ops[:i] + ops[i + 1:])
    if case.get("index") != "default":
        yield dict(case, index="default")
    # simpler numbers: integer coordinates, zero shifts, zero angles
    for i, r in enumerate(rows):
        vals = [b2f(b) for b in r]
        for j in range(9):
            simple = (float(round(vals[j])) if j < 3 else (0.0 if vals[j] != 0.0 else None))
            if simple is not None and simple != vals[j]:
                nr = list(r); nr[j] = f2b(simple)
                yield dict(case, rows=rows[:i] + [nr] + rows[i + 1:])


def sample_view(case):
    def opv(o):
        v = dict(kind=o["kind"])
        if "f" in o: v["f"] = b2f(o["f"])
        if "v" in o: v["v"] = [b2f(x) for x in o["v"]]
        if "q" in o: v["q"] = [round(b2f(x), 6) for x in o["q"]]
        if o["kind"] == "flip":
            d = o["dims"]
            v["dims"] = None if d is None else ({"single": b2f(d["single"])} if "single" in d else {"table": [[b2f(a), b2f(b)] for a, b in d["table"]]})
            v["form"] = o.get("form")
        return v
    return dict(rows=[[b2f(b) for b in r] for r in case["rows"]][:4], n_rows=len(case["rows"]), fields=FIELDS,
                ops=[opv(o) for o in case["ops"]][:8], n_ops=len(case["ops"]), twin=case.get("twin", {}).get("clause"), index=case.get("index"))


# ------------------------------------------------------------------ implementation
def _dims_obj(op, td):
    import numpy as np, pandas as pd, os
    d, form = op["dims"], op.get("form", "array")
    if d is None:
        return None
    if "single" in d:
        arr = [512.0, 480.0, b2f(d["single"])]
        if form == "list":
            return arr
        if form == "df":
            return pd.DataFrame([arr])
        if form == "file":
            p = os.path.join(td, "dims1.txt")
            with open(p, "w") as f:
                f.write(" ".join(repr(v) for v in arr) + "\n")
            return p
        return np.array(arr)
    tab = [[b2f(t), 512.0, 480.0, b2f(z)] for t, z in d["table"]]
    if form == "df":
        return pd.DataFrame(tab)
    if form == "file":
        p = os.path.join(td, "dimsN.txt")
        with open(p, "w") as f:
            for r in tab:
                f.write(" ".join(repr(v) for v in r) + "\n")
        return p
    return np.array(tab)


def _run_history(rows, ops, index, td):
    import numpy as np, pandas as pd, warnings
    from cryocat import cryomotl
    from scipy.spatial.transform import Rotation
    n = len(rows)
    data = {c: [0.0] * n for c in cryomotl.Motl.motl_columns}
    for i, r in enumerate(rows):
        for name, b in zip(FIELDS, r):
            data[name][i] = b2f(b)
        data["subtomo_id"][i] = float(i + 1)
        data["score"][i] = 0.125 * i
        data["object_id"][i] = 1.0
        data["class"][i] = 1.0
    df = pd.DataFrame(data, columns=cryomotl.Motl.motl_columns, dtype=float)
    if index == "sparse":
        df.index = [3 * i + 2 for i in reversed(range(n))]
    m = cryomotl.Motl(df)

    def snap():
        return dict(rows=[[f2b(v) for v in r] for r in m.df[FIELDS].to_numpy(dtype=float).tolist()],
                    coords=[[f2b(v) for v in r] for r in np.asarray(m.get_coordinates(), dtype=float).tolist()],
                    angles=[[f2b(v) for v in r] for r in np.asarray(m.get_angles(), dtype=float).tolist()],
                    ids=[int(v) for v in m.df["subtomo_id"].tolist()])

    states = [snap()]
    with warnings.catch_warnings():
        warnings.simplefilter("ignore")
        for op in ops:
            k = op["kind"]
            if k == "update":
                m.update_coordinates()
            elif k == "scale":
                m.scale_coordinates(b2f(op["f"]))
            elif k == "shift":
                v = [b2f(x) for x in op["v"]]
                v = v if op.get("as_list") else np.array(v)
                if op.get("inplace", True):
                    m.shift_positions(v)
                else:
                    m = m.shift_positions(v, inplace=False)
            elif k == "rotate":
                q = np.array([b2f(x) for x in op["q"]]).reshape(3, 3)
                m.apply_rotation(Rotation.from_matrix(q))
            elif k == "flip":
                m.flip_handedness(_dims_obj(op, td))
            else:
                raise ValueError("unknown op " + k)
            states.append(snap())
    return states


def run_impl(case):
    import tempfile
    with tempfile.TemporaryDirectory(prefix="c05_") as td:
        out = dict(states=_run_history(case["rows"], case["ops"], case.get("index", "default"), td))
        if "twin" in case:
            out["twin_final"] = _run_history(case["rows"], case["twin"]["ops"], case.get("index", "default"), td)[-1]
    return out


# ------------------------------------------------------------------ requests to the Lean driver
def _wire_op(o):
    return {k: o[k] for k in ("kind", "f", "v", "q", "dims") if k in o}


def _fr(b):
    return Fraction(b2f(b))


def _exact(x):
    """is the rational x a binary64 value?"""
    try:
        return Fraction(float(x)) == x
    except OverflowError:
        return False


def _dz_of(op, tomo_bits):
    d = op["dims"]
    if d is None:
        return None
    if "single" in d:
        return d["single"]
    for t, z in d["table"]:
        if b2f(t) == b2f(tomo_bits):
            return z
    return None


def _step_exact(op, before, after):
    """every intermediate of this step (and the complete positions before and after) is exactly representable,
    so float arithmetic = rational arithmetic and the exact Lean checker applies"""
    k = op["kind"]
    if k not in ("update", "scale", "flip"):
        return False
    for rb, ra in zip(before["rows"], after["rows"]):
        for j in range(3):
            x, s = _fr(rb[j]), _fr(rb[j + 3])
            if not _exact(x + s) or not _exact(_fr(ra[j]) + _fr(ra[j + 3])):
                return False
            if k == "scale":
                f = _fr(op["f"])
                if not (_exact(x * f) and _exact(s * f) and _exact((x + s) * f)):
                    return False
        if k == "flip":
            dz = _dz_of(op, rb[9])
            if dz is not None and not (_exact(_fr(dz) + 1) and _exact(_fr(dz) + 1 - _fr(rb[2])) and _exact(_fr(dz) + 1 - _fr(rb[2]) - _fr(rb[5]))):
                return False
    return True


def requests(case, obs):
    if "error" in obs:
        return []
    reqs = []
    st = obs["states"]
    for i, op in enumerate(case["ops"]):
        reqs.append(dict(op="step", rows=st[i]["rows"], **_wire_op(op)))
        if _step_exact(op, st[i], st[i + 1]):
            reqs.append(dict(op="check", before=st[i]["rows"], after=st[i + 1]["rows"], **_wire_op(op)))
    reqs.append(dict(op="history", rows=case["rows"], ops=[_wire_op(o) for o in case["ops"]]))
    return reqs


# ------------------------------------------------------------------ judge
def _vals(rows):
    return [[b2f(b) for b in r] for r in rows]


def _R(angles_row):
    return rot_zxz(angles_row[0], angles_row[1], angles_row[2])


def _pose_of_wire(p):
    v = [b2f(b) for b in p]
    return v[:3], [v[3:6], v[6:9], v[9:12]]


def _close(a, b, scale):
    return abs(a - b) <= TOL * (1.0 + scale)


def judge(case, obs, resps):
    out = []
    if "error" in obs:
        return [dict(kind="spec", clause="raises", detail=obs["error"] + " @" + obs.get("where", ""))]
    st = obs["states"]
    n = len(case["rows"])
    ri = 0
    dev = dict(pos=0.0, R=0.0, resid=0.0)
    for i, op in enumerate(case["ops"]):
        k = op["kind"]
        B, A = st[i], st[i + 1]
        step = resps[ri]; ri += 1
        chk = None
        if _step_exact(op, B, A):
            chk = resps[ri]; ri += 1
        tag = f"op {i} ({k})"
        if len(A["rows"]) != n or A["ids"] != B["ids"]:
            out.append(dict(kind="spec", clause="particles-kept-in-order", detail=f"{tag}: ids {B['ids']} -> {A['ids']}"))
            return out
        rb, ra = _vals(B["rows"]), _vals(A["rows"])
        cb, ca = _vals(B["coords"]), _vals(A["coords"])
        ab, aa = _vals(B["angles"]), _vals(A["angles"])
        for p in range(n):
            # the observables agree with the table: get_coordinates = x + shift, get_angles = phi theta psi
            if any(ca[p][j] != ra[p][j] + ra[p][j + 3] for j in range(3)) or aa[p] != ra[p][6:9]:
                out.append(dict(kind="spec", clause="complete-position-is-x-plus-shift", detail=f"{tag} particle {p}: get_coordinates {ca[p]} vs fields {ra[p][:6]}; get_angles {aa[p]} vs {ra[p][6:9]}"))
            Rb, Ra = _R(ab[p]), _R(aa[p])
            mag = max(abs(v) for v in ra[p][:6] + rb[p][:6])
            if k == "update":
                if ca[p] != cb[p]:
                    out.append(dict(kind="spec", clause="update-keeps-complete-position", detail=f"{tag} particle {p}: {cb[p]} -> {ca[p]}"))
                if any(ra[p][j] != math.floor(ra[p][j]) for j in range(3)):
                    out.append(dict(kind="spec", clause="update-makes-xyz-integers", detail=f"{tag} particle {p}: x,y,z = {ra[p][:3]}"))
                if any(abs(ra[p][j]) > 0.5 for j in (3, 4, 5)):
                    out.append(dict(kind="spec", clause="update-shift-at-most-half", detail=f"{tag} particle {p}: shifts = {ra[p][3:6]}"))
                if aa[p] != ab[p]:
                    out.append(dict(kind="spec", clause="update-keeps-orientation", detail=f"{tag} particle {p}: angles {ab[p]} -> {aa[p]}"))
            elif k == "scale":
                f = b2f(op["f"])
                if any(not _close(ca[p][j], f * cb[p][j], mag) for j in range(3)):
                    out.append(dict(kind="spec", clause="scale-multiplies-complete-position", detail=f"{tag} particle {p}: f={f}, {cb[p]} -> {ca[p]}"))
                if aa[p] != ab[p]:
                    out.append(dict(kind="spec", clause="scale-keeps-orientation", detail=f"{tag} particle {p}: angles {ab[p]} -> {aa[p]}"))
            elif k == "shift":
                s = [b2f(x) for x in op["v"]]
                want = [cb[p][j] + w for j, w in enumerate(_mv(Rb, s))]
                if any(not _close(ca[p][j], want[j], mag + max(abs(x) for x in s)) for j in range(3)):
                    out.append(dict(kind="spec", clause="shift-moves-by-own-orientation", detail=f"{tag} particle {p}: s={s}, angles={ab[p]}, {cb[p]} -> {ca[p]}, statement gives {want}"))
                if aa[p] != ab[p] or ra[p][:3] != rb[p][:3]:
                    out.append(dict(kind="spec", clause="shift-keeps-orientation-and-xyz", detail=f"{tag} particle {p}: angles {ab[p]} -> {aa[p]}, xyz {rb[p][:3]} -> {ra[p][:3]}"))
            elif k == "rotate":
                q = [[b2f(op["q"][3 * a + b]) for b in range(3)] for a in range(3)]
                d = _maxdiff(Ra, _mm(Rb, q))
                dev["R"] = max(dev["R"], d)
                if d > TOL:
                    out.append(dict(kind="spec", clause="rotate-gives-R-times-Q", detail=f"{tag} particle {p}: angles {ab[p]} -> {aa[p]}; |R_after - R*Q| = {d:.3g}, |R_after - Q*R| = {_maxdiff(Ra, _mm(q, Rb)):.3g}"))
                if ra[p][:6] != rb[p][:6]:
                    out.append(dict(kind="spec", clause="rotate-moves-nothing", detail=f"{tag} particle {p}: {rb[p][:6]} -> {ra[p][:6]}"))
            elif k == "flip":
                d = _maxdiff(Ra, _mm(MZ, _mm(Rb, MZ)))
                if d > TOL:
                    out.append(dict(kind="spec", clause="flip-conjugates-orientation-by-z-mirror", detail=f"{tag} particle {p}: angles {ab[p]} -> {aa[p]}; |R_after - Mz R Mz| = {d:.3g}"))
                dzb = _dz_of(op, B["rows"][p][9])
                if op["dims"] is not None and dzb is not None:
                    dz = b2f(dzb)
                    if ca[p][:2] != cb[p][:2] or not _close(ca[p][2], dz + 1 - cb[p][2], mag + dz):
                        out.append(dict(kind="spec", clause="flip-mirrors-complete-z", detail=f"{tag} particle {p}: dim_z={dz}, complete position {cb[p]} -> {ca[p]}, statement gives z = {dz + 1 - cb[p][2]}"))
                elif op["dims"] is None and ca[p] != cb[p]:
                    out.append(dict(kind="spec", clause="flip-without-dimensions-moves-nothing", detail=f"{tag} particle {p}: {cb[p]} -> {ca[p]}"))
        # flipping twice restores the list
        if k == "flip" and i >= 1 and case["ops"][i - 1]["kind"] == "flip" and case["ops"][i - 1]["dims"] == op["dims"]:
            r0 = _vals(st[i - 1]["rows"])
            for p in range(n):
                if any(not _close(ra[p][j], r0[p][j], abs(r0[p][j]) + 2000) for j in range(10)):
                    out.append(dict(kind="spec", clause="flip-twice-restores-the-list", detail=f"op {i-1},{i} particle {p}: {r0[p]} -> {ra[p]}"))
        # ---- verified checker (exact rationals) on the implementation's output
        if chk is not None:
            if "error" in chk:
                out.append(dict(kind="corr", clause="checker-error", detail=f"{tag}: {chk}"))
            elif not all(chk["ok"]):
                p = chk["ok"].index(False)
                out.append(dict(kind="spec", clause=f"lean-checker-rejects-{k}", detail=f"{tag} particle {p}: before {rb[p]} after {ra[p]}"))
        # ---- correspondence with the Lean model run on the same before-state
        if "error" in step:
            out.append(dict(kind="corr", clause="model-error", detail=f"{tag}: {step}")); continue
        mr = _vals(step["rows"])
        dev["resid"] = max(dev["resid"], b2f(step["resid"]))
        for p in range(n):
            if k in ("update", "scale", "flip"):
                if mr[p] != ra[p]:
                    out.append(dict(kind="corr", clause=f"{k}-fields-vs-model", detail=f"{tag} particle {p}: before {rb[p]}; code {ra[p]}; model {mr[p]}"))
            else:
                mp, mR = _pose_of_wire(step["pose"][p])
                same = [j for j in range(10) if (j not in (3, 4, 5) if k == "shift" else j not in (6, 7, 8))]
                if any(mr[p][j] != ra[p][j] for j in same):
                    out.append(dict(kind="corr", clause=f"{k}-untouched-fields-vs-model", detail=f"{tag} particle {p}: code {ra[p]}; model {mr[p]}"))
                mag = max(abs(v) for v in ra[p][:6]) + 50
                dp = max(abs(mp[j] - ca[p][j]) for j in range(3))
                dR = _maxdiff(mR, _R(aa[p]))
                dev["pos"] = max(dev["pos"], dp); dev["R"] = max(dev["R"], dR)
                if dp > TOL * (1 + mag) or dR > TOL:
                    out.append(dict(kind="corr", clause=f"{k}-pose-vs-model", detail=f"{tag} particle {p}: |pos diff| {dp:.3g}, |R diff| {dR:.3g}; code {ra[p]}; model {mr[p]}"))
                if k == "rotate" and b2f(step["resid"]) > TOL:
                    out.append(dict(kind="corr", clause="model-euler-service-residual", detail=f"{tag}: EulerOK residual of the driver's Float service {b2f(step['resid']):.3g}"))
    # ---- whole history: final pose vs. the specification folded over all operations (Lean specRun)
    hist = resps[ri]
    fin = st[-1]
    cf, af, rf = _vals(fin["coords"]), _vals(fin["angles"]), _vals(fin["rows"])
    if "error" in hist:
        out.append(dict(kind="corr", clause="model-error", detail=f"history: {hist}"))
    else:
        scale = 1.0
        for o in case["ops"]:
            if o["kind"] == "scale":
                scale *= max(1.0, abs(b2f(o["f"])))
        for p in range(n):
            for name in ("spec", "pose"):
                sp, sR = _pose_of_wire(hist[name][p])
                mag = (max(abs(v) for v in rf[p][:6]) + 2100) * scale
                dp = max(abs(sp[j] - cf[p][j]) for j in range(3))
                dR = _maxdiff(sR, _R(af[p]))
                dev["pos"] = max(dev["pos"], dp); dev["R"] = max(dev["R"], dR)
                if dp > 10 * TOL * (1 + mag) or dR > 10 * TOL:
                    out.append(dict(kind="corr", clause=f"history-final-pose-vs-{'specification' if name == 'spec' else 'model'}",
                                    detail=f"particle {p}: |pos diff| {dp:.3g}, |R diff| {dR:.3g}; code pos {cf[p]} angles {af[p]}; {name} pos {sp}"))
    # ---- composition clause stated directly on the real code: two calls = the one combined call
    if "twin" in case and "twin_final" in obs:
        tf = obs["twin_final"]
        ct, at_ = _vals(tf["coords"]), _vals(tf["angles"])
        scale = 1.0
        for o in case["ops"]:
            if o["kind"] == "scale":
                scale *= max(1.0, abs(b2f(o["f"])))
        for p in range(n):
            mag = (max(abs(v) for v in rf[p][:6]) + 2100) * scale
            dp = max(abs(ct[p][j] - cf[p][j]) for j in range(3))
            dR = _maxdiff(_R(at_[p]), _R(af[p]))
            if dp > 10 * TOL * (1 + mag) or dR > 10 * TOL:
                out.append(dict(kind="spec", clause="composition-" + case["twin"]["clause"],
                                detail=f"particle {p}: two successive calls at op {case['twin']['at']} give pos {cf[p]} angles {af[p]}; the single combined call gives pos {ct[p]} angles {at_[p]}"))
    obs["_dev"] = dev
    return out


def nontrivial(case, obs):
    if "error" in obs:
        return False
    kinds = {o["kind"] for o in case["ops"]}
    vals = _vals(case["rows"])
    return len(case["ops"]) >= 2 and len(kinds) >= 2 and any(r[3] != 0 or r[4] != 0 or r[5] != 0 for r in vals) and any(r[7] != 0 for r in vals)


def stats(case, obs, resps):
    vals = _vals(case["rows"])
    out = {"n_ops": len(case["ops"]) if len(case["ops"]) <= 6 else "7+", "n_rows": len(vals) if len(vals) <= 8 else "9+",
           "op": [o["kind"] for o in case["ops"]], "index": case.get("index", "default"),
           "twin": case.get("twin", {}).get("clause", "none")}
    out["flip_dims"] = [("none" if o["dims"] is None else ("single/" if "single" in o["dims"] else "table/") + o.get("form", "")) for o in case["ops"] if o["kind"] == "flip"]
    ties = sum(1 for r in vals for j in range(3) if (r[j] + r[j + 3]) * 2 == math.floor((r[j] + r[j + 3]) * 2) and (r[j] + r[j + 3]) != math.floor(r[j] + r[j + 3]))
    out["initial_half_integer_ties"] = "0" if ties == 0 else ("1-3" if ties <= 3 else "4+")
    out["negative_complete_coordinate"] = any(r[j] + r[j + 3] < 0 for r in vals for j in range(3))
    out["gimbal_theta"] = any(r[7] % 180.0 == 0 for r in vals)
    if "error" not in obs:
        st = obs["states"]
        out["lean_checker_steps"] = sum(1 for i, o in enumerate(case["ops"]) if _step_exact(o, st[i], st[i + 1]))
        upd_ties = 0
        for i, o in enumerate(case["ops"]):
            if o["kind"] == "update":
                for r in _vals(st[i]["rows"]):
                    upd_ties += sum(1 for j in range(3) if abs((r[j] + r[j + 3]) - math.floor(r[j] + r[j + 3]) - 0.5) == 0)
        out["ties_met_by_update"] = "0" if upd_ties == 0 else ("1-3" if upd_ties <= 3 else "4+")
        d = obs.get("_dev")
        if d:
            out["max_dev_pos"] = "<1e-12" if d["pos"] < 1e-12 else ("<1e-10" if d["pos"] < 1e-10 else "<1e-8" if d["pos"] < 1e-8 else ">=1e-8")
            out["max_dev_R"] = "<1e-14" if d["R"] < 1e-14 else ("<1e-12" if d["R"] < 1e-12 else "<1e-9" if d["R"] < 1e-9 else ">=1e-9")
            out["euler_service_residual"] = "<1e-14" if d["resid"] < 1e-14 else ("<1e-12" if d["resid"] < 1e-12 else ">=1e-12")
    return out


def classify(case, obs, finding):
    return None


def probes(rng):
    """the recorded scipy / decimal assumptions, probed directly"""
    import numpy as np, decimal, warnings
    from scipy.spatial.transform import Rotation
    out = []
    worst = 0.0; worst_rt = 0.0; worst_mul = 0.0
    with warnings.catch_warnings():
        warnings.simplefilter("ignore")
        for _ in range(200):
            a = [_angle(rng, "phi"), _angle(rng, "theta"), _angle(rng, "psi")]
            b = [_angle(rng, "phi"), _angle(rng, "theta"), _angle(rng, "psi")]
            ra, rb = Rotation.from_euler("zxz", a, degrees=True), Rotation.from_euler("zxz", b, degrees=True)
            worst = max(worst, _maxdiff(ra.as_matrix().tolist(), rot_zxz(*a)))
            worst_mul = max(worst_mul, _maxdiff((ra * rb).as_matrix().tolist(), _mm(rot_zxz(*a), rot_zxz(*b))))
            e = (ra * rb).as_euler("zxz", degrees=True)
            worst_rt = max(worst_rt, _maxdiff(rot_zxz(*e), (ra * rb).as_matrix().tolist()))
    out.append(dict(name="scipy from_euler('zxz',deg) = Rz(psi)Rx(theta)Rz(phi)", ok=worst < 1e-12, detail=f"max dev {worst:.2e} on 200 triples"))
    out.append(dict(name="scipy Rotation '*' = matrix product", ok=worst_mul < 1e-12, detail=f"max dev {worst_mul:.2e}"))
    out.append(dict(name="scipy as_euler reproduces the matrix (EulerOK), incl. gimbal lock", ok=worst_rt < 1e-9, detail=f"max dev {worst_rt:.2e}"))
    xs = [n + 0.5 for n in range(-6, 7)] + [rng.uniform(-50, 50) for _ in range(50)] + [0.49999999999999994, -0.49999999999999994, 2.5000000000000004]
    r = core.run_driver([dict(prop=PROP, op="round", xs=[f2b(x) for x in xs])])[0]
    py = [int(decimal.Decimal(x).to_integral_value(rounding=decimal.ROUND_HALF_UP)) for x in xs]
    out.append(dict(name="Decimal ROUND_HALF_UP = Lean roundHalfUp on the exact value", ok=r.get("r") == py, detail=f"{len(xs)} values incl. 13 ties and 3 near-ties"))
    return out


LEVEL_TEXT = ("Lean 4 theorems about an executable, number-type-polymorphic model of update_coordinates / scale_coordinates / shift_positions / "
              "apply_rotation / flip_handedness: each operation and, by induction, every history of any length acts on the pose (complete position x+shift, "
              "orientation matrix) exactly as the statement says (absPose_applyOpP, absPose_runOps), with update_spec (position kept, integers, |shift|<=1/2 "
              "for ROUND_HALF_UP incl. ties), shift_shift, rotate_rotate, flip_flip, update_idem and verified exact checkers; tied to the source by regenerated "
              "anchors (x+shift columns, rounding mode, scale loop, Euler sequence/units, R*Q order, flip offset and both flip branches) and by a per-operation "
              "differential run of the real code against the model and against the statement")
LEVEL_NOTE = ("the scipy services are hypotheses of the theorems, not proved: cos even/sin odd (CsOdd) and, for apply_rotation only, that as_euler's triple "
              "reproduces the product matrix (EulerOK, per matrix); both are probed numerically each run; float round-off is outside the proofs (exact steps are "
              "compared bit-exactly / by the exact Lean checker, trigonometric steps within 1e-9)")
TECHNIQUE = "Lean 4 proof (ring identities over any commutative ring, Mz conjugation, induction over histories, Rat floor rounding) + regenerated anchors + per-step differential correspondence"
DESIGN_REF = "DESIGN.md section 4, C05"
