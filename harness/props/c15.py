"""C15 — tilt-stack operations are lossless selections/permutations of tilt images (DESIGN.md section 4, C15)."""
import os, io, ast, struct, tempfile, contextlib, math
from fractions import Fraction
import numpy as np
import core
from core import f2b, b2f

PROP = "C15"
COUNT = {"quick": 240, "thorough": 6000, "search": 1200}
PARALLEL = True
RULE = ("one case = one operation (sort_tilts_by_angle / remove_tilts / split_stack_even_odd / flip_along_axes / crop / bin) on a stack "
        "of n in 2..25 tilts with independent height and width in 4..40, dtype float32 or int16, voxel values from an injective affine "
        "sequence (so that every transposition, swap or dropped image is visible); the real function is run in all 16 configurations "
        "{array x,y,n | array n,y,x | MRC file (input_order ignored, both values)} x output_order {xyz,zyx} x output file {on,off}; every "
        "written file is re-read by the harness's own MRC parser; one configuration per case (drawn at random) is also executed by the Lean "
        "model. Angles are distinct (no ties), index subsets arbitrary non-empty (1-/0-based, any order), ~6% of the cases carry an argument "
        "the code must refuse. non-trivial = no rejection, height != width, n >= 3 and the result differs from the input; distinct = distinct case content")
ASSUMPTIONS = [
    "numpy basic/fancy indexing, np.delete, np.stack, transpose(2,1,0) and astype to the same dtype copy voxels bit for bit",
    "skimage.transform.downscale_local_mean(data,(1,b,b)) = mean over b x b blocks after zero padding to a multiple of b (probed every run)",
    "block sums of the generated binning inputs (|numerator| <= 2000, denominators 1,2,4, b <= 5) are exact in float32/float64; the quotient is "
    "correctly rounded; astype(int16) truncates toward zero (the judge accepts either integer neighbour of the block mean for int16)",
    "mrcfile writes exactly the header dimensions/mode and C-order bytes it is given and returns a 3-D array for nz >= 2 (output files are re-read "
    "by the harness's own parser; the parser is cross-checked against mrcfile by a probe on every run)",
]
TRUSTED = ["harness MRC parser (props/c15.py parse_mrc)", "mrcfile (only to create the *input* files; checked by the parser probe)"]
REL = "cryocat/tiltstack.py"
REL_IO = "cryocat/ioutils.py"
OPS = ["sort", "remove", "split", "flip", "crop", "bin"]
INPUTS = ["arr_xyz", "arr_zyx", "file_xyz", "file_zyx"]   # file_<o>: MRC path, input_order=<o> (documented as irrelevant)


# ------------------------------------------------------------------ translator (pure ast)
def _assign(src, fn, target):
    """normalised right-hand side of the unique assignment `target = ...` in fn"""
    hits = [n for n in ast.walk(fn) if isinstance(n, ast.Assign) and len(n.targets) == 1 and core.norm_expr(n.targets[0]) == target]
    if len(hits) != 1:
        raise core.AnchorMissing(f"{fn.name}: expected exactly one assignment to {target}, found {len(hits)}")
    return core.norm_expr(hits[0].value)


def _transpose_axes(call):
    if not (isinstance(call, ast.Call) and isinstance(call.func, ast.Attribute) and call.func.attr == "transpose"):
        raise core.AnchorMissing("not a .transpose(...) call: " + ast.unparse(call)[:60])
    return [int(ast.literal_eval(a)) for a in call.args]


def _kw_false(fn, callee):
    for n in ast.walk(fn):
        if isinstance(n, ast.Call) and core.norm_expr(n.func) == callee:
            for k in n.keywords:
                if k.arg == "transpose":
                    return bool(ast.literal_eval(k.value))
            return True  # cryomap default is transpose=True
    raise core.AnchorMissing(f"{fn.name}: no call of {callee}")


def translate(src):
    A = src.anchor

    def flip_table():
        fn = src.find(REL, "flip_along_axes")
        loop = [n for n in ast.walk(fn) if isinstance(n, ast.For)]
        if len(loop) != 1:
            raise core.AnchorMissing("flip_along_axes: for-loop over axes")
        node, table = loop[0].body[0], []
        while isinstance(node, ast.If):
            t = node.test
            if not (isinstance(t, ast.Compare) and len(t.ops) == 1 and isinstance(t.ops[0], ast.Eq) and isinstance(t.comparators[0], ast.Constant)):
                raise core.AnchorMissing("flip_along_axes: branch test " + ast.unparse(t))
            st = node.body[0]
            if not (len(node.body) == 1 and isinstance(st, ast.Assign) and core.norm_expr(st.targets[0]) == "ts.data"
                    and isinstance(st.value, ast.Subscript) and core.norm_expr(st.value.value) == "ts.data" and isinstance(st.value.slice, ast.Tuple)):
                raise core.AnchorMissing("flip_along_axes: branch body " + ast.unparse(st)[:60])
            rev = []
            for k, s in enumerate(st.value.slice.elts):
                if not (isinstance(s, ast.Slice) and s.lower is None and s.upper is None):
                    raise core.AnchorMissing("flip_along_axes: slice " + ast.unparse(st))
                if s.step is not None:
                    if core.norm_expr(s.step) != "-1":
                        raise core.AnchorMissing("flip_along_axes: step " + ast.unparse(st))
                    rev.append(k)
            if len(rev) != 1 or len(st.value.slice.elts) != 3:
                raise core.AnchorMissing("flip_along_axes: exactly one reversed axis expected in " + ast.unparse(st))
            table.append([str(t.comparators[0].value), rev[0]])
            node = node.orelse[0] if len(node.orelse) == 1 else None
        return table

    def index_shift():
        fn = src.find(REL_IO, "indices_load")
        for n in fn.body:
            if isinstance(n, ast.If) and isinstance(n.test, ast.Name):
                st = n.body[0]
                if isinstance(st, ast.Assign) and isinstance(st.value, ast.BinOp) and isinstance(st.value.right, ast.Constant) \
                        and core.norm_expr(st.value.left) == core.norm_expr(st.targets[0]) == "indices":
                    c = int(st.value.right.value)
                    if isinstance(st.value.op, ast.Sub):
                        return [n.test.id, c]
                    if isinstance(st.value.op, ast.Add):
                        return [n.test.id, -c]
        raise core.AnchorMissing("indices_load: `if numbered_from_1: indices = indices - 1`")

    def even_rule():
        fn = src.find(REL, "split_stack_even_odd")
        for n in ast.walk(fn):
            if isinstance(n, ast.If) and isinstance(n.test, ast.Compare) and isinstance(n.test.left, ast.BinOp) and isinstance(n.test.left.op, ast.Mod):
                t = n.test
                if core.norm_expr(t.left) == "i%2" and isinstance(t.ops[0], ast.Eq) and isinstance(t.comparators[0], ast.Constant):
                    body = core.norm_expr(n.body[0].value) if isinstance(n.body[0], ast.Expr) else ""
                    orelse = core.norm_expr(n.orelse[0].value) if n.orelse and isinstance(n.orelse[0], ast.Expr) else ""
                    if body == "even_stack.append(ts.data[i,:,:])" and orelse == "odd_stack.append(ts.data[i,:,:])":
                        return [int(t.comparators[0].value), "even_stack"]
                    if body == "odd_stack.append(ts.data[i,:,:])" and orelse == "even_stack.append(ts.data[i,:,:])":
                        return [1 - int(t.comparators[0].value), "even_stack"]
        raise core.AnchorMissing("split_stack_even_odd: `if i % 2 == 0: even_stack.append(ts.data[i,:,:]) else: odd_stack.append(...)`")

    def init_transpose():
        fn = src.find(REL, "TiltStack.__init__")
        hits = []
        for n in ast.walk(fn):
            if isinstance(n, ast.If) and len(n.body) == 1 and isinstance(n.body[0], ast.Assign) and core.norm_expr(n.body[0].targets[0]) == "self.data" \
                    and isinstance(n.body[0].value, ast.Call) and core.norm_expr(n.body[0].value.func) == "self.data.transpose":
                hits.append(n)
        if len(hits) != 1:
            raise core.AnchorMissing("TiltStack.__init__: `if input_order == 'xyz': self.data = self.data.transpose(...)`")
        return [_transpose_axes(hits[0].body[0].value), core.norm_expr(hits[0].test)]

    def out_transpose():
        fn = src.find(REL, "TiltStack.correct_order")
        for n in ast.walk(fn):
            if isinstance(n, ast.If) and isinstance(n.body[0], ast.Return) and isinstance(n.body[0].value, ast.Call) \
                    and core.norm_expr(n.body[0].value.func) == "return_data.transpose":
                if not (n.orelse and isinstance(n.orelse[0], ast.Return) and core.norm_expr(n.orelse[0].value) == "return_data"):
                    raise core.AnchorMissing("TiltStack.correct_order: else branch is not `return return_data`")
                return [_transpose_axes(n.body[0].value), core.norm_expr(n.test)]
        raise core.AnchorMissing("TiltStack.correct_order: `if self.current_order != self.output_order: return return_data.transpose(...)`")

    def shape_unpack():
        fn = src.find(REL, "TiltStack.__init__")
        for n in ast.walk(fn):
            if isinstance(n, ast.Assign) and isinstance(n.targets[0], ast.Tuple) and core.norm_expr(n.value) == "self.data.shape":
                return [core.norm_expr(e).replace("self.", "") for e in n.targets[0].elts]
        raise core.AnchorMissing("TiltStack.__init__: `self.n_tilts, self.height, self.width = self.data.shape`")

    def crop_exprs():
        fn = src.find(REL, "crop")
        return [[t, _assign(src, fn, t)] for t in ["(center_w,center_h)", "start_w", "end_w", "start_h", "end_h", "ts.data"]]

    def crop_guards():
        fn = src.find(REL, "crop")
        out = []
        for n in ast.walk(fn):
            if isinstance(n, ast.If) and isinstance(n.test, ast.Compare) and isinstance(n.body[0], ast.Raise):
                out.append(core.norm_expr(n.test))
        return out

    def exprs_of(name, targets):
        fn = src.find(REL, name)
        return [[t, _assign(src, fn, t)] for t in targets]

    def remove_guard():
        fn = src.find(REL, "remove_tilts")
        for n in ast.walk(fn):
            if isinstance(n, ast.If) and isinstance(n.body[0], ast.Raise):
                return core.norm_expr(n.test)
        raise core.AnchorMissing("remove_tilts: bounds check")

    def split_out():
        fn = src.find(REL, "split_stack_even_odd")
        suffixes, ret = [], None
        for n in ast.walk(fn):
            if isinstance(n, ast.Call) and core.norm_expr(n.func) == "ts.write_out" and isinstance(n.args[0], ast.BinOp):
                suffixes.append([str(n.args[0].right.value), core.norm_expr(n.keywords[0].value) if n.keywords else ""])
            if isinstance(n, ast.Return) and n.value is not None:
                ret = core.norm_expr(n.value)
        if ret is None or len(suffixes) != 2:
            raise core.AnchorMissing("split_stack_even_odd: two write_out calls and a return")
        return [suffixes, ret]

    flip = A("flip_along_axes:axis-table", flip_table) or []
    shift = A("indices_load:numbered_from_1-shift", index_shift) or ["", 0]
    even = A("split_stack_even_odd:i%2-rule", even_rule) or [9, ""]
    tin = A("TiltStack.__init__:input-transpose", init_transpose) or [[], ""]
    cur = A("TiltStack.__init__:current_order", lambda: ast.literal_eval(_assign_node(src.find(REL, "TiltStack.__init__"), "self.current_order"))) or ""
    rdt = A("TiltStack.__init__:cryomap.read(transpose=)", lambda: _kw_false(src.find(REL, "TiltStack.__init__"), "cryomap.read"))
    wrt = A("TiltStack.write_out:cryomap.write(transpose=)", lambda: _kw_false(src.find(REL, "TiltStack.write_out"), "cryomap.write"))
    tout = A("TiltStack.correct_order:output-transpose", out_transpose) or [[], ""]
    unpack = A("TiltStack.__init__:shape-unpack", shape_unpack) or []
    cexp = A("crop:window-expressions", crop_exprs) or []
    cgd = A("crop:guards", crop_guards) or []
    sexp = A("sort_tilts_by_angle:expressions", lambda: exprs_of("sort_tilts_by_angle", ["tilt_angles", "sorted_indices", "ts.data"])) or []
    rexp = A("remove_tilts:expressions", lambda: exprs_of("remove_tilts", ["idx_to_remove_final", "max_index", "ts.data"])) or []
    rgd = A("remove_tilts:bounds-guard", remove_guard) or ""
    bexp = A("bin:expression", lambda: _assign(src, src.find(REL, "bin"), "ts.data")) or ""
    spl = A("split_stack_even_odd:outputs", split_out) or [[], ""]

    def pairs(xs):
        return "[" + ", ".join(f"({core.lean_str(str(a))}, {core.lean_str(str(b))})" for a, b in xs) + "]"

    def nats(xs):
        return "[" + ", ".join(str(int(x)) for x in xs) + "]"

    rd = "true" if (rdt is None or rdt) else "false"
    wr = "true" if (wrt is None or wrt) else "false"
    return f"""-- GENERATED by harness/props/c15.py from {REL}, {REL_IO}; do not edit
namespace CryoCat.Gen.C15
def anchorsOk : Bool := {"true" if src.ok else "false"}
def flipTable : List (String × Nat) := [{", ".join(f"({core.lean_str(a)}, {int(k)})" for a, k in flip)}]
def indexShift : Int := {int(shift[1])}
def indexShiftGuard : String := {core.lean_str(str(shift[0]))}
def evenRemainder : Nat := {int(even[0])}
def evenBranch : String := {core.lean_str(str(even[1]))}
def inTransposeAxes : List Nat := {nats(tin[0])}
def outTransposeAxes : List Nat := {nats(tout[0])}
def inTransposeWhen : String := {core.lean_str(tin[1])}
def currentOrder : String := {core.lean_str(str(cur))}
def outTransposeWhen : String := {core.lean_str(tout[1])}
def readTranspose : Bool := {rd}
def writeTranspose : Bool := {wr}
def shapeUnpack : List String := {core.lean_str_list(unpack)}
def cropExprs : List (String × String) := {pairs(cexp)}
def cropGuards : List String := {core.lean_str_list(cgd)}
def sortExprs : List (String × String) := {pairs(sexp)}
def removeExprs : List (String × String) := {pairs(rexp)}
def removeGuard : String := {core.lean_str(rgd)}
def binExpr : String := {core.lean_str(bexp)}
def splitWrites : List (String × String) := {pairs(spl[0])}
def splitReturn : String := {core.lean_str(spl[1])}
end CryoCat.Gen.C15
"""


def _assign_node(fn, target):
    hits = [n for n in ast.walk(fn) if isinstance(n, ast.Assign) and len(n.targets) == 1 and core.norm_expr(n.targets[0]) == target]
    if len(hits) != 1:
        raise core.AnchorMissing(f"{fn.name}: expected exactly one assignment to {target}, found {len(hits)}")
    return hits[0].value


# ------------------------------------------------------------------ independent MRC parser
MODES = {0: ("i1", 1), 1: ("<i2", 2), 2: ("<f4", 4), 6: ("<u2", 2), 12: ("<f2", 2)}


def parse_mrc(path):
    raw = open(path, "rb").read()
    if len(raw) < 1024:
        return dict(ok=False, why=f"file of {len(raw)} bytes has no 1024-byte header")
    nx, ny, nz, mode = struct.unpack("<4i", raw[0:16])
    mapc, mapr, maps = struct.unpack("<3i", raw[64:76])
    nsymbt = struct.unpack("<i", raw[92:96])[0]
    stamp = raw[212:214]
    if mode not in MODES:
        return dict(ok=False, why=f"mode {mode}", dims=[nx, ny, nz], mode=mode)
    dt, size = MODES[mode]
    payload = raw[1024 + nsymbt:]
    n = nx * ny * nz
    size_ok = len(payload) == n * size and stamp[:1] == b"\x44"      # little-endian machine stamp
    if mode == 2:
        codes = np.frombuffer(payload[: (len(payload) // 4) * 4], dtype="<u4").astype(np.int64)
    else:
        codes = np.frombuffer(payload[: (len(payload) // size) * size], dtype=dt).astype(np.int64)
    return dict(ok=bool(size_ok) and (mapc, mapr, maps) == (1, 2, 3), why="" if size_ok else "payload size / machine stamp",
                dims=[nx, ny, nz], mode=mode, axes=[mapc, mapr, maps], codes=codes)


# ------------------------------------------------------------------ case content
def values(case):
    """voxel codes of the input stack, flat in n,y,x (C) order: int16 values, or float32 bit patterns"""
    n, h, w = case["n"], case["h"], case["w"]
    size = n * h * w
    a, c = case["va"] | 1, case["vc"]
    k = np.arange(size, dtype=np.int64)
    if case["op"] == "bin":   # small numerators over a power-of-two denominator: every block sum is exact
        num = (k * a + c) % 4001 - 2000
        if case["dtype"] == "i16":
            return num
        return (num.astype(np.float64) / case["den"]).astype(np.float32).view(np.uint32).astype(np.int64)
    if case["dtype"] == "i16":
        return (k * a + c) % 65536 - 32768
    bits = (k * a + c) % (1 << 32)
    return bits & ~np.int64(1 << 23)   # exponent never 255: finite values, +-0 and subnormals included


def numerators(case):
    n, h, w = case["n"], case["h"], case["w"]
    k = np.arange(n * h * w, dtype=np.int64)
    return (k * (case["va"] | 1) + case["vc"]) % 4001 - 2000


def stack_of(case):
    codes = values(case).reshape(case["n"], case["h"], case["w"])
    if case["dtype"] == "i16":
        return codes.astype(np.int16)
    return codes.astype(np.uint32).view(np.float32)


def codes_of(arr, dtype):
    """canonical integer codes of an array the implementation returned"""
    arr = np.ascontiguousarray(arr)
    if dtype == "i16":
        if arr.dtype.kind in "iu":
            return arr.astype(np.int64)
        return np.where(np.isfinite(arr) & (arr == np.round(arr)), arr, 1 << 40).astype(np.int64)
    return arr.astype(np.float32).view(np.uint32).astype(np.int64)


# ------------------------------------------------------------------ generators
def _new_case(rng, op, tier):
    big = rng.random() < (0.25 if tier != "search" else 0.05)
    n = rng.randint(2, 25 if big else 8)
    hi = 40 if big else (16 if tier != "search" else 9)
    h = rng.randint(4, hi)
    w = rng.randint(4, hi)
    if h == w and rng.random() < 0.9:
        w = w + 1 if w < 40 else w - 1
    case = dict(op=op, n=n, h=h, w=w, dtype=rng.choice(["f32", "i16"]), va=rng.randrange(1, 1 << 16), vc=rng.randrange(0, 1 << 16),
                cfg=[rng.choice(INPUTS), rng.choice(["xyz", "zyx"]), rng.random() < 0.5], view=rng.random() < 0.5, as_array=rng.random() < 0.5)
    bad = rng.random() < 0.08
    if op == "sort":
        grid = rng.choice([1, 2, 4, 8])
        pool = rng.sample(range(-70 * grid, 70 * grid + 1), n)       # distinct: no ties
        case["angles"] = [f2b(p / grid) for p in pool]
        if rng.random() < 0.1:
            case["angles"] = sorted(case["angles"], key=b2f, reverse=rng.random() < 0.5)
    elif op == "remove":
        base1 = rng.random() < 0.5
        b = 1 if base1 else 0
        k = n if rng.random() < 0.05 else rng.randint(1, max(1, n - 1))
        idxs = [i + b for i in rng.sample(range(n), k)]
        if rng.random() < 0.05:
            idxs.append(rng.choice(idxs))
        if bad:
            r = rng.random()
            if r < 0.3:
                idxs = []
            elif r < 0.65:
                idxs.insert(rng.randrange(len(idxs) + 1), n + b)      # one past the last image
            else:
                idxs.insert(rng.randrange(len(idxs) + 1), b - 1)      # one before the first image
        case.update(idxs=idxs, base1=base1)
    elif op == "flip":
        r = rng.random()
        if r < 0.45:
            axes = rng.choice(["x", "y", "z"])
        else:
            axes = [rng.choice(["x", "y", "z"]) for _ in range(rng.randint(1, 3))]
        if bad:
            axes = (axes if isinstance(axes, list) else [axes]) + [rng.choice(["w", "X", "xy", ""])]
        case["axes"] = axes
    elif op == "crop":
        nw = None if rng.random() < 0.15 else rng.randint(1, w)
        nh = None if rng.random() < 0.15 else rng.randint(1, h)
        if bad:
            if rng.random() < 0.5:
                nw = w + rng.randint(1, 3)
            else:
                nh = h + rng.randint(1, 3)
            if rng.random() < 0.3:
                nw, nh = w + 1, h + 1
        case.update(new_w=nw, new_h=nh)
    elif op == "bin":
        b = rng.choice([1, 2, 2, 2, 3, 3, 4, 5])
        if rng.random() < 0.6:
            fit = lambda s: (s // b) * b if (s // b) * b >= 4 else b * -(-4 // b)
            case["h"], case["w"] = fit(h), fit(w)
        case.update(b=b, den=rng.choice([1, 2, 4]) if case["dtype"] == "f32" else 1)
    return case


def generate(rng, tier, n):
    for t in range(n):
        yield _new_case(rng, OPS[t % len(OPS)] if rng.random() < 0.8 else rng.choice(OPS), tier)


def _resize(case, n=None, h=None, w=None):
    c = dict(case)
    n = c["n"] if n is None else n
    h = c["h"] if h is None else h
    w = c["w"] if w is None else w
    if n < 2 or h < 4 or w < 4 or (n, h, w) == (c["n"], c["h"], c["w"]):
        return None
    b = 1 if c.get("base1") else 0
    if c["op"] == "sort":
        c["angles"] = c["angles"][:n]
    if c["op"] == "remove":
        keep = [i for i in c["idxs"] if i - b < n or i - b == c["n"]]
        keep = [i if i - b < n else n + b for i in keep]
        if not keep and c["idxs"]:
            keep = [b]
        c["idxs"] = keep
    if c["op"] == "crop":
        if c["new_w"] is not None:
            c["new_w"] = min(c["new_w"], w) if c["new_w"] <= c["w"] else w + (c["new_w"] - c["w"])
        if c["new_h"] is not None:
            c["new_h"] = min(c["new_h"], h) if c["new_h"] <= c["h"] else h + (c["new_h"] - c["h"])
    c.update(n=n, h=h, w=w)
    return c


def shrink(case):
    for kw in (dict(n=2), dict(n=3), dict(n=case["n"] // 2), dict(n=case["n"] - 1),
               dict(h=4), dict(w=5), dict(h=case["h"] // 2), dict(w=case["w"] // 2), dict(h=case["h"] - 1), dict(w=case["w"] - 1)):
        c = _resize(case, **kw)
        if c is not None:
            yield c
    if case["op"] == "remove" and len(case["idxs"]) > 1:
        for i in range(len(case["idxs"])):
            yield dict(case, idxs=case["idxs"][:i] + case["idxs"][i + 1:])
    if case["op"] == "flip" and isinstance(case["axes"], list) and len(case["axes"]) > 1:
        for i in range(len(case["axes"])):
            yield dict(case, axes=case["axes"][:i] + case["axes"][i + 1:])
    if case["op"] == "bin" and case.get("den", 1) != 1:
        yield dict(case, den=1)
    if (case["va"], case["vc"]) != (1, 0):
        yield dict(case, va=1, vc=0)


# ------------------------------------------------------------------ implementation
def _err_kind(e):
    s = str(e)
    if isinstance(e, ValueError) and "new_width cannot" in s: return "crop-width"
    if isinstance(e, ValueError) and "new_height cannot" in s: return "crop-height"
    if isinstance(e, IndexError) and "exceed bounds" in s: return "index"
    if isinstance(e, ValueError) and "can't be empty" in s: return "empty-indices"
    if isinstance(e, ValueError) and "only 1 tilt" in s: return "single-tilt"
    if isinstance(e, ValueError) and "axes can be" in s: return "axis"
    return f"other:{type(e).__name__}: {s[:160]}"


def _call(tiltstack, case, stack_arg, in_order, out_order, out_path):
    """one call of the real function; returns the list of returned arrays and the list of files it should have written"""
    op = case["op"]
    kw = dict(input_order=in_order, output_order=out_order)
    with contextlib.redirect_stdout(io.StringIO()):
        if op == "sort":
            ang = [b2f(a) for a in case["angles"]]
            r = tiltstack.sort_tilts_by_angle(stack_arg, np.array(ang) if case["as_array"] else ang, output_file=out_path, **kw)
        elif op == "remove":
            idx = np.array(case["idxs"], dtype=int) if case["as_array"] else list(case["idxs"])
            r = tiltstack.remove_tilts(stack_arg, idx, numbered_from_1=case["base1"], output_file=out_path, **kw)
        elif op == "split":
            prefix = out_path[:-4] if out_path else None
            r = tiltstack.split_stack_even_odd(stack_arg, output_file_prefix=prefix, **kw)
            return list(r), ([prefix + "_even.mrc", prefix + "_odd.mrc"] if prefix else [])
        elif op == "flip":
            r = tiltstack.flip_along_axes(stack_arg, case["axes"], output_file=out_path, **kw)
        elif op == "crop":
            r = tiltstack.crop(stack_arg, new_width=case["new_w"], new_height=case["new_h"], output_file=out_path, **kw)
        elif op == "bin":
            r = tiltstack.bin(stack_arg, case["b"] if case["as_array"] else str(case["b"]), output_file=out_path, **kw)
        else:
            raise ValueError(op)
    return [r], ([out_path] if out_path else [])


def run_impl(case):
    import mrcfile
    from cryocat import tiltstack
    X = stack_of(case)                                # n,y,x
    dtype = case["dtype"]
    Xc = codes_of(X, dtype)
    xyz = X.transpose(2, 1, 0) if case["view"] else np.ascontiguousarray(X.transpose(2, 1, 0))
    obs = dict(configs=[], ref=None)
    ref_cfg = list(case["cfg"])
    norm0 = None
    with tempfile.TemporaryDirectory(prefix="c15_") as td:
        in_path = os.path.join(td, "input.mrc")
        with mrcfile.new(in_path, overwrite=True) as m:
            m.set_data(np.ascontiguousarray(X))
        p = parse_mrc(in_path)
        obs["input_file_ok"] = bool(p["ok"] and p["dims"] == [case["w"], case["h"], case["n"]] and np.array_equal(p["codes"], Xc.ravel()))
        configs = [ref_cfg] + [[i, o, wr] for i in INPUTS for o in ("xyz", "zyx") for wr in (True, False) if [i, o, wr] != ref_cfg]
        for ci, (inp, out, wr) in enumerate(configs):
            arg = {"arr_xyz": xyz, "arr_zyx": X, "file_xyz": in_path, "file_zyx": in_path}[inp]
            in_order = inp[-3:]
            out_path = os.path.join(td, f"out{ci}.mrc") if wr else None
            before = codes_of(arg, dtype).copy() if not isinstance(arg, str) else None
            rec = dict(cfg=[inp, out, wr])
            try:
                rets, paths = _call(tiltstack, case, arg, in_order, out, out_path)
            except Exception as e:
                rec["error"] = _err_kind(e)
                if ci == 0:
                    obs["ref"] = dict(error=rec["error"])
                else:
                    rec["same"] = obs["ref"].get("error") == rec["error"]
                    rec["detail"] = f"raises {rec['error']}"
                rec["files_left"] = sorted(f for f in os.listdir(td) if f.startswith(f"out{ci}"))
                obs["configs"].append(rec)
                continue
            if before is not None and not np.array_equal(before, codes_of(arg, dtype)):
                rec["mutated_input"] = True
            norm = [codes_of(r if out == "zyx" else np.transpose(r, (2, 1, 0)), dtype) for r in rets]
            files = [parse_mrc(pth) if os.path.exists(pth) else dict(ok=False, why="file not written") for pth in paths]
            fdetail = ""
            for k, f in enumerate(files):
                want_mode = 1 if dtype == "i16" else 2
                if not f["ok"]:
                    fdetail = f"output file {k}: {f['why']}"
                elif f["dims"] != list(norm[k].shape[::-1]):
                    fdetail = f"output file {k}: header nx,ny,nz={f['dims']} but the returned stack is (x,y,n)={list(norm[k].shape[::-1])}"
                elif f["mode"] != want_mode:
                    fdetail = f"output file {k}: mode {f['mode']} for a {dtype} stack"
                elif not np.array_equal(f["codes"], norm[k].ravel()):
                    j = int(np.flatnonzero(f["codes"] != norm[k].ravel())[0])
                    fdetail = f"output file {k}: voxel #{j} (x fastest) differs from the returned stack"
                if fdetail:
                    break
            rec["file_detail"] = fdetail
            rec["dtypes"] = [str(r.dtype) for r in rets]
            if ci == 0:
                norm0 = norm
                obs["ref"] = dict(returned=[dict(shape=list(r.shape), data=codes_of(r, dtype).ravel().tolist()) for r in rets],
                                  written=[dict(dims=f.get("dims"), mode=f.get("mode"), data=f["codes"].tolist() if "codes" in f else None) for f in files],
                                  dtypes=rec["dtypes"])
                if case["op"] == "flip":
                    # the statement "flipping along an axis twice is the identity": feed the result back, same arguments
                    again, _ = _call(tiltstack, case, rets[0], out, out, None)
                    back = codes_of(again[0] if out == "zyx" else np.transpose(again[0], (2, 1, 0)), dtype)
                    obs["twice_identity"] = bool(back.shape == Xc.shape and np.array_equal(back, Xc))
            else:
                if "error" in obs["ref"]:
                    rec["same"], rec["detail"] = False, f"returns although the reference configuration raises {obs['ref']['error']}"
                else:
                    same = len(norm) == len(norm0) and all(a.shape == b.shape and np.array_equal(a, b) for a, b in zip(norm, norm0))
                    rec["same"] = bool(same)
                    if not same:
                        rec["detail"] = "shapes " + str([list(a.shape) for a in norm]) + " vs " + str([list(a.shape) for a in norm0]) \
                            if any(a.shape != b.shape for a, b in zip(norm, norm0)) else "voxels differ"
            obs["configs"].append(rec)
    return obs


# ------------------------------------------------------------------ model requests
def requests(case, obs):
    inp, out, wr = case["cfg"]
    n, h, w = case["n"], case["h"], case["w"]
    data = (numerators(case) if case["op"] == "bin" else values(case)).reshape(n, h, w)
    if inp == "arr_xyz":
        payload = dict(kind="arr", shape=[w, h, n], data=np.ascontiguousarray(data.transpose(2, 1, 0)).ravel().tolist())
    elif inp == "arr_zyx":
        payload = dict(kind="arr", shape=[n, h, w], data=data.ravel().tolist())
    else:
        payload = dict(kind="file", nx=w, ny=h, nz=n, data=data.ravel().tolist())
    req = dict(op=case["op"], input=payload, in_xyz=1 if inp[-3:] == "xyz" else 0, out_zyx=1 if out == "zyx" else 0, write=1 if wr else 0)
    if case["op"] == "sort":
        req["angles"] = case["angles"]
    elif case["op"] == "remove":
        req.update(idxs=case["idxs"], base1=1 if case["base1"] else 0)
    elif case["op"] == "flip":
        req["axes"] = case["axes"] if isinstance(case["axes"], list) else [case["axes"]]
    elif case["op"] == "crop":
        req.update(new_w=-1 if case["new_w"] is None else case["new_w"], new_h=-1 if case["new_h"] is None else case["new_h"])
    elif case["op"] == "bin":
        req.update(b=case["b"], den=case.get("den", 1))
    return [req]


# ------------------------------------------------------------------ the statement, evaluated independently
def _decode(case, codes):
    """codes -> exact Fractions are only needed for binning; elsewhere codes are compared as opaque labels"""
    if case["dtype"] == "i16":
        return codes.astype(np.float64)
    return codes.astype(np.uint32).view(np.float32).astype(np.float64)


def _spec(case, res):
    """res: list of result stacks as code arrays in n,y,x order. Returns (clause, detail) of the first clause of the statement that fails."""
    op = case["op"]
    X = values(case).reshape(case["n"], case["h"], case["w"])
    n, h, w = X.shape
    if op == "sort":
        ang = [b2f(a) for a in case["angles"]]
        order = sorted(range(n), key=lambda i: ang[i])
        exp = X[order]
        if res[0].shape != exp.shape or not np.array_equal(res[0], exp):
            return "sort-ascending-permutation", f"result is not the input images in ascending-angle order {order}"
    elif op == "remove":
        b = 1 if case["base1"] else 0
        keep = [i for i in range(n) if (i + b) not in set(case["idxs"])]
        exp = X[keep]
        if res[0].shape != exp.shape or not np.array_equal(res[0], exp):
            return "remove-keeps-exactly-the-others", f"result is not the images {keep} (0-based) in their original order; result has {res[0].shape[0]} images"
    elif op == "split":
        ev, od = res
        if ev.shape[1:] != (h, w) or od.shape[1:] != (h, w) or ev.shape[0] + od.shape[0] != n or not (od.shape[0] <= ev.shape[0] <= od.shape[0] + 1):
            return "split-interleaves-back", f"even/odd stacks have shapes {ev.shape}/{od.shape} for an input of {X.shape}"
        Z = np.empty_like(X)
        Z[0::2], Z[1::2] = ev, od
        if not np.array_equal(Z, X):
            return "split-interleaves-back", "interleaving the even and the odd stack does not give the input back"
    elif op == "flip":
        if res[0].shape != X.shape or sorted(res[0].ravel().tolist()) != sorted(X.ravel().tolist()):
            return "flip-is-a-rearrangement", f"flipped stack has shape {res[0].shape} / other voxels than the input {X.shape}"
    elif op == "crop":
        nh = h if case["new_h"] is None else case["new_h"]
        nw = w if case["new_w"] is None else case["new_w"]
        if res[0].shape != (n, nh, nw):
            return "crop-central-window", f"cropped stack has (n,h,w)={res[0].shape}, requested {(n, nh, nw)}"
        ok = False
        for sh in {(h - nh) // 2, (h - nh + 1) // 2}:       # margins on the two sides differ by at most one pixel
            for sw in {(w - nw) // 2, (w - nw + 1) // 2}:
                ok = ok or np.array_equal(res[0], X[:, sh:sh + nh, sw:sw + nw])
        if not ok:
            return "crop-central-window", "cropped stack is not a centred window of the input (margins differing by at most one pixel)"
    elif op == "bin":
        b, den = case["b"], case.get("den", 1)
        N = numerators(case).reshape(n, h, w)
        fh, fw = h // b, w // b
        S = N[:, :fh * b, :fw * b].reshape(n, fh, b, fw, b).sum(axis=(2, 4))          # exact integer block sums
        got = _decode(case, res[0])
        if got.shape[0] != n or got.shape[1] < fh or got.shape[2] < fw:
            return "bin-block-means", f"binned stack has shape {got.shape}, expected at least {(n, fh, fw)}"
        g = got[:, :fh, :fw]
        mean = S.astype(np.float64) / float(b * b * den)
        if case["dtype"] == "f32":
            bad = g != mean.astype(np.float32).astype(np.float64)
        else:
            bad = ~(np.abs(g - mean) < 1.0) | ((S % (b * b) == 0) & (g != mean))
        if bad.any():
            z, j, i = [int(v[0]) for v in np.nonzero(bad)]
            return "bin-block-means", f"block (tilt {z}, row {j}, col {i}): returned {g[z, j, i]}, block mean {Fraction(int(S[z, j, i]), b * b * den)}"
    return None


def _model_diff(case, obs, model):
    """exact comparison of the reference configuration with the Lean model's answer"""
    ref = obs["ref"]
    if "error" in model:
        return f"model answers {model['error']}, implementation returned"
    if len(model["returned"]) != len(ref["returned"]):
        return "number of returned stacks"
    inp, out, wr = case["cfg"]
    for k, (m, r) in enumerate(zip(model["returned"], ref["returned"])):
        if m["shape"] != r["shape"]:
            return f"returned[{k}] shape {r['shape']} vs model {m['shape']}"
        d = _values_differ(case, m["data"], r["data"])
        if d:
            return f"returned[{k}] " + d
    if len(model["written"]) != len(ref["written"]):
        return f"{len(ref['written'])} files written vs model {len(model['written'])}"
    for k, (m, r) in enumerate(zip(model["written"], ref["written"])):
        if m["dims"] != r["dims"]:
            return f"file[{k}] header {r['dims']} vs model {m['dims']}"
        d = _values_differ(case, m["data"], r["data"])
        if d:
            return f"file[{k}] " + d
    return None


def _values_differ(case, mdata, rdata):
    if rdata is None or len(mdata) != len(rdata):
        return "payload length"
    if case["op"] != "bin":
        if mdata != rdata:
            j = next(i for i, (a, b) in enumerate(zip(mdata, rdata)) if a != b)
            return f"voxel #{j}: implementation code {rdata[j]}, model {mdata[j]}"
        return None
    got = _decode(case, np.array(rdata, dtype=np.int64))
    q = np.array([a / b for a, b in mdata], dtype=np.float64)          # exact: dyadic/25-type quotients of small integers, correctly rounded
    if case["dtype"] == "f32":
        bad = got != q.astype(np.float32).astype(np.float64)
    else:
        bad = ~(np.abs(got - q) < 1.0)
    if bad.any():
        j = int(np.flatnonzero(bad)[0])
        return f"voxel #{j}: implementation {got[j]}, model block mean {mdata[j][0]}/{mdata[j][1]}"
    return None


def max_bin_dev(case, obs, model):
    if case["op"] != "bin" or "error" in obs.get("ref", {}) or "error" in model:
        return None
    got = _decode(case, np.array(obs["ref"]["returned"][0]["data"], dtype=np.int64))
    q = np.array([a / b for a, b in model["returned"][0]["data"]], dtype=np.float64)
    return float(np.max(np.abs(got - q))) if got.shape == q.shape and got.size else None


def judge(case, obs, resps):
    out = []
    if "error" in obs and "ref" not in obs:
        return [dict(kind="spec", clause="harness-or-impl-raises", detail=obs["error"] + " @" + obs.get("where", ""))]
    model = resps[0]
    ref = obs["ref"]
    if not obs.get("input_file_ok", True):
        out.append(dict(kind="corr", clause="input-file", detail="the MRC input file written for the case does not hold the stack (mrcfile vs harness parser)"))
    # ---- rejections
    if "error" in ref:
        if "error" not in model:
            out.append(dict(kind="spec", clause="raises-on-valid-input", detail=f"{case['op']} raises {ref['error']} in configuration {case['cfg']}"))
        elif model["error"] != "reject:" + ref["error"]:
            out.append(dict(kind="corr", clause="error-kind", detail=f"implementation {ref['error']} vs model {model['error']}"))
        for c in obs["configs"][1:]:
            if not c.get("same", True):
                out.append(dict(kind="spec", clause="same-result-in-every-configuration", detail=f"configuration {c['cfg']} {c.get('detail', '')}, reference {case['cfg']} raises {ref['error']}"))
                break
        for c in obs["configs"]:
            if c.get("files_left"):
                out.append(dict(kind="corr", clause="file-written-before-rejection", detail=f"{c['cfg']}: {c['files_left']}"))
                break
        return out
    # ---- the statement on the reference configuration (normalised to n,y,x)
    inp, oo, wr = case["cfg"]
    res = []
    for r in ref["returned"]:
        a = np.array(r["data"], dtype=np.int64).reshape(r["shape"])
        res.append(a if oo == "zyx" else a.transpose(2, 1, 0))
    bad = _spec(case, res)
    if bad:
        out.append(dict(kind="spec", clause=bad[0], detail=f"configuration {case['cfg']}: {bad[1]}"))
    if case["op"] == "flip" and obs.get("twice_identity") is False:
        out.append(dict(kind="spec", clause="flip-twice-is-identity", detail=f"flipping along {case['axes']} twice does not give the input back (configuration {case['cfg']})"))
    for c in obs["configs"]:
        if c.get("file_detail"):
            out.append(dict(kind="spec", clause="file-holds-the-result", detail=f"configuration {c['cfg']}: {c['file_detail']}"))
            break
    for c in obs["configs"][1:]:
        if not c.get("same", True):
            out.append(dict(kind="spec", clause="same-result-in-every-configuration", detail=f"configuration {c['cfg']} vs {case['cfg']}: {c.get('detail', '')}"))
            break
    for c in obs["configs"]:
        if c.get("mutated_input"):
            out.append(dict(kind="corr", clause="input-array-mutated", detail=str(c["cfg"])))
            break
    want = "int16" if case["dtype"] == "i16" else "float32"
    for c in obs["configs"]:
        if any(d != want for d in c.get("dtypes", [])):
            out.append(dict(kind="corr", clause="dtype-changed", detail=f"{c['cfg']}: returned dtype {c['dtypes']} for a {want} stack"))
            break
    # ---- correspondence with the Lean model (same defs as the theorems)
    d = _model_diff(case, obs, model)
    if d:
        out.append(dict(kind="corr", clause="impl-vs-model", detail=f"configuration {case['cfg']}: {d}"))
    return out


def nontrivial(case, obs):
    ref = obs.get("ref") or {}
    if "error" in ref or case["h"] == case["w"] or case["n"] < 3:
        return False
    r = ref["returned"][0]
    inp, oo, wr = case["cfg"]
    shape = [case["n"], case["h"], case["w"]] if oo == "zyx" else [case["w"], case["h"], case["n"]]
    if r["shape"] != shape or len(ref["returned"]) > 1 or case["op"] == "bin":
        return True
    X = values(case).reshape(case["n"], case["h"], case["w"])
    X = X if oo == "zyx" else X.transpose(2, 1, 0)
    return r["data"] != np.ascontiguousarray(X).ravel().tolist()


def stats(case, obs, resps):
    ref = obs.get("ref") or {}
    n = case["n"]
    d = {"op": case["op"], "dtype": case["dtype"], "n_tilts": "2" if n == 2 else ("3-8" if n <= 8 else ("9-16" if n <= 16 else "17-25")),
         "shape": "h<w" if case["h"] < case["w"] else ("h>w" if case["h"] > case["w"] else "square"),
         "max_side": "4-9" if max(case["h"], case["w"]) < 10 else ("10-19" if max(case["h"], case["w"]) < 20 else "20-40"),
         "model_cfg_input": case["cfg"][0], "model_cfg_out": case["cfg"][1], "model_cfg_write": str(case["cfg"][2]),
         "outcome": ("reject:" + ref["error"]) if "error" in ref else "ok", "impl_calls": len(obs.get("configs", []))}
    if case["op"] == "remove":
        d["remove"] = ("1-based" if case["base1"] else "0-based") + ("/all" if len(set(case["idxs"])) == n else "")
    if case["op"] == "flip":
        d["flip_axes"] = "".join(case["axes"]) if isinstance(case["axes"], list) else "str:" + case["axes"]
    if case["op"] == "bin":
        d["bin"] = f"b={case['b']}" + ("" if case["h"] % case["b"] == 0 and case["w"] % case["b"] == 0 else "/partial-blocks")
        dev = max_bin_dev(case, obs, resps[0]) if resps else None
        if dev is not None:
            d["bin_max_dev_vs_exact_mean"] = "0" if dev == 0 else ("<2^-20" if dev < 2 ** -20 else ("<1 (int16 truncation)" if dev < 1 else ">=1"))
    if case["op"] == "crop":
        par = lambda full, new: "None" if new is None else ("same-parity" if (full - new) % 2 == 0 else "odd-margin")
        d["crop_w"], d["crop_h"] = par(case["w"], case["new_w"]), par(case["h"], case["new_h"])
    return d


def sample_view(case):
    return {k: (v if k != "angles" else [b2f(a) for a in v]) for k, v in case.items()}


def classify(case, obs, finding):
    return None


# ------------------------------------------------------------------ probes of recorded assumptions
def probes(rng):
    out = []
    try:
        import mrcfile
        from skimage.transform import downscale_local_mean
        with tempfile.TemporaryDirectory(prefix="c15p_") as td:
            ok = True
            for dt in (np.int16, np.float32):
                a = (np.arange(3 * 5 * 7).reshape(3, 5, 7) * 37 % 1000 - 500).astype(dt)
                p = os.path.join(td, "p.mrc")
                mrcfile.write(p, a, overwrite=True)
                f = parse_mrc(p)
                back = mrcfile.open(p).data
                ok = ok and f["ok"] and f["dims"] == [7, 5, 3] and np.array_equal(f["codes"], codes_of(a, "i16" if dt == np.int16 else "f32").ravel()) \
                    and back.shape == (3, 5, 7) and np.array_equal(back, a)
            out.append(dict(name="mrc-parser-agrees-with-mrcfile", ok=bool(ok), detail="3x5x7 int16/float32, header nx,ny,nz = 7,5,3, x fastest"))
        a = np.array([[rng.randint(-9, 9) for _ in range(7)] for _ in range(5)], dtype=np.float64)[None]
        got = downscale_local_mean(a, (1, 2, 2))
        pad = np.zeros((1, 6, 8)); pad[:, :5, :7] = a
        exp = pad.reshape(1, 3, 2, 4, 2).mean(axis=(2, 4))
        out.append(dict(name="downscale_local_mean-is-zero-padded-block-mean", ok=bool(got.shape == exp.shape and np.array_equal(got, exp)), detail="5x7 image, factor 2"))
        x = np.array([2.5, -2.5, 3.75, -0.25])
        out.append(dict(name="astype-int16-truncates-toward-zero", ok=bool(list(x.astype(np.int16)) == [2, -2, 3, 0]), detail=""))
    except Exception as e:
        out.append(dict(name="probes-ran", ok=False, detail=f"{type(e).__name__}: {e}"))
    return out


LEVEL_TEXT = ("Lean 4 theorems about an executable model of the tilt-stack operations (sorting by angle is an ascending permutation, removal keeps exactly "
              "the other images in order for 1-/0-based indices, even/odd split interleaves back, flips are involutions, the crop is the centred window, "
              "binning is the block mean, x,y,n / n,y,x / MRC-file input give the same result and the written file holds it) for all stack sizes and all "
              "voxel values; the model is tied to the source by regenerated anchors (flip axis table, index shift, parity rule, transpose axes and "
              "conditions, crop/sort/remove/bin expressions) and by an exact differential run of the real functions in all 16 configurations against the model")
LEVEL_NOTE = ("trusted: Lean kernel; translator anchors; harness MRC parser; numpy indexing and mrcfile I/O are modelled, not verified; binning is proved as "
              "exact block means over a field, the float32/int16 rounding of the real code is only validated (exact on the generated dyadic inputs)")
TECHNIQUE = "Lean 4 proof (list induction, permutation/sortedness of merge sort, index algebra of transposition and reshape) + regenerated anchors + exact differential correspondence"
DESIGN_REF = "DESIGN.md section 4, C15"
