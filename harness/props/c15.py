"""C15 — tilt-stack operations are lossless selections/permutations of tilt images (DESIGN.md section 4, C15)."""
import os, io, re, ast, struct, tempfile, contextlib, math
from fractions import Fraction
import numpy as np
import core
from core import f2b, b2f

PROP = "C15"
COUNT = {"quick": 240, "thorough": 6000, "search": 1200}
PARALLEL = True
RULE = ("one case = one operation (sort_tilts_by_angle / remove_tilts / split_stack_even_odd / flip_along_axes / crop / bin) on a stack "
        "of n in 2..25 tilts with independent height and width in 4..40, dtype float32 or int16, voxel values from an injective affine "
        "sequence (so that every transposition, swap or dropped image is visible); the real function is run in all 16 configurations "
        "{array x,y,n | array n,y,x | MRC file (input_order ignored, both values)} x output_order {xyz,zyx} x output file {on,off}; every "
        "written file is re-read by the harness's own MRC parser; one configuration per case (drawn at random) is also executed by the Lean "
        "model. In ~1/3 of the cases every keyword whose value equals the signature default (input_order, output_order, output_file, "
        "numbered_from_1, new_width, new_height) is OMITTED so that the library's defaults are exercised. The second argument is built once "
        "per case and the same object is passed to all 16 calls and compared before/after each call. Angles are distinct (no ties) and come as "
        "list / ndarray / .tlt / .rawtlt / .mdoc file; ~10% of the sort cases have fewer or more angles than images (outside the statement: "
        "judged against the model only). Index subsets are arbitrary non-empty (1-/0-based, any order, large stacks reduced to 2-4 tilts) and come "
        "as list / int64 / int32 ndarray / .txt / .csv file; axes as str / list / tuple; crop sizes as int / str / float / numpy int. ~6% of the "
        "cases carry an argument the code must refuse. ~12% of the cases are SEQUENCES of 2-4 calls in one process: on the same file path "
        "(each call reads and overwrites it, or the harness rewrites it with another stack of the same shape between two calls) or with the "
        "same caller-owned ndarray / list / file as second argument for different inputs; every call is judged like a first call against "
        "what the file held / the case says. Tilt angles are decimal TEXT (1-4 decimals, about 2/3 off the dyadic grid, with pairs that differ "
        "only in the last written digit: 0.01-0.03 deg, 0.001 deg, 1e-4 deg; 1/4 of the lists in descending order) written literally into the "
        ".tlt/.rawtlt/.mdoc file or converted with float() for list / float64 / float32 / int64 ndarray / tuple arguments; the oracle and the Lean "
        "model order the EXACT written values (Fraction / Rat), so any loss of precision between the file and the sort key is visible; ~4% of the sort "
        "cases hold a tie (outside the statement: only 'some ascending order' is checked, numpy's default argsort is not stable); a refusal is classified by "
        "exception type + the documented precondition the case violates, never by message text. non-trivial = no rejection, height != width, n >= 3 and the result differs from the input "
        "(sequences: >= 2 calls returned and one changed its input); distinct = distinct case content")
ASSUMPTIONS = [
    "numpy basic/fancy indexing, np.delete, np.stack, transpose(2,1,0) and astype to the same dtype copy voxels bit for bit",
    "skimage.transform.downscale_local_mean(data,(1,b,b)) = mean over b x b blocks after zero padding to a multiple of b (probed every run)",
    "binning: int16 stacks (|value| <= 2000, detector counts 3000..9000, or the full int16 range; b in 1..5, 8) are reduced by skimage in float64, where "
    "every block sum (< 2^53) is exact and the quotient is correctly rounded; astype(int16) truncates toward zero (probed every run; the model applies "
    "the same truncation; compared exactly). float32 stacks are reduced in float32: the `small` stream (|numerator| <= 2000, denominators 1,2,4) is exact "
    "and compared exactly, the `counts` / `large` streams (values up to 16384 with ten fractional bits) are compared with the summation bound "
    "b*b * 2^-24 * max|x| (see _bin_tol), also between configurations (the memory layout changes the summation order)",
    "mrcfile writes exactly the header dimensions/mode and C-order bytes it is given and returns a 3-D array for nz >= 2 (output files are re-read "
    "by the harness's own parser; the parser is cross-checked against mrcfile by a probe on every run)",
    "decimal text -> float conversion of pandas (float32, one-value-per-line files), python float() (mdoc, lists) and numpy is correctly rounded, hence "
    "monotone: different written angles keep their order unless they round to the same float; that is computed for every sort case from the case alone "
    "(never from the implementation's output) and such cases (>= 8 significant digits in a .tlt file) are counted as ties = outside the statement",
]
TRUSTED = ["harness MRC parser (props/c15.py parse_mrc)", "mrcfile (only to create the *input* files; checked by the parser probe)"]
REL = "cryocat/tiltstack.py"
REL_IO = "cryocat/ioutils.py"
REL_MDOC = "cryocat/mdoc.py"
REL_MAP = "cryocat/cryomap.py"
OPS = ["sort", "remove", "split", "flip", "crop", "bin"]
INPUTS = ["arr_xyz", "arr_zyx", "file_xyz", "file_zyx"]   # file_<o>: MRC path, input_order=<o> (documented as irrelevant)


# ------------------------------------------------------------------ translator (pure ast)
# Every extractor works on an ALPHA-NORMALISED copy of the function: local variables (every name the function binds that is
# not a parameter) are renamed v0, v1, ... in the order of their first binding, so a harmless rename of a local leaves all
# anchors unchanged, while parameters (the keyword API) and attribute names keep their names. Model-feeding values
# (flip table, index shift, parity rule, transposes, defaults) are extracted structurally; everything else is anchored as a
# normalised dump of the whole function body (statement kinds + expressions; docstrings, print calls and exception
# messages dropped), so that an added, removed or reordered statement is seen.
DOC = dict(  # documented values: used as fall-back when an anchor is missing (the anchor itself is then recorded as failed)
    flip=[["x", 1], ["y", 2], ["z", 0]], shift=["numbered_from_1", 1], even=0, tin=[[2, 1, 0], "input_order == 'xyz'"],
    tout=[[2, 1, 0], "self.current_order != self.output_order"], cur="zyx", unpack=["n_tilts", "height", "width"],
    base1=True, in_order="xyz", out_order="xyz")
SIX = ["crop", "sort_tilts_by_angle", "remove_tilts", "bin", "split_stack_even_odd", "flip_along_axes"]


def _params(fn):
    a = fn.args
    return [x.arg for x in a.posonlyargs + a.args + a.kwonlyargs] + ([a.vararg.arg] if a.vararg else []) + ([a.kwarg.arg] if a.kwarg else [])


class _Strip(ast.NodeTransformer):
    """H1: type annotations carry no behaviour. Argument / return annotations are removed, `x: T = v` becomes `x = v`,
    a bare declaration `x: T` disappears; docstrings of nested functions are removed too."""

    def _fn(self, n):
        self.generic_visit(n)
        a = n.args
        for x in a.posonlyargs + a.args + a.kwonlyargs + ([a.vararg] if a.vararg else []) + ([a.kwarg] if a.kwarg else []):
            x.annotation = None
        n.returns = None
        if n.body and isinstance(n.body[0], ast.Expr) and isinstance(n.body[0].value, ast.Constant) and isinstance(n.body[0].value.value, str):
            n.body = n.body[1:] or [ast.Pass()]
        return n

    visit_FunctionDef = visit_AsyncFunctionDef = _fn

    def visit_AnnAssign(self, n):
        self.generic_visit(n)
        if n.value is None:
            return None
        return ast.copy_location(ast.Assign(targets=[n.target], value=n.value), n)


class _Alpha(ast.NodeTransformer):
    """H2: canonical names by BINDING OCCURRENCE. Pass 1 (`number`) walks the function in the traversal order of pass 2 and gives
    a number to the first binding occurrence of every named local and to EVERY binding occurrence of the discard name `_`
    (each discard is a variable of its own; a later read of `_` refers to the latest one). So renaming a local, renaming one
    discard, or giving a discard a real name changes nothing. Parameters, attributes and globals keep their names.
    `orig` maps the canonical names back to the identifiers of the source (for the AnchorMissing texts)."""

    def __init__(self, params):
        self.skip, self.map, self.orig, self.discards = set(params), {}, {}, []
        self.numbering, self.k, self.last_discard = True, 0, None

    def _fresh(self, name):
        v = f"v{len(self.orig)}"
        self.orig[v] = name
        return v

    def _bind(self, name):
        if name in self.skip:
            return name
        if name == "_":
            if self.numbering:
                self.discards.append(self._fresh("_"))
                return name
            self.last_discard = self.discards[self.k]
            self.k += 1
            return self.last_discard
        if name not in self.map:
            self.map[name] = self._fresh(name)
        return self.map[name]

    def visit_Name(self, n):
        if isinstance(n.ctx, (ast.Store, ast.Del)):
            new = self._bind(n.id)
        elif n.id == "_" and self.last_discard and "_" not in self.skip:
            new = self.last_discard
        else:
            new = self.map.get(n.id, n.id)
        return n if self.numbering else ast.copy_location(ast.Name(id=new, ctx=n.ctx), n)

    def visit_FunctionDef(self, n):          # a nested def binds its own name; its body is renamed with the same map
        new = self._bind(n.name)
        if not self.numbering:
            n.name = new
        self.generic_visit(n)
        return n


_ORIG = {}     # canonical name -> source identifier of the function normalised last (used to quote the source in AnchorMissing texts)


def _alpha(fn):
    import copy
    fn = _Strip().visit(copy.deepcopy(fn))
    ast.fix_missing_locations(fn)
    al = _Alpha(_params(fn))
    for st in fn.body:                       # pass 1: number the binding occurrences
        al.visit(st)
    al.numbering = False
    fn.body = [al.visit(st) for st in fn.body]
    _ORIG.clear()
    _ORIG.update(al.orig)
    fn._orig = dict(al.orig)
    return fn


def _src_text(text):
    """canonical names in an AnchorMissing text -> the identifiers the source uses (H2)"""
    import re
    return re.sub(r"\bv(\d+)\b", lambda m: _ORIG.get(m.group(0), m.group(0)), text)


class _Missing(core.AnchorMissing):
    def __init__(self, text):
        super().__init__(_src_text(text))


def _u(node):
    return ast.unparse(node)


def _skeleton(stmts, ind=""):
    out = []
    for k, st in enumerate(stmts):
        if isinstance(st, ast.Expr) and isinstance(st.value, ast.Constant) and isinstance(st.value.value, str):
            continue                                                   # docstring / bare string
        if isinstance(st, ast.Expr) and isinstance(st.value, ast.Call) and (_u(st.value.func) in ("print", "warnings.warn", "warn")
                                                                            or _u(st.value.func).split(".")[0] in ("logging", "logger", "log")):
            continue                                                   # H1: the text of a message is not behaviour
        if isinstance(st, ast.If):
            out.append(f"{ind}if {_u(st.test)}:")
            out += _skeleton(st.body, ind + "  ")
            if st.orelse:
                out.append(f"{ind}else:")
                out += _skeleton(st.orelse, ind + "  ")
        elif isinstance(st, (ast.For, ast.While)):
            out.append(f"{ind}for {_u(st.target)} in {_u(st.iter)}:" if isinstance(st, ast.For) else f"{ind}while {_u(st.test)}:")
            out += _skeleton(st.body, ind + "  ")
            if st.orelse:
                out.append(f"{ind}else:")
                out += _skeleton(st.orelse, ind + "  ")
        elif isinstance(st, ast.Raise):
            e = st.exc.func if isinstance(st.exc, ast.Call) else st.exc
            out.append(f"{ind}raise {_u(e) if e is not None else ''}")
        elif isinstance(st, ast.With):
            out.append(f"{ind}with {', '.join(_u(i) for i in st.items)}:")
            out += _skeleton(st.body, ind + "  ")
        elif isinstance(st, ast.Try):
            out.append(f"{ind}try:")
            out += _skeleton(st.body, ind + "  ")
            for h in st.handlers:
                out.append(f"{ind}except {_u(h.type) if h.type is not None else ''}:")
                out += _skeleton(h.body, ind + "  ")
            for fld in ("orelse", "finalbody"):
                if getattr(st, fld):
                    out.append(f"{ind}{'else' if fld == 'orelse' else 'finally'}:")
                    out += _skeleton(getattr(st, fld), ind + "  ")
        elif isinstance(st, (ast.FunctionDef, ast.AsyncFunctionDef)):
            out.append(f"{ind}def {st.name}({', '.join(_params(st))}):")
            out += _skeleton(st.body, ind + "  ")
        else:
            out.append(ind + _u(st))
    return out


def _transpose_axes(call):
    if not (isinstance(call, ast.Call) and isinstance(call.func, ast.Attribute) and call.func.attr == "transpose"):
        raise _Missing("not a .transpose(...) call: " + _u(call)[:60])
    return [int(ast.literal_eval(a)) for a in call.args]


def _kw_false(fn, callee):
    for n in ast.walk(fn):
        if isinstance(n, ast.Call) and _u(n.func) == callee:
            for k in n.keywords:
                if k.arg == "transpose":
                    return bool(ast.literal_eval(k.value))
            return True  # cryomap default is transpose=True
    raise _Missing(f"{fn.name}: no call of {callee}")


def _ts_var(fn):
    """the local that holds `TiltStack(...)` in an alpha-normalised function"""
    for st in fn.body:
        if isinstance(st, ast.Assign) and isinstance(st.value, ast.Call) and _u(st.value.func) == "TiltStack" and isinstance(st.targets[0], ast.Name):
            return st.targets[0].id
    raise _Missing(f"{fn.name}: no `ts = TiltStack(...)` statement")


def _defaults(fn):
    a = fn.args
    pos = a.posonlyargs + a.args
    out = {p.arg: _u(d) for p, d in zip(pos[len(pos) - len(a.defaults):], a.defaults)}
    out.update({p.arg: _u(d) for p, d in zip(a.kwonlyargs, a.kw_defaults) if d is not None})
    return out


def translate(src):
    A = src.anchor
    F = lambda name, rel=REL: _alpha(src.find(rel, name))

    def flip_table():
        fn = F("flip_along_axes")
        ts = _ts_var(fn)
        loop = [n for n in ast.walk(fn) if isinstance(n, ast.For)]
        if len(loop) != 1 or not isinstance(loop[0].target, ast.Name):
            raise _Missing("flip_along_axes: for-loop over axes")
        lv = loop[0].target.id
        if len(loop[0].body) != 1:
            raise _Missing("flip_along_axes: loop body is not a single if/elif chain")
        node, table = loop[0].body[0], []
        while isinstance(node, ast.If):
            t = node.test
            if not (isinstance(t, ast.Compare) and len(t.ops) == 1 and isinstance(t.ops[0], ast.Eq) and isinstance(t.comparators[0], ast.Constant)
                    and isinstance(t.left, ast.Name) and t.left.id == lv):
                raise _Missing("flip_along_axes: branch test " + _u(t))
            st = node.body[0]
            if not (len(node.body) == 1 and isinstance(st, ast.Assign) and _u(st.targets[0]) == f"{ts}.data"
                    and isinstance(st.value, ast.Subscript) and _u(st.value.value) == f"{ts}.data" and isinstance(st.value.slice, ast.Tuple)):
                raise _Missing("flip_along_axes: branch body " + _u(st)[:60])
            rev = []
            for k, s in enumerate(st.value.slice.elts):
                if not (isinstance(s, ast.Slice) and s.lower is None and s.upper is None):
                    raise _Missing("flip_along_axes: slice " + _u(st))
                if s.step is not None:
                    if _u(s.step) != "-1":
                        raise _Missing("flip_along_axes: step " + _u(st))
                    rev.append(k)
            if len(rev) != 1 or len(st.value.slice.elts) != 3:
                raise _Missing("flip_along_axes: exactly one reversed axis expected in " + _u(st))
            table.append([str(t.comparators[0].value), rev[0]])
            if len(node.orelse) != 1:
                raise _Missing("flip_along_axes: chain must end in an else branch")
            node = node.orelse[0]
        if not isinstance(node, ast.Raise):
            raise _Missing("flip_along_axes: the final else branch must raise")
        return table

    def index_shift():
        fn = F("indices_load", REL_IO)
        last = [n for n in fn.body if isinstance(n, ast.If) and isinstance(n.test, ast.Name)]
        ret = fn.body[-1]
        for n in last:
            st = n.body[0]
            if len(n.body) == 1 and not n.orelse and isinstance(st, ast.Assign) and isinstance(st.value, ast.BinOp) and isinstance(st.value.right, ast.Constant) \
                    and isinstance(st.targets[0], ast.Name) and _u(st.value.left) == st.targets[0].id \
                    and isinstance(ret, ast.Return) and _u(ret.value) == st.targets[0].id and n.test.id in _params(fn):
                c = int(st.value.right.value)
                if isinstance(st.value.op, ast.Sub):
                    return [n.test.id, c]
                if isinstance(st.value.op, ast.Add):
                    return [n.test.id, -c]
        raise _Missing("indices_load: `if numbered_from_1: indices = indices - 1` (a fresh array, not an in-place update) followed by `return indices`")

    def even_rule():
        fn = F("split_stack_even_odd")
        ts = _ts_var(fn)
        writes, ret = {}, None
        for n in ast.walk(fn):
            if isinstance(n, ast.Call) and _u(n.func) == f"{ts}.write_out" and n.args and isinstance(n.args[0], ast.BinOp) \
                    and isinstance(n.args[0].right, ast.Constant) and len(n.keywords) == 1 and n.keywords[0].arg == "new_data":
                writes[str(n.args[0].right.value)] = _u(n.keywords[0].value)
            if isinstance(n, ast.Return) and n.value is not None:
                ret = n.value
        if sorted(writes) != ["_even.mrc", "_odd.mrc"] or not (isinstance(ret, ast.Tuple) and len(ret.elts) == 2):
            raise _Missing("split_stack_even_odd: two write_out(prefix + '_even.mrc'/'_odd.mrc', new_data=...) calls and a returned pair")
        ev, od = writes["_even.mrc"], writes["_odd.mrc"]
        if [_u(e) for e in ret.elts] != [f"{ts}.correct_order({ev})", f"{ts}.correct_order({od})"] or ev == od:
            raise _Missing("split_stack_even_odd: returns (correct_order(even), correct_order(odd)) of the stacks it writes")
        for n in ast.walk(fn):
            if isinstance(n, ast.If) and isinstance(n.test, ast.Compare) and isinstance(n.test.left, ast.BinOp) and isinstance(n.test.left.op, ast.Mod):
                t = n.test
                loop = [f for f in ast.walk(fn) if isinstance(f, ast.For) and n in f.body]
                if not (loop and isinstance(loop[0].target, ast.Name) and _u(loop[0].iter) == f"range({ts}.n_tilts)"):
                    raise _Missing("split_stack_even_odd: parity test outside `for i in range(ts.n_tilts)`")
                i = loop[0].target.id
                if _u(t.left) == f"{i} % 2" and isinstance(t.ops[0], ast.Eq) and isinstance(t.comparators[0], ast.Constant) and len(n.body) == 1 and len(n.orelse) == 1:
                    body, orelse = _u(n.body[0]), _u(n.orelse[0])
                    if body == f"{ev}.append({ts}.data[{i}, :, :])" and orelse == f"{od}.append({ts}.data[{i}, :, :])":
                        return int(t.comparators[0].value)
                    if body == f"{od}.append({ts}.data[{i}, :, :])" and orelse == f"{ev}.append({ts}.data[{i}, :, :])":
                        return 1 - int(t.comparators[0].value)
        raise _Missing("split_stack_even_odd: `if i % 2 == 0: even.append(ts.data[i,:,:]) else: odd.append(...)`")

    def init_transpose():
        fn = F("TiltStack.__init__")
        hits = []
        for n in ast.walk(fn):
            if isinstance(n, ast.If) and len(n.body) == 1 and isinstance(n.body[0], ast.Assign) and _u(n.body[0].targets[0]) == "self.data" \
                    and isinstance(n.body[0].value, ast.Call) and _u(n.body[0].value.func) == "self.data.transpose":
                hits.append(n)
        if len(hits) != 1:
            raise _Missing("TiltStack.__init__: `if input_order == 'xyz': self.data = self.data.transpose(...)`")
        return [_transpose_axes(hits[0].body[0].value), _u(hits[0].test)]

    def out_transpose():
        fn = F("TiltStack.correct_order")
        for n in ast.walk(fn):
            if isinstance(n, ast.If) and isinstance(n.body[0], ast.Return) and isinstance(n.body[0].value, ast.Call) \
                    and isinstance(n.body[0].value.func, ast.Attribute) and n.body[0].value.func.attr == "transpose":
                rd = _u(n.body[0].value.func.value)
                if not (n.orelse and isinstance(n.orelse[0], ast.Return) and _u(n.orelse[0].value) == rd):
                    raise _Missing("TiltStack.correct_order: else branch does not return the untransposed data")
                return [_transpose_axes(n.body[0].value), _u(n.test)]
        raise _Missing("TiltStack.correct_order: `if self.current_order != self.output_order: return return_data.transpose(...)`")

    def shape_unpack():
        fn = F("TiltStack.__init__")
        for n in ast.walk(fn):
            if isinstance(n, ast.Assign) and isinstance(n.targets[0], ast.Tuple) and _u(n.value) == "self.data.shape":
                return [_u(e).replace("self.", "") for e in n.targets[0].elts]
        raise _Missing("TiltStack.__init__: `self.n_tilts, self.height, self.width = self.data.shape`")

    def current_order():
        fn = F("TiltStack.__init__")
        hits = [n for n in ast.walk(fn) if isinstance(n, ast.Assign) and len(n.targets) == 1 and _u(n.targets[0]) == "self.current_order"]
        if len(hits) != 1:
            raise _Missing("TiltStack.__init__: exactly one assignment to self.current_order")
        return str(ast.literal_eval(hits[0].value))

    def sig_defaults():
        out = []
        for name, rel in [(f, REL) for f in SIX] + [("TiltStack.__init__", REL), ("indices_load", REL_IO), ("tlt_load", REL_IO),
                          ("one_value_per_line_read", REL_IO), ("Mdoc.__init__", REL_MDOC), ("Mdoc.get_image_feature", REL_MDOC),
                          ("read", REL_MAP), ("write", REL_MAP)]:
            fn = src.find(rel, name)
            out.append([name, ", ".join(_params(fn))])
            out += [[f"{name}.{p}", d] for p, d in _defaults(fn).items()]
        return out

    def common_default(param, fns):
        def get():
            vals = set()
            for f in fns:
                d = _defaults(src.find(REL, f))
                if param not in d:
                    raise _Missing(f"{f}: parameter {param} has no default")
                vals.add(d[param])
            if len(vals) != 1:
                raise _Missing(f"default of {param} differs between functions: {sorted(vals)}")
            return ast.literal_eval(vals.pop())
        return get

    def wrapper(name):
        """[constructor statement, every write_out statement, every return] + the order facts of the wrapper"""
        def get():
            fn = F(name)
            ts = _ts_var(fn)
            flat = []                                     # (position, statement) in source order, nested bodies included

            def walk(stmts):
                for st in stmts:
                    flat.append(st)
                    for fld in ("body", "orelse"):
                        if isinstance(st, (ast.If, ast.For, ast.While)):
                            walk(getattr(st, fld))
            walk(fn.body)
            uses = lambda st: any(isinstance(n, ast.Name) and n.id == ts for n in ast.walk(st))
            simple = [st for st in flat if not isinstance(st, (ast.If, ast.For, ast.While))]
            cons = [k for k, st in enumerate(simple) if isinstance(st, ast.Assign) and isinstance(st.value, ast.Call) and _u(st.value.func) == "TiltStack"]
            wr = [k for k, st in enumerate(simple) if isinstance(st, ast.Expr) and isinstance(st.value, ast.Call) and _u(st.value.func) == f"{ts}.write_out"]
            rets = [k for k, st in enumerate(simple) if isinstance(st, ast.Return)]
            sets = [k for k, st in enumerate(simple) if isinstance(st, (ast.Assign, ast.AugAssign)) and any(
                _u(t).startswith(f"{ts}.") for t in (st.targets if isinstance(st, ast.Assign) else [st.target]))]
            first_use = min([k for k, st in enumerate(simple) if uses(st)] or [0])
            if len(cons) != 1 or not wr or len(rets) != 1:
                raise _Missing(f"{name}: expected one TiltStack(...), at least one write_out and one return")
            order_ok = cons[0] == first_use and all(s < wr[0] for s in sets) and wr[-1] < rets[0] and rets[0] == len(simple) - 1 - sum(isinstance(st, ast.Raise) for st in simple[rets[0] + 1:])
            return [_u(simple[cons[0]])] + [_u(simple[k]) for k in wr] + [_u(simple[rets[0]])] + ["order:" + ("construct<data-updates<write_out<return" if order_ok else "VIOLATED")]
        return get

    body = lambda name, rel=REL: (lambda: _skeleton(F(name, rel).body))

    def static_helper(cls, meth, rel):
        """a @staticmethod helper that harness/decorators.json does not list: looked up here with the binding discipline of
        core.Source.binding_anchors (defined exactly once in the class body, decorated with exactly `staticmethod`, never re-bound)"""
        def get():
            c = src.find(rel, cls)
            defs = [st for st in c.body if isinstance(st, (ast.FunctionDef, ast.AsyncFunctionDef)) and st.name == meth]
            other = [st for st in ast.walk(src.tree(rel)) if isinstance(st, (ast.Assign, ast.AugAssign, ast.AnnAssign)) and any(
                (isinstance(t, ast.Attribute) and t.attr == meth) or (isinstance(t, ast.Name) and t.id == meth and st in c.body)
                for t in (st.targets if isinstance(st, ast.Assign) else [st.target]))]
            setattrs = [n for n in ast.walk(src.tree(rel)) if isinstance(n, ast.Call) and _u(n.func) == "setattr" and len(n.args) >= 2
                        and isinstance(n.args[1], ast.Constant) and n.args[1].value == meth]
            if len(defs) != 1 or other or setattrs:
                raise core.AnchorMissing(f"{rel}:{cls}.{meth} is defined {len(defs)} times / re-bound at lines {[o.lineno for o in other + setattrs]}")
            if [_u(d).replace(" ", "") for d in defs[0].decorator_list] != ["staticmethod"]:
                raise core.AnchorMissing(f"{rel}:{cls}.{meth}: decorators {[_u(d) for d in defs[0].decorator_list]} (documented: staticmethod)")
            return _skeleton(_alpha(defs[0]).body)
        return get

    flip = A("flip_along_axes:axis-table", flip_table) or DOC["flip"]
    shift = A("indices_load:numbered_from_1-shift", index_shift) or DOC["shift"]
    even = A("split_stack_even_odd:i%2-rule", even_rule)
    even = DOC["even"] if even is None else even
    tin = A("TiltStack.__init__:input-transpose", init_transpose) or DOC["tin"]
    cur = A("TiltStack.__init__:current_order", current_order) or DOC["cur"]
    rdt = A("TiltStack.__init__:cryomap.read(transpose=)", lambda: _kw_false(src.find(REL, "TiltStack.__init__"), "cryomap.read"))
    wrt = A("TiltStack.write_out:cryomap.write(transpose=)", lambda: _kw_false(src.find(REL, "TiltStack.write_out"), "cryomap.write"))
    tout = A("TiltStack.correct_order:output-transpose", out_transpose) or DOC["tout"]
    unpack = A("TiltStack.__init__:shape-unpack", shape_unpack) or DOC["unpack"]
    sig = A("signatures:parameters-and-defaults", sig_defaults) or []
    d_b1 = A("remove_tilts:default numbered_from_1", common_default("numbered_from_1", ["remove_tilts"]))
    d_b1 = DOC["base1"] if d_b1 is None else d_b1
    d_in = A("six functions:default input_order", common_default("input_order", SIX)) or DOC["in_order"]
    d_out = A("six functions:default output_order", common_default("output_order", SIX)) or DOC["out_order"]
    wraps = [[f, A(f"{f}:wrapper TiltStack->write_out->correct_order", wrapper(f)) or []] for f in SIX]
    bodies = [[lean, A(f"{name}:body", body(name, rel)) or []] for lean, name, rel in [
        ("cropBody", "crop", REL), ("sortBody", "sort_tilts_by_angle", REL), ("removeBody", "remove_tilts", REL), ("binBody", "bin", REL),
        ("splitBody", "split_stack_even_odd", REL), ("flipBody", "flip_along_axes", REL), ("initBody", "TiltStack.__init__", REL),
        ("writeOutBody", "TiltStack.write_out", REL), ("correctOrderBody", "TiltStack.correct_order", REL),
        ("indicesLoadBody", "indices_load", REL_IO), ("tltLoadBody", "tlt_load", REL_IO),
        # the readers the angles of `sort_tilts_by_angle` pass through, and the MRC reader/writer every operation passes through
        ("oneValuePerLineBody", "one_value_per_line_read", REL_IO), ("mdocInitBody", "Mdoc.__init__", REL_MDOC),
        ("mdocReadBody", "Mdoc._read_mdoc", REL_MDOC), ("mdocParseImagesBody", "Mdoc._parse_images", REL_MDOC),
        ("mdocFeatureBody", "Mdoc.get_image_feature", REL_MDOC), ("cryomapReadBody", "read", REL_MAP), ("cryomapWriteBody", "write", REL_MAP)]]
    bodies.append(["mdocFormatValueBody", A("Mdoc._format_value:body", static_helper("Mdoc", "_format_value", REL_MDOC)) or []])
    bodies.append(["mdocParseHeaderBody", A("Mdoc._parse_header:body", static_helper("Mdoc", "_parse_header", REL_MDOC)) or []])

    def pairs(xs):
        return "[" + ", ".join(f"({core.lean_str(str(a))}, {core.lean_str(str(b))})" for a, b in xs) + "]"

    def nats(xs):
        return "[" + ", ".join(str(int(x)) for x in xs) + "]"

    def strs(xs):
        return "[" + ",\n  ".join(core.lean_str(x) for x in xs) + "]"

    rd = "true" if (rdt is None or rdt) else "false"
    wr = "true" if (wrt is None or wrt) else "false"
    if rdt is None: rd = "false"      # documented: files are read and written untransposed
    if wrt is None: wr = "false"
    return f"""-- GENERATED by harness/props/c15.py from {REL}, {REL_IO}, {REL_MDOC}, {REL_MAP}; do not edit
-- (local variables alpha-renamed v0, v1, ... by binding occurrence; type annotations, docstrings, print/warning/log calls and exception messages dropped)
namespace CryoCat.Gen.C15
def anchorsOk : Bool := {"true" if src.ok else "false"}
def flipTable : List (String × Nat) := [{", ".join(f"({core.lean_str(a)}, {int(k)})" for a, k in flip)}]
def indexShift : Int := {int(shift[1])}
def indexShiftGuard : String := {core.lean_str(str(shift[0]))}
def evenRemainder : Nat := {int(even)}
def inTransposeAxes : List Nat := {nats(tin[0])}
def outTransposeAxes : List Nat := {nats(tout[0])}
def inTransposeWhen : String := {core.lean_str(tin[1])}
def currentOrder : String := {core.lean_str(str(cur))}
def outTransposeWhen : String := {core.lean_str(tout[1])}
def readTranspose : Bool := {rd}
def writeTranspose : Bool := {wr}
def shapeUnpack : List String := {core.lean_str_list(unpack)}
def defaultNumberedFrom1 : Bool := {"true" if d_b1 else "false"}
def defaultInputOrder : String := {core.lean_str(str(d_in))}
def defaultOutputOrder : String := {core.lean_str(str(d_out))}
def signatures : List (String × String) := {pairs(sig)}
def wrappers : List (String × List String) := [{", ".join("(" + core.lean_str(f) + ", " + core.lean_str_list(w) + ")" for f, w in wraps)}]
""" + "".join(f"def {lean} : List String :=\n  {strs(b)}\n" for lean, b in bodies) + "end CryoCat.Gen.C15\n"


# ------------------------------------------------------------------ independent MRC parser
MODES = {0: ("i1", 1), 1: ("<i2", 2), 2: ("<f4", 4), 6: ("<u2", 2), 12: ("<f2", 2)}


def parse_mrc(path):
    raw = open(path, "rb").read()
    if len(raw) < 1024:
        return dict(ok=False, why=f"file of {len(raw)} bytes has no 1024-byte header")
    nx, ny, nz, mode = struct.unpack("<4i", raw[0:16])
    mapc, mapr, maps = struct.unpack("<3i", raw[64:76])
    nsymbt = struct.unpack("<i", raw[92:96])[0]
    stamp = raw[212:214]
    if mode not in MODES:
        return dict(ok=False, why=f"mode {mode}", dims=[nx, ny, nz], mode=mode)
    dt, size = MODES[mode]
    payload = raw[1024 + nsymbt:]
    n = nx * ny * nz
    size_ok = len(payload) == n * size and stamp[:1] == b"\x44"      # little-endian machine stamp
    if mode == 2:
        codes = np.frombuffer(payload[: (len(payload) // 4) * 4], dtype="<u4").astype(np.int64)
    else:
        codes = np.frombuffer(payload[: (len(payload) // size) * size], dtype=dt).astype(np.int64)
    return dict(ok=bool(size_ok) and (mapc, mapr, maps) == (1, 2, 3), why="" if size_ok else "payload size / machine stamp",
                dims=[nx, ny, nz], mode=mode, axes=[mapc, mapr, maps], codes=codes)


# ------------------------------------------------------------------ case content
DEFAULTS = dict(input_order="xyz", output_order="xyz", output_file=None, output_file_prefix=None, numbered_from_1=True,
                new_width=None, new_height=None)      # the DOCUMENTED signature defaults (G1): a keyword listed in case["omit"] is left out when its value equals this


def values(case):
    """voxel codes of the input stack, flat in n,y,x (C) order: int16 values, or float32 bit patterns"""
    n, h, w = case["n"], case["h"], case["w"]
    size = n * h * w
    a, c = case["va"] | 1, case["vc"]
    k = np.arange(size, dtype=np.int64)
    if case["op"] == "bin":   # integer numerators over a power-of-two denominator (see numerators): every input value is exact
        num = numerators(case)
        if case["dtype"] == "i16":
            return num
        return (num.astype(np.float64) / case["den"]).astype(np.float32).view(np.uint32).astype(np.int64)
    if case["dtype"] == "i16":
        return (k * a + c) % 65536 - 32768
    bits = (k * a + c) % (1 << 32)
    return bits & ~np.int64(1 << 23)   # exponent never 255: finite values, +-0 and subnormals included


def numerators(case):
    """binning inputs: voxel value = numerator / case['den']. bin_range (round 7: the old stream alone never reached the range where
    an accumulator of the input dtype overflows):
      small  |num| <= 2000, den 1/2/4: every block sum and mean is exact also in float32 (compared exactly)
      counts 3000..9000 (realistic detector counts; a 4x4 block sums to > 32767)
      full   the whole int16 range -32768..32767
      large  |num| < 2^24 over den = 1024: float32-exact values up to 16384 with ten fractional bits (float32 stacks only)"""
    n, h, w = case["n"], case["h"], case["w"]
    k = np.arange(n * h * w, dtype=np.int64)
    base = k * (case["va"] | 1) + case["vc"]
    r = case.get("bin_range", "small")
    if r == "counts":
        return 3000 + base % 6001
    if r == "full":
        return base % 65536 - 32768
    if r == "large":
        return base % ((1 << 25) - 1) - ((1 << 24) - 1)
    return base % 4001 - 2000


def _bin_tol(case):
    """H4: absolute tolerance of a float32 block mean outside the exact `small` stream. skimage's downscale_local_mean reduces a
    float32 stack with np.mean in float32: a sum of N = b*b terms in any order has |error| <= (N-1) u sum|x| <= (N-1) u N max|x|
    (u = 2^-24), the division by N adds u |mean| <= u max|x|; so |returned - exact mean| <= N u max|x| (1 % slack for the
    second-order terms). int16 stacks are reduced in float64 (block sums < 2^53: exact) and compared exactly, as before."""
    if case["dtype"] != "f32" or case.get("bin_range", "small") == "small":
        return 0.0
    maxabs = float(np.max(np.abs(numerators(case)))) / case.get("den", 1)
    return 1.01 * case["b"] * case["b"] * 2.0 ** -24 * maxabs


def array_of(codes, dtype):
    if dtype == "i16":
        return codes.astype(np.int16)
    return codes.astype(np.uint32).view(np.float32)


def stack_of(case):
    return array_of(values(case).reshape(case["n"], case["h"], case["w"]), case["dtype"])


def codes_of(arr, dtype):
    """canonical integer codes of an array the implementation returned. NO coercion of the dtype (G3): an array of another
    dtype than the stack's gets codes that cannot be mistaken for the expected ones unless every value is exactly
    representable (the dtype itself is recorded separately and judged)."""
    arr = np.ascontiguousarray(arr)
    if dtype == "i16":
        if arr.dtype.kind in "iu":
            return arr.astype(np.int64)
        if arr.dtype.kind != "f":
            return np.full(arr.shape, 1 << 41, dtype=np.int64)
        return np.where(np.isfinite(arr) & (arr == np.round(arr)), arr, 1 << 40).astype(np.int64)
    if arr.dtype == np.float32:
        return arr.view(np.uint32).astype(np.int64)
    if arr.dtype.kind == "f":      # float64/float16 result for a float32 stack: exact values keep their float32 code, others are marked
        a32 = arr.astype(np.float32)
        exact = (a32.astype(arr.dtype) == arr) | (np.isnan(arr))
        return np.where(exact, a32.view(np.uint32).astype(np.int64), 1 << 40)
    if arr.dtype.kind in "iu":
        return np.ascontiguousarray(arr.astype(np.float32)).view(np.uint32).astype(np.int64)
    return np.full(arr.shape, 1 << 41, dtype=np.int64)


def _type_tag(r):
    return f"{type(r).__module__.split('.')[0]}.{type(r).__name__}:{getattr(r, 'dtype', None)}"


# ------------------------------------------------------------------ generators
def _params_for(rng, op, case, tier, bad):
    """operation-specific parameters for a stack of case['n'] x case['h'] x case['w']"""
    n, h, w = case["n"], case["h"], case["w"]
    out = {}
    if op == "sort":
        m = n
        r = rng.random()
        if r < 0.06:
            m = rng.randint(1, n - 1)                                  # fewer angles than images (outside the statement)
        elif r < 0.10:
            m = n + rng.randint(1, 3)                                  # more angles than images
        if rng.random() < 0.35:                                        # dyadic grid (exact in every float format)
            grid = rng.choice([1, 2, 4, 8])
            pool = rng.sample(range(-70 * grid, 70 * grid + 1), m)     # distinct: no ties
            txt = [repr(p / grid) for p in pool]
        else:
            # H3: angles as a user writes them: decimal, 1-4 decimals, off the dyadic grid, with pairs that differ only in the
            # last written digit (0.01-0.03 deg for two decimals, 1e-4 deg for four) so that any loss of precision between
            # the file and the sort key (rounding, float16, a "%.1f" round trip) changes the order
            dec = rng.choice([1, 2, 2, 2, 3, 3, 4, 4])
            scale = 10 ** dec
            pool = rng.sample(range(-70 * scale, 70 * scale + 1), m)
            if m >= 2 and rng.random() < 0.7:
                for _ in range(rng.randint(1, max(1, m // 2))):
                    i, j = rng.sample(range(m), 2)
                    cand = pool[j] + rng.choice([-1, 1]) * rng.choice([1, 1, 1, 2, 3, max(1, scale // 25)])   # all < 0.05 deg
                    if cand not in pool:
                        pool[i] = cand
            txt = [_dec_text(p, dec, rng) for p in pool]
        r = rng.random()
        if r < 0.25:                                                   # descending input: every close pair must be swapped
            txt = sorted(txt, key=Fraction, reverse=True)
        elif r < 0.30:
            txt = sorted(txt, key=Fraction)
        if m >= 2 and rng.random() < 0.04 and not bad:                 # a tie (outside the statement: only "some ascending order" is judged)
            i, j = rng.sample(range(m), 2)
            txt[i] = txt[j] if rng.random() < 0.5 or "." not in txt[j] else txt[j] + "0"
        out["angles_txt"] = txt
        out["ang_src"] = rng.choice(["list", "list", "list", "array", "array", "array", "array32", "tlt", "tlt", "tlt", "rawtlt", "rawtlt",
                                     "mdoc", "mdoc", "mdoc"])
        if rng.random() < 0.03:
            out["ang_src"] = "tuple"                                   # array-like, but tlt_load refuses it loudly (outside; model: arg-type)
        if out["ang_src"] == "mdoc" and rng.random() < 0.75:
            out["mdoc_style"] = rng.randrange(1, 1 << 20)              # header titles / section keys / position of TiltAngle, see _mdoc_text
        if out["ang_src"] in ("tlt", "rawtlt", "mdoc") and rng.random() < 0.4:
            out["file_style"] = rng.choice(["crlf", "blank-end", "pad", "no-final-newline"] if out["ang_src"] != "mdoc" else ["crlf"])
        if all(re.fullmatch(r"-?\d+", t) for t in txt) and rng.random() < 0.6:
            out["ang_int"] = True                                      # python ints / an int64 array
    elif op == "remove":
        base1 = rng.random() < 0.5
        b = 1 if base1 else 0
        r = rng.random()
        if n > 8 and r < 0.35:
            k = n - rng.randint(2, 4)                                  # large stacks reduced to 2-4 remaining tilts
        elif r < 0.05:
            k = n
        else:
            k = rng.randint(1, max(1, n - 1))
        idxs = [i + b for i in rng.sample(range(n), k)]
        if rng.random() < 0.05:
            idxs.append(rng.choice(idxs))
        src = rng.choice(["list", "array", "list", "array", "array32", "txt", "csv"])
        if rng.random() < 0.03:
            src = "tuple"                                              # array-like, but indices_load refuses it loudly (outside; model: arg-type)
        if bad:
            r = rng.random()
            if r < 0.3:
                idxs = []
            elif r < 0.65:
                idxs.insert(rng.randrange(len(idxs) + 1), n + b)      # one past the last image
            else:
                idxs.insert(rng.randrange(len(idxs) + 1), b - 1)      # one before the first image
            if src == "csv" or (src == "txt" and not idxs):
                src = "list"
        if not bad and src in ("txt", "csv") and rng.random() < 0.08:
            idxs = []                                                  # an index file without entries / a csv with nothing flagged: nothing is removed (outside; model only)
        out.update(idxs=idxs, base1=base1, idx_src=src)
        if src == "csv":
            out["csv_removed_col"] = rng.random() < 0.45
            if out["csv_removed_col"] and rng.random() < 0.7:
                # rows of images that were removed earlier (Removed = True): `df = df[~df["Removed"]]` drops them BEFORE the positions of
                # the flagged rows are taken, so the stack's n images are the remaining rows; [insert before stack row p, its ToBeRemoved flag]
                out["csv_removed_rows"] = sorted([rng.randint(0, n), rng.random() < 0.5] for _ in range(rng.randint(1, 3)))
    elif op == "flip":
        r = rng.random()
        if r < 0.4:
            axes, kind = [rng.choice(["x", "y", "z"])], "str"
        else:
            axes, kind = [rng.choice(["x", "y", "z"]) for _ in range(rng.randint(1, 3))], ("tuple" if r > 0.93 else "list")
        if bad:
            axes = axes + [rng.choice(["w", "X", "xy", ""])]
            kind = "list" if len(axes) > 1 else kind
            if rng.random() < 0.3:
                axes, kind = axes[-1:], "str"                            # a single bad axis name passed as a plain string
        out.update(axes=axes if kind != "str" else axes[0], axes_kind=kind)
    elif op == "crop":
        nw = None if rng.random() < 0.15 else rng.randint(1, w)
        nh = None if rng.random() < 0.15 else rng.randint(1, h)
        if bad:
            if rng.random() < 0.5:
                nw = w + rng.randint(1, 3)
            else:
                nh = h + rng.randint(1, 3)
            if rng.random() < 0.3:
                nw, nh = w + 1, h + 1
        out.update(new_w=nw, new_h=nh, size_kind=rng.choice(["int", "int", "int", "str", "float", "npint"]))
    elif op == "bin":
        b = rng.choice([1, 2, 2, 2, 3, 3, 4, 4, 5, 8, 8])
        if rng.random() < 0.6:
            fit = lambda s: (s // b) * b if (s // b) * b >= 4 else b * -(-4 // b)
            out["h"], out["w"] = fit(h), fit(w)
        rg = rng.choice(["small", "counts", "full", "full"] if case["dtype"] == "i16" else ["small", "small", "counts", "large", "large"])
        out.update(b=b, bin_range=rg, den={"small": rng.choice([1, 2, 4]), "large": 1024}.get(rg, 1) if case["dtype"] == "f32" else 1)
    return out


def _dec_text(p, dec, rng):
    """the integer p / 10**dec as a user writes it: fixed number of decimals, sometimes with the trailing zeros dropped"""
    scale = 10 ** dec
    t = f"{'-' if p < 0 else ''}{abs(p) // scale}.{abs(p) % scale:0{dec}d}"
    if t.endswith("0") and rng.random() < 0.3:
        t = t.rstrip("0")
        t = t + "0" if t.endswith(".") and rng.random() < 0.6 else t.rstrip(".")
    return t if Fraction(t) != 0 or not t.startswith("-") else t[1:]


DEC_RE = re.compile(r"[+-]?(\d+\.?\d*|\.\d+)")      # the grammar of the Lean model's parseDec


def _atxt(case):
    """the tilt angles of a sort case as decimal TEXT, one per image (legacy corpus cases carry float64 bit patterns)"""
    if "angles_txt" in case:
        return list(case["angles_txt"])
    return [repr(b2f(a)) for a in case["angles"]]


def _akey(case):
    return "angles_txt" if "angles_txt" in case else "angles"


def _keys_as_read(case):
    """the sort keys as the code sees them: float32 for one-value-per-line files and float32 arrays, float64 otherwise"""
    src = _src_of(case, "ang_src")
    dt = np.float32 if src in ("tlt", "rawtlt", "array32") else np.float64
    return [dt(float(t)) for t in _atxt(case)]


def _omit(rng):
    if rng.random() < 0.35:        # G1: ~1/3 of the cases leave out every keyword whose value is the signature default
        names = ["input_order", "output_order", "output_file", "numbered_from_1", "new_width", "new_height"]
        return names if rng.random() < 0.6 else [x for x in names if rng.random() < 0.6]
    return []


def _new_case(rng, op, tier):
    big = rng.random() < (0.25 if tier != "search" else 0.05)
    n = rng.randint(2, 25 if big else 8)
    hi = 40 if big else (16 if tier != "search" else 9)
    if op == "remove" and not big and rng.random() < 0.35:     # many tilts, small images: index subsets of large stacks
        n = rng.randint(9, 25)
        hi = 9
    h = rng.randint(4, hi)
    w = rng.randint(4, hi)
    if h == w and rng.random() < 0.9:
        w = w + 1 if w < 40 else w - 1
    case = dict(op=op, n=n, h=h, w=w, dtype=rng.choice(["f32", "i16"]), va=rng.randrange(1, 1 << 16), vc=rng.randrange(0, 1 << 16),
                cfg=[rng.choice(INPUTS), rng.choice(["xyz", "zyx"]), rng.random() < 0.5], view=rng.random() < 0.5, as_array=rng.random() < 0.5,
                omit=_omit(rng))
    if case["omit"] and rng.random() < 0.7:    # make the reference configuration (the one the model executes) one where defaults matter
        case["cfg"] = [rng.choice(["arr_xyz", "file_xyz"]), "xyz", rng.random() < 0.4]
    bad = rng.random() < 0.08
    case.update(_params_for(rng, op, case, tier, bad))
    if op == "remove" and case["omit"] and rng.random() < 0.6 and not bad:   # with the keyword omitted the indices are 1-based
        b = 1 if case["base1"] else 0
        case["idxs"] = [i - b + 1 for i in case["idxs"]]
        case["base1"] = True
    return case


def _distinct_prefix(txt, n, rng):
    """exactly n angles without ties for a sequence step"""
    out, seen = [], set()
    for t in txt:
        if Fraction(t) not in seen and len(out) < n:
            out.append(t)
            seen.add(Fraction(t))
    return out if len(out) == n else [repr(float(i * 3 - 20) + 0.25) for i in rng.sample(range(n), n)]


def _new_seq(rng, tier):
    """G2: several library calls in one process on the same file path / the same caller-owned argument objects"""
    mode = rng.choice(["inplace", "inplace", "rewrite", "shared", "shared"])
    n = rng.randint(3, 12)
    h = rng.randint(4, 9)
    w = rng.randint(4, 9)
    if h == w:
        w += 1
    case = dict(op="seq", mode=mode, n=n, h=h, w=w, dtype=rng.choice(["f32", "i16"]), va=rng.randrange(1, 1 << 16), vc=rng.randrange(0, 1 << 16),
                out=rng.choice(["xyz", "zyx"]), omit=_omit(rng))
    cur = dict(case)
    if mode == "shared":
        op = rng.choice(["remove", "remove", "remove", "sort", "flip"])
        st = dict(op=op, n=n, h=h, w=w, dtype=case["dtype"])
        st.update(_params_for(rng, op, st, tier, False))
        if op == "remove":
            st["idx_src"] = rng.choice(["array", "array", "array", "list", "txt"])
        if op == "sort":
            st["angles_txt"] = _distinct_prefix(st["angles_txt"], n, rng)
            st["ang_src"] = rng.choice(["array", "array", "list", "tlt"])
        if op == "flip" and st["axes_kind"] == "tuple":
            st["axes_kind"] = "list"
        case["steps"] = [st]
        case["inputs"] = [rng.choice(["arr_zyx", "arr_xyz", "file"]) for _ in range(rng.randint(2, 4))]
        return case
    steps = []
    if rng.random() < 0.4:
        ax = rng.choice([["x"], ["y"], ["z"], ["x", "y"], ["z", "x"]])
        kind = "str" if len(ax) == 1 and rng.random() < 0.5 else "list"
        for _ in range(rng.randint(2, 3)):
            steps.append(dict(op="flip", axes=ax if kind == "list" else ax[0], axes_kind=kind))
    else:
        for _ in range(rng.randint(2, 3)):
            op = rng.choice(["flip", "flip", "sort", "remove", "crop"])
            if op == "remove" and cur["n"] < 3:
                op = "flip"
            st = dict(op=op)
            p = _params_for(rng, op, cur, tier, False)
            if op == "sort":
                p["angles_txt"] = _distinct_prefix(p["angles_txt"], cur["n"], rng)
                p["ang_src"] = rng.choice(["list", "array"])
            if op == "remove":
                b = 1 if p["base1"] else 0
                keep_min = 2
                uniq = sorted(set(p["idxs"]))
                uniq = uniq[:max(1, cur["n"] - keep_min)]
                p["idxs"] = uniq
                p["idx_src"] = rng.choice(["list", "array"])
                cur["n"] -= len(uniq)
            if op == "crop":
                p["new_w"] = None if p["new_w"] is None else max(4, p["new_w"])
                p["new_h"] = None if p["new_h"] is None else max(4, p["new_h"])
                cur["w"] = cur["w"] if p["new_w"] is None else p["new_w"]
                cur["h"] = cur["h"] if p["new_h"] is None else p["new_h"]
            if op == "flip" and p["axes_kind"] == "tuple":
                p["axes_kind"] = "list"
            st.update(p)
            steps.append(st)
    for k, st in enumerate(steps):
        st["write"] = True if mode == "inplace" else (rng.random() < 0.3)
        if mode == "rewrite" and k > 0:
            st["rewrite"] = [rng.randrange(1, 1 << 16), rng.randrange(0, 1 << 16)]
    case["steps"] = steps
    return case


def generate(rng, tier, n):
    for t in range(n):
        if rng.random() < 0.12:
            yield _new_seq(rng, tier)
        else:
            yield _new_case(rng, OPS[t % len(OPS)] if rng.random() < 0.8 else rng.choice(OPS), tier)


def _resize(case, n=None, h=None, w=None):
    c = dict(case)
    n = c["n"] if n is None else n
    h = c["h"] if h is None else h
    w = c["w"] if w is None else w
    if n < 2 or h < 4 or w < 4 or (n, h, w) == (c["n"], c["h"], c["w"]):
        return None
    b = 1 if c.get("base1") else 0
    if c["op"] == "sort":
        k = _akey(c)
        if len(c[k]) == c["n"]:
            c[k] = c[k][:n]
        elif len(c[k]) > c["n"]:
            c[k] = c[k][:n + 1]
        else:
            c[k] = c[k][:max(1, min(len(c[k]), n - 1))]
    if c["op"] == "remove":
        keep = [i for i in c["idxs"] if i - b < n or i - b == c["n"]]
        keep = [i if i - b < n else n + b for i in keep]
        if not keep and c["idxs"]:
            keep = [b]
        c["idxs"] = keep
    if c["op"] == "crop":
        if c["new_w"] is not None:
            c["new_w"] = min(c["new_w"], w) if c["new_w"] <= c["w"] else w + (c["new_w"] - c["w"])
        if c["new_h"] is not None:
            c["new_h"] = min(c["new_h"], h) if c["new_h"] <= c["h"] else h + (c["new_h"] - c["h"])
    c.update(n=n, h=h, w=w)
    return c


def shrink(case):
    if case["op"] == "seq":
        if case["mode"] == "shared":
            if len(case["inputs"]) > 2:
                yield dict(case, inputs=case["inputs"][:-1])
                yield dict(case, inputs=case["inputs"][1:])
        elif len(case["steps"]) > 1:
            yield dict(case, steps=case["steps"][:-1])
        if case.get("omit"):
            yield dict(case, omit=[])
        if (case["va"], case["vc"]) != (1, 0):
            yield dict(case, va=1, vc=0)
        return
    for kw in (dict(n=2), dict(n=3), dict(n=case["n"] // 2), dict(n=case["n"] - 1),
               dict(h=4), dict(w=5), dict(h=case["h"] // 2), dict(w=case["w"] // 2), dict(h=case["h"] - 1), dict(w=case["w"] - 1)):
        c = _resize(case, **kw)
        if c is not None:
            yield c
    if case["op"] == "remove" and len(case["idxs"]) > 1:
        for i in range(len(case["idxs"])):
            yield dict(case, idxs=case["idxs"][:i] + case["idxs"][i + 1:])
    if case["op"] == "flip" and isinstance(case["axes"], list) and len(case["axes"]) > 1:
        for i in range(len(case["axes"])):
            yield dict(case, axes=case["axes"][:i] + case["axes"][i + 1:])
    if case["op"] == "bin" and case.get("den", 1) != 1:
        yield dict(case, den=1)
    if case.get("omit"):
        yield dict(case, omit=[])
    for key, plain in (("ang_src", "list"), ("idx_src", "list"), ("size_kind", "int")):
        if case.get(key, plain) != plain and not (key == "idx_src" and case[key] in ("csv", "txt")):
            yield dict(case, **{key: plain})
    if (case["va"], case["vc"]) != (1, 0):
        yield dict(case, va=1, vc=0)


# ------------------------------------------------------------------ implementation
def _violations(case):
    """H1: the DOCUMENTED preconditions this case violates, each with the exception type the documentation announces, in the order
    the code checks them. Evaluated from the case alone (never from the text of a message)."""
    op, n, h, w = case["op"], case["n"], case["h"], case["w"]
    v = []
    if op == "crop":
        if case["new_w"] is not None and case["new_w"] > w:
            v.append(("crop-width", ValueError))
        if case["new_h"] is not None and case["new_h"] > h:
            v.append(("crop-height", ValueError))
    elif op == "remove":
        src = _src_of(case, "idx_src")
        b = 1 if case["base1"] else 0
        if src == "tuple":
            v.append(("arg-type", ValueError))
        if src not in ("csv", "txt") and not case["idxs"]:
            v.append(("empty-indices", ValueError))
        if any(i < b or i >= n + b for i in case["idxs"]):
            v.append(("index", IndexError))
    elif op == "flip":
        kind = case.get("axes_kind") or ("list" if isinstance(case["axes"], list) else "str")
        ax = case["axes"] if isinstance(case["axes"], list) else [case["axes"]]
        if kind == "tuple" or any(a not in ("x", "y", "z") for a in ax):
            v.append(("axis", ValueError))
    elif op == "sort":
        if _src_of(case, "ang_src") == "tuple":
            v.append(("arg-type", ValueError))
        if len(_atxt(case)) > n:
            v.append(("angle-index", IndexError))
    elif op == "split" and n == 1:
        v.append(("single-tilt", ValueError))
    return v


def _err_kind(e, case):
    """exception TYPE + WHICH documented precondition the case violates (H1). An exception on a case that violates nothing, or of
    another type than announced, is `other:<type>`; the message never takes part (it is kept aside for the report only)."""
    for kind, et in _violations(case):
        if type(e) is et:
            return kind
    return f"other:{type(e).__name__}"


def _in_cryocat(e):
    """G4: does the traceback pass through the code under test?"""
    import traceback
    return any("/cryocat/" in fr.filename.replace("\\", "/") for fr in traceback.extract_tb(e.__traceback__))


def _error_of(e, case):
    """(kind, message): only the kind is compared anywhere"""
    return (_err_kind(e, case) if _in_cryocat(e) else f"foreign:{type(e).__name__}"), f"{type(e).__name__}: {str(e)[:160]}"


def _src_of(case, key):
    d = case.get(key)
    if d is None:
        d = "array" if case.get("as_array") else "list"
    return d


MDOC_TITLES = ["[T = SerialEM: C15 harness]",
               "[T = SerialEM: Digitized on EMBL Krios Falcon 4i       27-Sep-26  10:31:05]",
               "[T =     Tilt axis angle = 85.3, binning = 1  spot = 8  camera = 0]",      # a real SerialEM title: several `=`
               "[T = TS_01.mrc.mdoc written by C15 harness, dose rate = 7.9 e/px/s]"]
MDOC_KEYS = [("StagePosition", "12.3456 -45.678"), ("Magnification", "42000"), ("Intensity", "0.117562"), ("ExposureDose", "3.0"),
             ("PixelSpacing", "1.35"), ("SubFramePath", "D:\\frames\\TS_01_{z:03d}.tif"), ("DateTime", "27-Sep-26  10:33:{z:02d}"),
             ("Defocus", "-3.5"), ("NumSubFrames", "8")]


def _mdoc_text(angles, style=0):
    """style 0: the fixed minimal template of the earlier rounds. style k > 0 (round 7): header with 1-3 titles (one of them with
    several `=`, as SerialEM writes it), 1-4 extra keys per image section in an order derived from k, TiltAngle at a position
    derived from k (first, middle or last key of the section). Every key line holds exactly one `=` (a second one makes the real
    `key, value = line.split("=")` raise — outside) and every section holds the same keys (as SerialEM writes them)."""
    if not style:
        txt = "PixelSpacing = 1.35\nImageFile = ts.mrc\nImageSize = 10 7\nDataMode = 1\n\n[T = SerialEM: C15 harness]\n\n"
        for z, a in enumerate(angles):
            txt += f"[ZValue = {z}]\nTiltAngle = {a}\nExposureDose = 3.0\n\n"
        return txt
    r = __import__("random").Random(style)
    titles = r.sample(MDOC_TITLES, r.randint(1, 3))
    if r.random() < 0.6 and MDOC_TITLES[2] not in titles:
        titles[r.randrange(len(titles))] = MDOC_TITLES[2]
    keys = r.sample(MDOC_KEYS, r.randint(1, 4))
    at = r.choice([0, len(keys) // 2, len(keys)])
    txt = "PixelSpacing = 1.35\nVoltage = 300\nImageFile = ts.mrc\nImageSize = 10 7\nDataMode = 1\n\n" + "".join(t + "\n\n" for t in titles)
    for z, a in enumerate(angles):
        lines = [f"{k} = {v.format(z=z)}" for k, v in keys]
        lines.insert(at, f"TiltAngle = {a}")
        txt += f"[ZValue = {z}]\n" + "\n".join(lines) + "\n\n"
    return txt


def _angle_file_text(case):
    """the exact text of the angle file of a sort case (deterministic: the adapter writes it, the model receives its lines)"""
    txt, src, style = _atxt(case), _src_of(case, "ang_src"), case.get("file_style", "plain")
    if src == "mdoc":
        body = _mdoc_text(txt, case.get("mdoc_style", 0))
    else:
        width = max(len(t) for t in txt) + 2 if style == "pad" else 0
        body = "".join((" " if src == "rawtlt" else "") + t.rjust(width) + "\n" for t in txt)
        if style == "blank-end":
            body += "\n"
        if style == "no-final-newline":
            body = body[:-1]
    return body.replace("\n", "\r\n") if style == "crlf" else body


def _make_arg(case, td, tag="arg"):
    """the caller-owned second argument, built ONCE per case and re-used for every call of the case (G2).
    Returns (object, snapshot function)"""
    op = case["op"]
    if op == "sort":
        txt = _atxt(case)
        src = _src_of(case, "ang_src")
        ang = [int(t) if case.get("ang_int") and re.fullmatch(r"[+-]?\d+", t) else float(t) for t in txt]
        if src == "list":
            return ang
        if src == "array":
            return np.array(ang)                                    # float64, or int64 when every angle is a python int
        if src == "array32":
            return np.array(ang, dtype=np.float32)
        if src == "tuple":
            return tuple(ang)
        path = os.path.join(td, f"{tag}.{'mdoc' if src == 'mdoc' else src}")
        with open(path, "w", newline="") as f:                      # the decimal text exactly as the case holds it
            f.write(_angle_file_text(case))
        return path
    if op == "remove":
        src = _src_of(case, "idx_src")
        if src == "list":
            return list(case["idxs"])
        if src == "array":
            return np.array(case["idxs"], dtype=np.int64)
        if src == "array32":
            return np.array(case["idxs"], dtype=np.int32)
        if src == "tuple":
            return tuple(case["idxs"])
        b = 1 if case["base1"] else 0
        if src == "txt":
            path = os.path.join(td, f"{tag}.txt")
            with open(path, "w") as f:
                f.write("".join(f"{i}\n" for i in case["idxs"]))
            return path
        path = os.path.join(td, f"{tag}.csv")
        flagged = {i - b for i in case["idxs"]}
        with open(path, "w") as f:
            f.write("ToBeRemoved,Removed\n" if case.get("csv_removed_col") else "ToBeRemoved\n")
            extra = case.get("csv_removed_rows") or []
            for i in range(case["n"] + 1):
                for pos, flag in extra:
                    if pos == i:
                        f.write(("True" if flag else "False") + ",True\n")
                if i < case["n"]:
                    f.write(("True" if i in flagged else "False") + (",False\n" if case.get("csv_removed_col") else "\n"))
        return path
    if op == "flip":
        kind = case.get("axes_kind") or ("list" if isinstance(case["axes"], list) else "str")
        if kind == "str":
            return case["axes"] if isinstance(case["axes"], str) else case["axes"][0]
        return tuple(case["axes"]) if kind == "tuple" else list(case["axes"])
    return None


def _snap(arg):
    if isinstance(arg, np.ndarray):
        return ("nd", str(arg.dtype), arg.tolist())
    if isinstance(arg, str) and os.path.isfile(arg):
        return ("file", open(arg, "rb").read())
    if isinstance(arg, (list, tuple)):
        return (type(arg).__name__, list(arg))
    return ("val", arg)


def _size_arg(case, v):
    if v is None:
        return None
    kind = case.get("size_kind", "int")
    return {"int": int(v), "str": str(v), "float": float(v), "npint": np.int64(v)}[kind]


def _kw(case, **pairs):
    omit = set(case.get("omit") or [])
    return {k: v for k, v in pairs.items() if not (k in omit and k in DEFAULTS and v == DEFAULTS[k] and type(v) == type(DEFAULTS[k]))}


def _passed(case, name, value):
    return name in _kw(case, **{name: value})


def _call(tiltstack, case, stack_arg, in_order, out_order, out_path, arg, omit_from=None):
    """one call of the real function; returns the list of returned objects and the list of files it should have written"""
    op = case["op"]
    oc = omit_from or case
    with contextlib.redirect_stdout(io.StringIO()):
        if op == "split":
            prefix = out_path[:-4] if out_path else None
            r = tiltstack.split_stack_even_odd(stack_arg, **_kw(oc, output_file_prefix=prefix, input_order=in_order, output_order=out_order))
            return list(r), ([prefix + "_even.mrc", prefix + "_odd.mrc"] if prefix else [])
        kw = _kw(oc, output_file=out_path, input_order=in_order, output_order=out_order)
        if op == "sort":
            r = tiltstack.sort_tilts_by_angle(stack_arg, arg, **kw)
        elif op == "remove":
            r = tiltstack.remove_tilts(stack_arg, arg, **_kw(oc, numbered_from_1=bool(case["base1"])), **kw)
        elif op == "flip":
            r = tiltstack.flip_along_axes(stack_arg, arg, **kw)
        elif op == "crop":
            r = tiltstack.crop(stack_arg, **_kw(oc, new_width=_size_arg(case, case["new_w"]), new_height=_size_arg(case, case["new_h"])), **kw)
        elif op == "bin":
            r = tiltstack.bin(stack_arg, case["b"] if case["as_array"] else str(case["b"]), **kw)
        else:
            raise ValueError(op)
    return [r], ([out_path] if out_path else [])


def _norm(r, out, dtype):
    """returned object -> codes in n,y,x order (None when it is not a 3-D numpy array)"""
    if not isinstance(r, np.ndarray) or r.ndim != 3:
        return None
    return codes_of(r if out == "zyx" else np.transpose(r, (2, 1, 0)), dtype)


def _same_codes(case, a, b):
    """two configurations return the same stack: bit for bit — except float32 block means outside the exact `small` stream, where the
    memory layout of the input (x,y,n view vs. n,y,x) changes the order of the float32 summation: each is within _bin_tol of the
    exact mean, so they are compared to twice that bound (H4)"""
    tol = _bin_tol(case) if case["op"] == "bin" else 0.0
    if tol == 0:
        return bool(np.array_equal(a, b))
    return bool(np.all(np.abs(_decode(case, a) - _decode(case, b)) <= 2 * tol))


def _file_detail(files, norm, rets, dtype):
    for k, f in enumerate(files):
        want_mode = {"int16": 1, "float32": 2}.get(str(getattr(rets[k], "dtype", "")), 1 if dtype == "i16" else 2)
        if not f["ok"]:
            return f"output file {k}: {f['why']}"
        if norm[k] is None:
            return f"output file {k}: the call returned {_type_tag(rets[k])}, not a 3-D array"
        if f["dims"] != list(norm[k].shape[::-1]):
            return f"output file {k}: header nx,ny,nz={f['dims']} but the returned stack is (x,y,n)={list(norm[k].shape[::-1])}"
        if f["mode"] != want_mode:
            return f"output file {k}: MRC mode {f['mode']} but the returned stack is {getattr(rets[k], 'dtype', None)}"
        if not np.array_equal(f["codes"], norm[k].ravel()):
            j = int(np.flatnonzero(f["codes"] != norm[k].ravel())[0])
            return f"output file {k}: voxel #{j} (x fastest) differs from the returned stack"
    return ""


def _write_mrc(path, arr):
    import mrcfile
    with mrcfile.new(path, overwrite=True) as m:
        m.set_data(np.ascontiguousarray(arr))


def run_impl(case):
    from cryocat import tiltstack
    if case["op"] == "seq":
        return _run_seq(case, tiltstack)
    X = stack_of(case)                                # n,y,x
    dtype = case["dtype"]
    Xc = codes_of(X, dtype)
    xyz = X.transpose(2, 1, 0) if case["view"] else np.ascontiguousarray(X.transpose(2, 1, 0))
    obs = dict(configs=[], ref=None)
    ref_cfg = list(case["cfg"])
    norm0 = None
    with tempfile.TemporaryDirectory(prefix="c15_") as td:
        in_path = os.path.join(td, "input.mrc")
        _write_mrc(in_path, X)
        p = parse_mrc(in_path)
        in_bytes = open(in_path, "rb").read()
        obs["input_file_ok"] = bool(p["ok"] and p["dims"] == [case["w"], case["h"], case["n"]] and np.array_equal(p["codes"], Xc.ravel()))
        arg = _make_arg(case, td)                      # ONE object for all 16 calls
        arg0 = _snap(arg)
        configs = [ref_cfg] + [[i, o, wr] for i in INPUTS for o in ("xyz", "zyx") for wr in (True, False) if [i, o, wr] != ref_cfg]
        for ci, (inp, out, wr) in enumerate(configs):
            sarg = {"arr_xyz": xyz, "arr_zyx": X, "file_xyz": in_path, "file_zyx": in_path}[inp]
            in_order = inp[-3:]
            out_path = os.path.join(td, f"out{ci}.mrc") if wr else None
            before = codes_of(sarg, dtype).copy() if not isinstance(sarg, str) else None
            rec = dict(cfg=[inp, out, wr])
            try:
                rets, paths = _call(tiltstack, case, sarg, in_order, out, out_path, arg)
            except Exception as e:
                rec["error"], rec["error_msg"] = _error_of(e, case)
                if ci == 0:
                    obs["ref"] = dict(error=rec["error"], error_msg=rec["error_msg"])
                else:
                    rec["same"] = obs["ref"].get("error") == rec["error"]
                    rec["detail"] = f"raises {rec['error']} ({rec['error_msg']})"
                rec["files_left"] = sorted(f for f in os.listdir(td) if f.startswith(f"out{ci}"))
                rets = None
            if (before is not None and not np.array_equal(before, codes_of(sarg, dtype))) or (before is None and open(in_path, "rb").read() != in_bytes):
                rec["mutated_input"] = True
            if _snap(arg) != arg0:
                rec["arg_modified"] = f"{arg0[1] if arg0[0] != 'file' else 'file'} -> {_snap(arg)[1] if arg0[0] != 'file' else 'file content changed'}"[:200]
            if rets is None:
                obs["configs"].append(rec)
                continue
            rec["types"] = [_type_tag(r) for r in rets]
            norm = [_norm(r, out, dtype) for r in rets]
            files = [parse_mrc(pth) if os.path.exists(pth) else dict(ok=False, why="file not written") for pth in paths]
            rec["file_detail"] = _file_detail(files, norm, rets, dtype)
            if any(a is None for a in norm):
                rec["not_array"] = True
                norm = [a if a is not None else np.zeros((0, 0, 0), dtype=np.int64) for a in norm]
            if ci == 0:
                norm0 = norm
                obs["ref"] = dict(returned=[dict(shape=list(getattr(r, "shape", [])), data=(codes_of(r, dtype).ravel().tolist() if isinstance(r, np.ndarray) else None)) for r in rets],
                                  written=[dict(dims=f.get("dims"), mode=f.get("mode"), data=f["codes"].tolist() if "codes" in f else None) for f in files],
                                  types=rec["types"])
                if case["op"] == "flip" and not rec.get("not_array"):
                    # the statement "flipping along an axis twice is the identity": feed the result back, same arguments
                    try:
                        again, _ = _call(tiltstack, case, rets[0], out, out, None, arg)
                        back = _norm(again[0], out, dtype)
                        obs["twice_identity"] = bool(back is not None and back.shape == Xc.shape and np.array_equal(back, Xc))
                    except Exception as e:
                        obs["twice_identity"] = False
                        obs["twice_error"] = " ".join(_error_of(e, case))
            else:
                if "error" in obs["ref"]:
                    rec["same"], rec["detail"] = False, f"returns although the reference configuration raises {obs['ref']['error']}"
                else:
                    same = len(norm) == len(norm0) and all(a.shape == b.shape and _same_codes(case, a, b) for a, b in zip(norm, norm0))
                    rec["same"] = bool(same)
                    if not same:
                        rec["detail"] = "shapes " + str([list(a.shape) for a in norm]) + " vs " + str([list(a.shape) for a in norm0]) \
                            if any(a.shape != b.shape for a, b in zip(norm, norm0)) else "voxels differ"
            obs["configs"].append(rec)
    return obs


def _step_case(case, st, shape):
    """a step of a sequence as a stand-alone single-operation case on a stack of the given shape"""
    return dict(st, n=shape[0], h=shape[1], w=shape[2], dtype=case["dtype"], omit=case.get("omit") or [])


def _run_seq(case, tiltstack):
    dtype, out = case["dtype"], case["out"]
    X = stack_of(dict(case, op="flip"))
    obs = dict(calls=[])
    with tempfile.TemporaryDirectory(prefix="c15s_") as td:
        p = os.path.join(td, "work.mrc")
        _write_mrc(p, X)
        if case["mode"] == "shared":
            st = _step_case(case, case["steps"][0], X.shape)
            Xx = np.ascontiguousarray(X.transpose(2, 1, 0))
            Xc = codes_of(X, dtype)
            arg = _make_arg(st, td)
            arg0 = _snap(arg)
            for k, inp in enumerate(case["inputs"]):
                sarg, in_order = {"arr_zyx": (X, "zyx"), "arr_xyz": (Xx, "xyz"), "file": (p, "xyz")}[inp]
                rec = dict(inp=inp, input=dict(dims=[X.shape[2], X.shape[1], X.shape[0]], data=Xc.ravel().tolist()))
                try:
                    rets, _ = _call(tiltstack, st, sarg, in_order, out, None, arg)
                    rec["types"] = [_type_tag(r) for r in rets]
                    nr = _norm(rets[0], out, dtype)
                    rec["returned"] = dict(shape=list(nr.shape), data=nr.ravel().tolist()) if nr is not None else None
                except Exception as e:
                    rec["error"], rec["error_msg"] = _error_of(e, st)
                if _snap(arg) != arg0:
                    rec["arg_modified"] = f"{arg0[1] if arg0[0] != 'file' else 'file'} -> {_snap(arg)[1] if arg0[0] != 'file' else 'changed'}"[:200]
                if not (np.array_equal(codes_of(X, dtype), Xc) and np.array_equal(codes_of(Xx, dtype), Xc.transpose(2, 1, 0))):
                    rec["mutated_input"] = True
                obs["calls"].append(rec)
            return obs
        for k, st0 in enumerate(case["steps"]):
            f = parse_mrc(p)
            if not f["ok"]:
                obs["calls"].append(dict(error=f"foreign:work file unreadable before call {k}: {f['why']}"))
                break
            nx, ny, nz = f["dims"]
            if st0.get("rewrite"):                       # the harness legitimately replaces the content of the SAME path (same shape and dtype)
                va, vc = st0["rewrite"]
                B = stack_of(dict(case, op="flip", n=nz, h=ny, w=nx, va=va, vc=vc))
                _write_mrc(p, B)
                f = parse_mrc(p)
            Xin = f["codes"].reshape(nz, ny, nx)
            st = _step_case(case, st0, (nz, ny, nx))
            arg = _make_arg(st, td, tag=f"arg{k}")
            rec = dict(input=dict(dims=[nx, ny, nz], data=Xin.ravel().tolist()), write=bool(st0.get("write")))
            bytes_before = open(p, "rb").read()
            try:
                rets, _ = _call(tiltstack, st, p, "xyz", out, p if st0.get("write") else None, arg)
                rec["types"] = [_type_tag(r) for r in rets]
                nr = _norm(rets[0], out, dtype)
                rec["returned"] = dict(shape=list(nr.shape), data=nr.ravel().tolist()) if nr is not None else None
                g = parse_mrc(p)
                if st0.get("write"):
                    rec["file_detail"] = _file_detail([g], [nr], rets, dtype)
                elif open(p, "rb").read() != bytes_before:
                    rec["mutated_input"] = True
            except Exception as e:
                rec["error"], rec["error_msg"] = _error_of(e, st)
                if open(p, "rb").read() != bytes_before:
                    rec["files_left"] = ["work.mrc rewritten although the call raised"]
            obs["calls"].append(rec)
            if "error" in rec:
                break
    return obs


# ------------------------------------------------------------------ model requests
def _request(case, data, inp, out, wr):
    """driver request for ONE call of a single-operation case; data = codes (n,h,w) of the stack the call receives.
    A keyword the adapter omitted is omitted here too: the model then applies the signature default held in Gen/C15.lean."""
    n, h, w = data.shape
    if inp == "arr_xyz":
        payload = dict(kind="arr", shape=[w, h, n], data=np.ascontiguousarray(data.transpose(2, 1, 0)).ravel().tolist())
    elif inp == "arr_zyx":
        payload = dict(kind="arr", shape=[n, h, w], data=data.ravel().tolist())
    else:
        payload = dict(kind="file", nx=w, ny=h, nz=n, data=data.ravel().tolist())
    req = dict(op=case["op"], input=payload, write=1 if wr else 0)
    in_order = "xyz" if inp in ("arr_xyz", "file_xyz", "file") else "zyx"
    if _passed(case, "input_order", in_order):
        req["in_xyz"] = 1 if in_order == "xyz" else 0
    if _passed(case, "output_order", out):
        req["out_zyx"] = 1 if out == "zyx" else 0
    op = case["op"]
    if op == "sort":
        # the angles go to the model as the decimal TEXT the file / list holds; Lean parses it exactly (Rat), nothing is rounded on the way
        src = _src_of(case, "ang_src")
        if src in ("tlt", "rawtlt", "mdoc"):      # ALL the lines of the file: the model extracts the column of angles itself
            req.update(angle_lines=_angle_file_text(case).split("\n"), ang_kind="mdoc" if src == "mdoc" else "tlt")
        else:
            req.update(angle_lines=_atxt(case), ang_kind="other" if src == "tuple" else "seq")
    elif op == "remove":
        src = _src_of(case, "idx_src")
        b = 1 if case["base1"] else 0
        req.update(idxs=sorted({i - b for i in case["idxs"]}) if src == "csv" else case["idxs"],
                   src={"txt": "txt", "csv": "csv", "tuple": "other"}.get(src, "list"))
        if _passed(case, "numbered_from_1", bool(case["base1"])):
            req["base1"] = 1 if case["base1"] else 0
    elif op == "flip":
        kind = case.get("axes_kind") or ("list" if isinstance(case["axes"], list) else "str")
        req.update(axes=case["axes"] if isinstance(case["axes"], list) else [case["axes"]], axes_kind={"str": "one", "list": "list"}.get(kind, "other"))
    elif op == "crop":
        req.update(new_w=-1 if case["new_w"] is None else case["new_w"], new_h=-1 if case["new_h"] is None else case["new_h"])
    elif op == "bin":
        req.update(b=case["b"], den=case.get("den", 1))
        if case["dtype"] == "i16":
            req["cast"] = "i16"
    return req


def requests(case, obs):
    if "error" in obs and "ref" not in obs and "calls" not in obs:
        return []
    if case["op"] == "seq":
        reqs = []
        for k, call in enumerate(obs.get("calls", [])):
            if "input" not in call:
                break
            nx, ny, nz = call["input"]["dims"]
            data = np.array(call["input"]["data"], dtype=np.int64).reshape(nz, ny, nx)
            st = _step_case(case, case["steps"][0 if case["mode"] == "shared" else k], (nz, ny, nx))
            inp = call.get("inp", "file")
            reqs.append(_request(st, data, inp, case["out"], bool(call.get("write"))))
        return reqs
    inp, out, wr = case["cfg"]
    n, h, w = case["n"], case["h"], case["w"]
    data = (numerators(case) if case["op"] == "bin" else values(case)).reshape(n, h, w)
    return [_request(case, data, inp, out, wr)]


# ------------------------------------------------------------------ the statement, evaluated independently
def _decode(case, codes):
    """codes -> exact values are only needed for binning; elsewhere codes are compared as opaque labels"""
    if case["dtype"] == "i16":
        return codes.astype(np.float64)
    return codes.astype(np.uint32).view(np.float32).astype(np.float64)


def _expect(case):
    """independent evaluation of the documented domain: ('ok', None) inside the statement's quantifier, ('reject', kind) where the
    documentation announces a refusal, ('outside', why) for inputs the statement does not speak about (judged against the model only)"""
    op, n, h, w = case["op"], case["n"], case["h"], case["w"]
    if op == "sort":
        txt = _atxt(case)
        if _src_of(case, "ang_src") == "tuple":
            return "outside", "angles passed as a tuple (tlt_load accepts a path, a list or an ndarray and refuses anything else)"
        m = len(txt)
        if not all(DEC_RE.fullmatch(t.strip()) for t in txt):
            return "outside", "an angle that is not a plain decimal number"
        if m <= n:
            # ties are decided BEFORE the length: a list shorter than the stack that holds a tie is in both classes, and the
            # position of tied images must never be compared with the (stable) model -- numpy's default argsort is not stable
            short = "" if m == n else "; the angle list is also shorter than the stack"
            if len({Fraction(t.strip()) for t in txt}) < m:
                return "ties", "tied angles (the statement says: without ties)" + short
            if len(set(_keys_as_read(case))) < m:
                # monotone rounding keeps the order of different angles unless it merges them; needs >= 7 significant digits (float32)
                return "ties", "different written angles that round to the same float in the reader's dtype" + short
        if m != n:
            return "outside", "the angle list has another length than the stack"
    if op == "remove":
        src = _src_of(case, "idx_src")
        b = 1 if case["base1"] else 0
        if src == "tuple":
            return "outside", "indices passed as a tuple (indices_load accepts a path, a list or an ndarray and refuses anything else)"
        if src not in ("csv", "txt") and not case["idxs"]:
            return "reject", "empty-indices"
        if any(i < b or i >= n + b for i in case["idxs"]):
            return "reject", "index"
        if src in ("csv", "txt") and not case["idxs"]:
            return "outside", "an index file without entries"
    if op == "flip":
        kind = case.get("axes_kind") or ("list" if isinstance(case["axes"], list) else "str")
        if kind == "tuple":
            return "outside", "axes passed as a tuple (documented: list of str)"
        ax = case["axes"] if isinstance(case["axes"], list) else [case["axes"]]
        if any(a not in ("x", "y", "z") for a in ax):
            return "reject", "axis"
    if op == "crop":
        if case["new_w"] is not None and case["new_w"] > w:
            return "reject", "crop-width"
        if case["new_h"] is not None and case["new_h"] > h:
            return "reject", "crop-height"
    return "ok", None


def _spec(case, X, res):
    """X: codes (n,h,w) of the stack the call received; res: list of result stacks as code arrays in n,y,x order.
    Returns (kind, clause, detail) of the first clause of the statement that fails, else None. Nothing here looks at the model."""
    op = case["op"]
    n, h, w = X.shape
    if op == "sort":
        ang = [Fraction(t.strip()) for t in _atxt(case)]          # the angles AS WRITTEN, exact: no float in the oracle
        order = sorted(range(n), key=lambda i: ang[i])
        exp = X[order]
        if res[0].shape != exp.shape or not np.array_equal(res[0], exp):
            return "spec", "sort-ascending-permutation", f"result is not the input images in ascending-angle order {order}"
    elif op == "remove":
        b = 1 if case["base1"] else 0                        # for a csv file the harness flags rows idx - b: the same set of images
        keep = [i for i in range(n) if (i + b) not in set(case["idxs"])]
        exp = X[keep]
        if res[0].shape != exp.shape or not np.array_equal(res[0], exp):
            return "spec", "remove-keeps-exactly-the-others", f"result is not the images {keep} (0-based) in their original order; result has {res[0].shape[0]} images"
    elif op == "split":
        ev, od = res
        if ev.shape[1:] != (h, w) or od.shape[1:] != (h, w) or ev.shape[0] + od.shape[0] != n or not (od.shape[0] <= ev.shape[0] <= od.shape[0] + 1):
            return "spec", "split-interleaves-back", f"even/odd stacks have shapes {ev.shape}/{od.shape} for an input of {X.shape}"
        Z = np.empty_like(X)
        Z[0::2], Z[1::2] = ev, od
        if not np.array_equal(Z, X):
            return "spec", "split-interleaves-back", "interleaving the even and the odd stack does not give the input back"
    elif op == "flip":
        if res[0].shape != X.shape or sorted(res[0].ravel().tolist()) != sorted(X.ravel().tolist()):
            return "spec", "flip-is-a-rearrangement", f"flipped stack has shape {res[0].shape} / other voxels than the input {X.shape}"
        exp = X                                               # the documented convention (IMOD clip flipx / flipy / flipz), evaluated directly
        for a in (case["axes"] if isinstance(case["axes"], list) else [case["axes"]]):
            exp = {"x": exp[:, ::-1, :], "y": exp[:, :, ::-1], "z": exp[::-1, :, :]}[a]
        if not np.array_equal(res[0], exp):
            return "spec", "flip-reverses-the-named-axis", f"axes {case['axes']}: result is not the input with 'x' -> rows (y index), 'y' -> columns (x index), 'z' -> tilt order reversed"
    elif op == "crop":
        nh = h if case["new_h"] is None else case["new_h"]
        nw = w if case["new_w"] is None else case["new_w"]
        if res[0].shape != (n, nh, nw):
            return "spec", "crop-central-window", f"cropped stack has (n,h,w)={res[0].shape}, requested {(n, nh, nw)}"
        ok = False
        for sh in {(h - nh) // 2, (h - nh + 1) // 2}:       # margins on the two sides differ by at most one pixel
            for sw in {(w - nw) // 2, (w - nw + 1) // 2}:
                ok = ok or np.array_equal(res[0], X[:, sh:sh + nh, sw:sw + nw])
        if not ok:
            return "spec", "crop-central-window", "cropped stack is not a centred window of the input (margins differing by at most one pixel)"
    elif op == "bin":
        b, den = case["b"], case.get("den", 1)
        N = numerators(case).reshape(n, h, w)
        fh, fw = h // b, w // b
        S = N[:, :fh * b, :fw * b].reshape(n, fh, b, fw, b).sum(axis=(2, 4))          # exact integer block sums
        got = _decode(case, res[0])
        if got.shape[0] != n or got.shape[1] < fh or got.shape[2] < fw:
            return "spec", "bin-block-means", f"binned stack has shape {got.shape}, expected at least {(n, fh, fw)}"
        g = got[:, :fh, :fw]
        mean = S.astype(np.float64) / float(b * b * den)
        if case["dtype"] == "f32":
            tol = _bin_tol(case)
            bad = (g != mean.astype(np.float32).astype(np.float64)) if tol == 0 else ~(np.abs(g - mean) <= tol)
            if bad.any():
                z, j, i = [int(v[0]) for v in np.nonzero(bad)]
                return "spec", "bin-block-means", f"block (tilt {z}, row {j}, col {i}): returned {g[z, j, i]}, block mean {Fraction(int(S[z, j, i]), b * b * den)}"
        else:
            trunc = np.sign(S) * (np.abs(S) // (b * b))           # the block mean truncated toward zero, in exact integer arithmetic
            far = ~(np.abs(g - mean) < 1.0) | ((S % (b * b) == 0) & (g != mean))
            if far.any():
                z, j, i = [int(v[0]) for v in np.nonzero(far)]
                return "spec", "bin-block-means", f"block (tilt {z}, row {j}, col {i}): returned {g[z, j, i]}, block mean {Fraction(int(S[z, j, i]), b * b)}"
            off = g != trunc
            if off.any():
                z, j, i = [int(v[0]) for v in np.nonzero(off)]
                return "corr", "bin-int16-cast-is-not-truncation", (f"block (tilt {z}, row {j}, col {i}): returned {g[z, j, i]}, block mean {Fraction(int(S[z, j, i]), b * b)}: "
                                                                   f"an integer neighbour of the mean, but not the mean truncated toward zero ({int(trunc[z, j, i])}) that the int16 cast is recorded to give")
    return None


def _model_diff(case, ref, model):
    """exact comparison of one call with the Lean model's answer"""
    if "error" in model:
        return f"model answers {model['error']}, implementation returned"
    if len(model["returned"]) != len(ref["returned"]):
        return "number of returned stacks"
    for k, (m, r) in enumerate(zip(model["returned"], ref["returned"])):
        if r is None or r.get("data") is None:
            return f"returned[{k}] is not an array"
        if m["shape"] != r["shape"]:
            return f"returned[{k}] shape {r['shape']} vs model {m['shape']}"
        d = _values_differ(case, m["data"], r["data"])
        if d:
            return f"returned[{k}] " + d
    if "written" in ref:
        if len(model["written"]) != len(ref["written"]):
            return f"{len(ref['written'])} files written vs model {len(model['written'])}"
        for k, (m, r) in enumerate(zip(model["written"], ref["written"])):
            if m["dims"] != r["dims"]:
                return f"file[{k}] header {r['dims']} vs model {m['dims']}"
            d = _values_differ(case, m["data"], r["data"])
            if d:
                return f"file[{k}] " + d
    return None


def _values_differ(case, mdata, rdata):
    if rdata is None or len(mdata) != len(rdata):
        return "payload length"
    if case["op"] != "bin" or case["dtype"] == "i16":      # int16 binning: the model applies the truncating cast itself
        if mdata != rdata:
            j = next(i for i, (a, b) in enumerate(zip(mdata, rdata)) if a != b)
            return f"voxel #{j}: implementation code {rdata[j]}, model {mdata[j]}"
        return None
    got = _decode(case, np.array(rdata, dtype=np.int64))
    q = np.array([a / b for a, b in mdata], dtype=np.float64)          # exact: dyadic/25-type quotients of small integers, correctly rounded
    tol = _bin_tol(case)
    bad = (got != q.astype(np.float32).astype(np.float64)) if tol == 0 else ~(np.abs(got - q) <= tol)
    if bad.any():
        j = int(np.flatnonzero(bad)[0])
        return f"voxel #{j}: implementation {got[j]}, model block mean {mdata[j][0]}/{mdata[j][1]}" + (f" (tolerance {tol:.3g})" if tol else "")
    return None


def max_bin_dev(case, obs, model):
    if case["op"] != "bin" or "error" in obs.get("ref", {}) or "error" in model or case["dtype"] == "i16":
        return None
    got = _decode(case, np.array(obs["ref"]["returned"][0]["data"], dtype=np.int64))
    q = np.array([a / b for a, b in model["returned"][0]["data"]], dtype=np.float64)
    return float(np.max(np.abs(got - q))) if got.shape == q.shape and got.size else None


def _judge_error(case, err, model, where, status, why, msg=""):
    """one call raised an exception of kind `err` (type + violated precondition, see _err_kind); `msg` is quoted, never compared"""
    out = []
    if err.startswith("foreign:"):            # G4: no frame of the traceback lies inside cryocat
        return [dict(kind="corr", clause="harness-or-library-raised", detail=f"{where}: {msg or err[8:]}")]
    if status == "ok":                        # decided without the model: the input is inside the statement's quantifier
        out.append(dict(kind="spec", clause="raises-on-valid-input", detail=f"{case['op']} raises {msg or err} {where}"))
    if "error" not in model:
        if status != "ok":
            out.append(dict(kind="corr", clause="raises-where-model-returns", detail=f"{case['op']} raises {err} [{msg}] {where} ({why}); the model returns"))
    elif model["error"] != "reject:" + err:
        out.append(dict(kind="corr", clause="error-kind", detail=f"implementation {err} [{msg}] vs model {model['error']} {where}"))
    return out


def _ascending_some_order(case, X, res):
    """tied angles (outside the statement): numpy's default argsort is not stable, so only this is checked — the result is the
    images that have an angle (the first m of the stack when the list holds m <= n angles: `ts.data[argsort(angles)]`) in SOME order
    that is ascending in the written angle (tied images in either order)"""
    ang = [Fraction(t.strip()) for t in _atxt(case)]
    if _expect(case)[1].startswith("different"):
        ang = _keys_as_read(case)
    n, m = X.shape[0], len(ang)
    if res[0].shape != (m,) + X.shape[1:]:
        return f"result has shape {res[0].shape}, input {X.shape} with {m} angles"
    first = {tuple(X[i].ravel().tolist()): i for i in range(n)}
    if len(first) < n:
        return None                              # two identical images: positions cannot be recovered, nothing to say
    pos = [first.get(tuple(res[0][k].ravel().tolist())) for k in range(m)]
    if None in pos or sorted(pos) != list(range(m)):
        return f"result is not a permutation of the {m} images that have an angle"
    if any(ang[pos[k]] > ang[pos[k + 1]] for k in range(m - 1)):
        return f"result order {pos} is not ascending in the angles"
    return None


def _judge_seq(case, obs, resps):
    out = []
    calls = obs.get("calls", [])
    for k, call in enumerate(calls):
        where = f"(call #{k + 1} of {len(calls)} in one process, mode {case['mode']}" + (f", input {call['inp']}" if "inp" in call else "") + ")"
        if "input" not in call:
            out.append(dict(kind="corr", clause="harness-or-library-raised", detail=call.get("error", "")[:300]))
            break
        nx, ny, nz = call["input"]["dims"]
        Xin = np.array(call["input"]["data"], dtype=np.int64).reshape(nz, ny, nx)
        st = _step_case(case, case["steps"][0 if case["mode"] == "shared" else k], (nz, ny, nx))
        model = resps[k] if k < len(resps) else {"error": "no-model-answer"}
        status, why = _expect(st)
        if call.get("arg_modified"):
            out.append(dict(kind="corr", clause="caller-owned-argument-modified", detail=f"{st['op']} {where} changed the object passed as its second argument: {call['arg_modified']}"))
        if call.get("mutated_input"):
            out.append(dict(kind="corr", clause="caller-owned-argument-modified", detail=f"{st['op']} {where} changed the stack / the input file it was given"))
        if "error" in call:
            out += _judge_error(st, call["error"], model, where, status, why, call.get("error_msg", ""))
            if call.get("files_left"):
                out.append(dict(kind="corr", clause="file-written-before-rejection", detail=f"{where}: {call['files_left']}"))
            continue
        r = call.get("returned")
        want = "numpy.ndarray:" + ("int16" if case["dtype"] == "i16" else "float32")
        if any(t != want for t in call.get("types", [])):
            out.append(dict(kind="corr", clause="dtype-changed", detail=f"{where}: returned {call['types']} for a {want} stack"))
        if r is None:
            out.append(dict(kind="spec", clause="returns-no-stack", detail=f"{st['op']} {where} returned {call.get('types')}"))
            continue
        res = [np.array(r["data"], dtype=np.int64).reshape(r["shape"])]
        if status == "ok" or (status == "reject" and st["op"] != "flip"):
            bad = _spec(st, Xin, res)
            if bad:
                out.append(dict(kind=bad[0], clause=bad[1], detail=f"{where}: {bad[2]}"))
        if call.get("file_detail"):
            out.append(dict(kind="spec", clause="file-holds-the-result", detail=f"{where}, output file = the input path: {call['file_detail']}"))
        if status == "ties":
            bad = _ascending_some_order(st, Xin, res)
            if bad:
                out.append(dict(kind="corr", clause="sort-ties-not-ascending", detail=f"{where}: {bad} ({why})"))
            continue
        d = _model_diff(st, dict(returned=[dict(shape=[r["shape"][0], r["shape"][1], r["shape"][2]] if case["out"] == "zyx" else r["shape"][::-1],
                                                data=(res[0] if case["out"] == "zyx" else np.ascontiguousarray(res[0].transpose(2, 1, 0))).ravel().tolist())]), model)
        if d:
            out.append(dict(kind="corr", clause="impl-vs-model", detail=f"{where}: {d}"))
    return out


def judge(case, obs, resps):
    out = []
    if "error" in obs and "ref" not in obs and "calls" not in obs:
        # run_impl itself failed outside the per-call handlers: the harness (or a library it uses) raised — never a spec finding (G4)
        kind = "spec" if obs.get("where") else "corr"
        return [dict(kind=kind, clause="impl-raises-outside-a-call" if obs.get("where") else "harness-or-library-raised", detail=obs["error"] + " @" + obs.get("where", ""))]
    if case["op"] == "seq":
        return _judge_seq(case, obs, resps)
    model = resps[0]
    ref = obs["ref"]
    status, why = _expect(case)
    if not obs.get("input_file_ok", True):
        out.append(dict(kind="corr", clause="input-file", detail="the MRC input file written for the case does not hold the stack (mrcfile vs harness parser)"))
    for c in obs["configs"]:
        if c.get("arg_modified"):
            out.append(dict(kind="corr", clause="caller-owned-argument-modified", detail=f"{case['op']} in configuration {c['cfg']} changed the object passed as its second argument (the same object is re-used for all calls): {c['arg_modified']}"))
            break
    for c in obs["configs"]:
        if c.get("mutated_input"):
            out.append(dict(kind="corr", clause="caller-owned-argument-modified", detail=f"{case['op']} in configuration {c['cfg']} changed the stack array / input file it was given"))
            break
    foreign = next((c for c in obs["configs"] if str(c.get("error", "")).startswith("foreign:")), None)
    if foreign is not None and not str(ref.get("error", "")).startswith("foreign:"):
        out.append(dict(kind="corr", clause="harness-or-library-raised", detail=f"configuration {foreign['cfg']}: {foreign.get('error_msg') or foreign['error'][8:]}"))
    # ---- rejections
    if "error" in ref:
        out += _judge_error(case, ref["error"], model, f"in configuration {case['cfg']}", status, why, ref.get("error_msg", ""))
        if ref["error"].startswith("foreign:"):
            return out
        for c in obs["configs"][1:]:
            if not c.get("same", True) and not str(c.get("error", "")).startswith("foreign:"):
                out.append(dict(kind="spec", clause="same-result-in-every-configuration", detail=f"configuration {c['cfg']} {c.get('detail', '')}, reference {case['cfg']} raises {ref['error']}"))
                break
        for c in obs["configs"]:
            if c.get("files_left"):
                out.append(dict(kind="corr", clause="file-written-before-rejection", detail=f"{c['cfg']}: {c['files_left']}"))
                break
        return out
    # ---- the statement on the reference configuration (normalised to n,y,x)
    inp, oo, wr = case["cfg"]
    want = "numpy.ndarray:" + ("int16" if case["dtype"] == "i16" else "float32")
    for c in obs["configs"]:                                 # G3: the type and dtype of what came back, not a coerced copy
        if any(t != want for t in c.get("types", [])):
            out.append(dict(kind="spec" if c.get("not_array") else "corr", clause="returns-no-stack" if c.get("not_array") else "dtype-changed",
                            detail=f"{c['cfg']}: returned {c['types']} for a {want} stack"))
            break
    if any(r.get("data") is None or len(r["shape"]) != 3 for r in ref["returned"]):
        return out
    res = []
    for r in ref["returned"]:
        a = np.array(r["data"], dtype=np.int64).reshape(r["shape"])
        res.append(a if oo == "zyx" else a.transpose(2, 1, 0))
    if status == "ok" or (status == "reject" and case["op"] != "flip"):
        # also when the documentation announces a refusal but the call returned: what it returned must still be what the statement says
        # (e.g. index 0 with 1-based numbering denotes no image: "exactly the other images" is then the whole stack)
        bad = _spec(case, values(case).reshape(case["n"], case["h"], case["w"]), res)
        if bad:
            out.append(dict(kind=bad[0], clause=bad[1], detail=f"configuration {case['cfg']}: {bad[2]}"))
        if case["op"] == "flip" and obs.get("twice_identity") is False:
            out.append(dict(kind="spec", clause="flip-twice-is-identity", detail=f"flipping along {case['axes']} twice does not give the input back (configuration {case['cfg']}) {obs.get('twice_error', '')}"))
    for c in obs["configs"]:
        if c.get("file_detail"):
            out.append(dict(kind="spec", clause="file-holds-the-result", detail=f"configuration {c['cfg']}: {c['file_detail']}"))
            break
    for c in obs["configs"][1:]:
        if not c.get("same", True) and not str(c.get("error", "")).startswith("foreign:"):
            out.append(dict(kind="spec", clause="same-result-in-every-configuration", detail=f"configuration {c['cfg']} vs {case['cfg']}: {c.get('detail', '')}"))
            break
    if status == "ties":
        # the model's sort is stable (Props: sort_ties_keep_input_order), numpy's default argsort need not be: no comparison of positions
        bad = _ascending_some_order(case, values(case).reshape(case["n"], case["h"], case["w"]), res)
        if bad:
            out.append(dict(kind="corr", clause="sort-ties-not-ascending", detail=f"configuration {case['cfg']}: {bad} ({why})"))
        return out
    # ---- correspondence with the Lean model (same defs as the theorems)
    d = _model_diff(case, ref, model)
    if d:
        out.append(dict(kind="corr", clause="impl-vs-model" if status != "reject" else "accepts-what-the-documentation-refuses",
                        detail=f"configuration {case['cfg']}: {d}" + (f" ({why})" if why else "")))
    return out


def nontrivial(case, obs):
    if case["op"] == "seq":
        calls = obs.get("calls", [])
        return len(calls) >= 2 and all("returned" in c and c["returned"] for c in calls) and any(c["returned"]["data"] != c["input"]["data"] for c in calls)
    ref = obs.get("ref") or {}
    if "error" in ref or case["h"] == case["w"] or case["n"] < 3:
        return False
    r = ref["returned"][0]
    inp, oo, wr = case["cfg"]
    shape = [case["n"], case["h"], case["w"]] if oo == "zyx" else [case["w"], case["h"], case["n"]]
    if r["shape"] != shape or len(ref["returned"]) > 1 or case["op"] == "bin":
        return True
    X = values(case).reshape(case["n"], case["h"], case["w"])
    X = X if oo == "zyx" else X.transpose(2, 1, 0)
    return r["data"] != np.ascontiguousarray(X).ravel().tolist()


def stats(case, obs, resps):
    n = case["n"]
    omit = case.get("omit") or []
    d = {"op": case["op"], "dtype": case["dtype"], "n_tilts": "2" if n == 2 else ("3-8" if n <= 8 else ("9-16" if n <= 16 else "17-25")),
         "shape": "h<w" if case["h"] < case["w"] else ("h>w" if case["h"] > case["w"] else "square"),
         "keywords_omitted(defaults exercised)": "none" if not omit else ("all-default-valued" if len(omit) == 6 else "some")}
    if case["op"] == "seq":
        calls = obs.get("calls", [])
        d.update({"seq_mode": case["mode"], "seq_calls": len(calls), "seq_ops": [s["op"] for s in case["steps"]],
                  "seq_outcome": ["reject:" + c["error"] if "error" in c else "ok" for c in calls]})
        if case["mode"] == "shared":
            d["seq_shared_arg"] = _src_of(case["steps"][0], "idx_src" if case["steps"][0]["op"] == "remove" else "ang_src") if case["steps"][0]["op"] != "flip" else "axes-list"
        return d
    ref = obs.get("ref") or {}
    status, _ = _expect(case)
    d.update({"max_side": "4-9" if max(case["h"], case["w"]) < 10 else ("10-19" if max(case["h"], case["w"]) < 20 else "20-40"),
              "model_cfg_input": case["cfg"][0], "model_cfg_out": case["cfg"][1], "model_cfg_write": str(case["cfg"][2]),
              "outcome": ("reject:" + ref["error"]) if "error" in ref else "ok", "impl_calls": len(obs.get("configs", [])), "domain": status})
    if case["op"] == "remove":
        left = n - len({i for i in case["idxs"]})
        d["remove"] = ("1-based" if case["base1"] else "0-based") + ("/keyword-omitted" if not _passed(case, "numbered_from_1", bool(case["base1"])) else "") \
            + ("/all" if left == 0 else "")
        d["remove_src"] = _src_of(case, "idx_src") + ("/Removed column" if case.get("csv_removed_col") else "") + (f"/{len(case['csv_removed_rows'])} Removed=True rows" if case.get("csv_removed_rows") else "") \
            + ("/no entries" if not case["idxs"] and _src_of(case, "idx_src") in ("txt", "csv") else "")
        d["remove_remaining"] = "0" if left <= 0 else ("1" if left == 1 else ("2-4" if left <= 4 else "5+")) + ("/n>8" if n > 8 else "")
    if case["op"] == "sort":
        txt = _atxt(case)
        m = len(txt)
        d["sort_angles"] = _src_of(case, "ang_src") + ("/ints" if case.get("ang_int") else "") + ("" if m == n else ("/fewer-angles" if m < n else "/more-angles"))
        fr = sorted(Fraction(t.strip()) for t in txt)
        gap = min([b - a for a, b in zip(fr, fr[1:])] or [Fraction(999)])
        d["sort_min_gap_deg"] = "tie" if gap == 0 else ("<=1e-4" if gap <= Fraction(1, 10000) else ("<=0.01" if gap <= Fraction(1, 100) else ("<0.05" if gap < Fraction(1, 20) else ">=0.05")))
        if _src_of(case, "ang_src") in ("tlt", "rawtlt", "mdoc"):
            d["sort_file_style"] = case.get("file_style", "plain")
        if _src_of(case, "ang_src") == "mdoc":
            t = _mdoc_text(["0"], case.get("mdoc_style", 0))
            d["sort_mdoc_template"] = ("fixed" if not case.get("mdoc_style") else f"{t.count('[T =')} titles") + ("/title with several =" if "Tilt axis angle =" in t else "") \
                + ("/TiltAngle first" if "]\nTiltAngle" in t else ("/TiltAngle last" if "TiltAngle = 0\n\n" in t else "/TiltAngle in the middle"))
        d["sort_angle_text"] = "dyadic" if all((Fraction(t.strip()) * 8).denominator == 1 for t in txt) else f"decimal/{max(len(t.partition('.')[2]) for t in txt)}dp"
        d["sort_input_order"] = "descending" if fr[::-1] == [Fraction(t.strip()) for t in txt] and m > 1 else ("ascending" if fr == [Fraction(t.strip()) for t in txt] else "mixed")
    if case["op"] == "flip":
        d["flip_axes"] = (case.get("axes_kind") or "") + ":" + ("".join(case["axes"]) if isinstance(case["axes"], list) else case["axes"])
    if case["op"] == "bin":
        d["bin_range"] = f"{case['dtype']}/{case.get('bin_range', 'small')}"
        d["bin"] = f"b={case['b']}" + ("" if case["h"] % case["b"] == 0 and case["w"] % case["b"] == 0 else "/partial-blocks")
        dev = max_bin_dev(case, obs, resps[0]) if resps else None
        if dev is not None:
            d["bin_max_dev_vs_exact_mean(float32)"] = "0" if dev == 0 else ("<2^-20" if dev < 2 ** -20 else ">=2^-20")
            tol = _bin_tol(case)
            if tol:
                d["bin_dev_over_tolerance(float32, non-exact streams)"] = "0" if dev == 0 else ("<1%" if dev < 0.01 * tol else ("<10%" if dev < 0.1 * tol else ("<=100%" if dev <= tol else ">100%")))
    if case["op"] == "crop":
        par = lambda full, new: "None" if new is None else ("same-parity" if (full - new) % 2 == 0 else "odd-margin")
        d["crop_w"], d["crop_h"] = par(case["w"], case["new_w"]), par(case["h"], case["new_h"])
        d["crop_size_type"] = case.get("size_kind", "int")
    return d


def sample_view(case):
    v = {k: (val if k != "angles" else [b2f(a) for a in val]) for k, val in case.items()}
    if case["op"] == "seq":
        v["steps"] = [{k: (val if k != "angles" else [b2f(a) for a in val]) for k, val in s.items()} for s in case["steps"]]
    return v


def classify(case, obs, finding):
    return None      # no open known finding (the former C15-K1, one-entry text index file, is fixed in the repository: 068f224)


# ------------------------------------------------------------------ probes of recorded assumptions
def probes(rng):
    out = []
    try:
        import mrcfile
        from skimage.transform import downscale_local_mean
        with tempfile.TemporaryDirectory(prefix="c15p_") as td:
            ok = True
            for dt in (np.int16, np.float32):
                a = (np.arange(3 * 5 * 7).reshape(3, 5, 7) * 37 % 1000 - 500).astype(dt)
                p = os.path.join(td, "p.mrc")
                mrcfile.write(p, a, overwrite=True)
                f = parse_mrc(p)
                back = mrcfile.open(p).data
                ok = ok and f["ok"] and f["dims"] == [7, 5, 3] and np.array_equal(f["codes"], codes_of(a, "i16" if dt == np.int16 else "f32").ravel()) \
                    and back.shape == (3, 5, 7) and np.array_equal(back, a)
            out.append(dict(name="mrc-parser-agrees-with-mrcfile", ok=bool(ok), detail="3x5x7 int16/float32, header nx,ny,nz = 7,5,3, x fastest"))
        a = np.array([[rng.randint(-9, 9) for _ in range(7)] for _ in range(5)], dtype=np.float64)[None]
        got = downscale_local_mean(a, (1, 2, 2))
        pad = np.zeros((1, 6, 8)); pad[:, :5, :7] = a
        exp = pad.reshape(1, 3, 2, 4, 2).mean(axis=(2, 4))
        out.append(dict(name="downscale_local_mean-is-zero-padded-block-mean", ok=bool(got.shape == exp.shape and np.array_equal(got, exp)), detail="5x7 image, factor 2"))
        x = np.array([2.5, -2.5, 3.75, -0.25])
        out.append(dict(name="astype-int16-truncates-toward-zero", ok=bool(list(x.astype(np.int16)) == [2, -2, 3, 0]), detail=""))
    except Exception as e:
        out.append(dict(name="probes-ran", ok=False, detail=f"{type(e).__name__}: {e}"))
    return out


LEVEL_TEXT = ("Lean 4 theorems about an executable model of the tilt-stack operations (sorting by angle is an ascending permutation of the images, judged on the "
              "exact rational value of the angles as written in the .tlt / .mdoc file or list (decimal text parsed in Lean), unique without ties; removal keeps exactly "
              "the other images in order for 1-/0-based indices and every index source, even/odd split interleaves back, flips are involutions that reverse the "
              "documented axis, the crop is the centred window, binning is the block mean and its int16 cast a truncation toward zero, x,y,n / n,y,x / MRC-file "
              "input give the same result and the written file holds it, also through the dtype cast and for each of the six real functions (binning: file_holds_result_bin)) for all stack sizes "
              "and all voxel values; the model is tied to the source by regenerated anchors (flip axis table, index shift, parity rule, transpose axes and "
              "conditions, signature defaults, the TiltStack -> write_out -> correct_order wrapper of each function, alpha-normalised dumps of the whole "
              "bodies of the six functions, the TiltStack methods, indices_load, tlt_load, one_value_per_line_read, the mdoc reader (Mdoc.__init__, _read_mdoc, "
              "_parse_images, _format_value, get_image_feature) and cryomap.read / cryomap.write) and by an exact differential run of the real functions in "
              "all 16 configurations and in multi-call sequences against the model")
LEVEL_NOTE = ("trusted: Lean kernel; translator anchors; harness MRC parser; numpy indexing and mrcfile I/O are modelled, not verified; binning is proved as "
              "exact block means over a field, the int16 cast is modelled as truncation toward zero (proved, compared exactly), the float32 rounding of the real "
              "code is only validated (exact on the generated dyadic inputs); angle lists of another length than the stack, tuple arguments, empty index files and tied angles are "
              "outside the statement (ties: only 'some ascending order' is checked — the model's sort is stable, numpy's default argsort is not promised to be); "
              "the sort key of the code is the written decimal rounded to float32 (one-value-per-line files) or float64, the model's is the exact decimal: "
              "equal orders as long as rounding merges no two angles (checked per case)")
TECHNIQUE = "Lean 4 proof (list induction, permutation/sortedness of merge sort, index algebra of transposition and reshape) + regenerated anchors + exact differential correspondence"
DESIGN_REF = "DESIGN.md section 4, C15"
