"""C12 — Fourier filters are the documented radial low/high/band-pass gains (DESIGN.md section 4, C12)."""
import os, ast, math, io, contextlib, tempfile, itertools
import numpy as np
import core
from core import f2b, b2f

PROP = "C12"
COUNT = {"quick": 150, "thorough": 1600, "search": 500}
PARALLEL = True
TOL = 1e-9          # measured gain / operator identities (FFT round-off); all values are O(1)
# "1 inside cutoff-4s-1 / 0 outside cutoff+4s+1": the tolerance of these two clauses is NOT chosen here. Props/C12.soft_gain_inside /
# soft_gain_outside prove 1-gain <= tail3 ker m_in (inside) and gain <= tail3 ker m_out (outside), tail3 = weight of the executed kernel at
# offsets of squared length > m; the driver evaluates both numbers (and, per bin, the hypotheses of the two theorems) and the judge uses
# them as they come (+ TOL for FFT round-off). m_in / m_out are the exact integers floor(M^2) / ceil(M^2)-1 for the margin M = 4s+1.
from fractions import Fraction
TINY = 8            # boxes with every edge <= TINY are also filtered end to end by the model's own DFT (driver op "filter")


def margin_m(s):
    """(m_in, m_out): offsets of squared length <= m_in have length <= M = 4s+1; offsets of squared length <= m_out have length < M"""
    M2 = (4 * Fraction(s) + 1) ** 2
    fl = M2.numerator // M2.denominator
    ce = -((-M2.numerator) // M2.denominator)
    return int(fl), int(ce) - 1


def margin_sets(dims, r, s):
    """the bins the statement calls inside (|k| <= r-4s-1) and outside (|k| >= r+4s+1), decided exactly on integers/rationals"""
    R2 = radius2(dims)
    M = 4 * Fraction(s) + 1
    lo, hi = Fraction(r) - M, Fraction(r) + M
    vals = np.unique(R2)
    ins = [int(v) for v in vals if lo >= 0 and Fraction(int(v)) <= lo * lo]
    outs = [int(v) for v in vals if hi <= 0 or Fraction(int(v)) >= hi * hi]
    return np.isin(R2, ins), np.isin(R2, outs)


_TAIL = {}


def tail_weight(s):
    """Python-side estimate of the same weight; used ONLY when the model gave no answer (that is already a finding) and in sample statistics"""
    if s not in _TAIL:
        t = int(4.0 * s + 0.5)
        x = np.arange(-t, t + 1)
        w = np.exp(-0.5 / (s * s) * x ** 2)
        w /= w.sum()
        q2 = x[:, None, None] ** 2 + x[None, :, None] ** 2 + x[None, None, :] ** 2
        w3 = w[:, None, None] * w[None, :, None] * w[None, None, :]
        _TAIL[s] = float(w3[q2 >= (4 * s + 1) ** 2].sum())
    return _TAIL[s]
RULE = ("one case = (box nx,ny,nz in 8..16 quick (4 % up to 48) / 8..48 thorough (plus a share of tiny boxes 5..8 that the model also filters end to end with its own DFT), cubic or not, even and odd; filter low|high|band; cutoff(s) 1..N/2 "
        "(incl. exactly shape[0]//2 with a hard edge) given as Fourier pixels or as resolution+pixel size on cubic AND non-cubic boxes (box edge = shape[0], the documented convention; incl. exact .5 ties of box*px/res); Gaussian width from "
        "{0,1,2,3,4} or a dyadic non-integer in (0,4]; band-passes with equal, default (3/2), arbitrary and 'narrow band with the softer low-pass edge' width pairs, nested and inverted; in ~30 % of the cases the width keyword(s) are OMITTED "
        "(signature defaults 3/2/3/2 run; the judged width is the documented default) and pixel_size is left out when unused; in ~20 % earlier low/high-pass calls with the same box/cutoff/width run first in the same process on the same array "
        "object; thorough and the search stage also sweep EVERY hard cutoff 1..N/2 on the cubic boxes 48 and 47 (lattice points exactly on the cutoff sphere), the search stage also soft edges (1, 2.7, 4) there; "
        "a band-pass has ONE pixel size (chosen once per case; every resolution-form cutoff runs the designed cutoff 1..N/2; ties only where round-half-even gives that cutoff; the Nyquist resolution 2*px exactly), in 25 % of the "
        "resolution-form bands one cutoff is given in pixels (mixed form); 8 % of the maps are uint8/int8/uint16/float16, 13 % big-endian / Fortran-ordered / strided; 7 % of the cutoffs are floats like 4.0; 4 % of the cases run the output_name branch once; 3 % 'reject' cases (no cutoff at all, or a resolution without pixel size: ValueError expected, the model's getFilterRadius = none); 12 % 'margin' cases (sigma<=2, box large enough for bins on both sides of cutoff±(4s+1)). Input = seeded normal random field (+DC offset; ~38 % of the maps are int16 / int32 arrays of amplitude 3e2..2e5, float64 maps scaled by 1e5 / 2e4 / 1e-5, or float32 maps as cryomap.read returns them; "
        "cutoffs are handed over as np.int64 in ~25 %, integral widths / pixel sizes as Python ints in ~30 % of the cases; widths include decimals such as 1.3, 2.7, 3.85) or a sweep of pure plane waves "
        "cos(2*pi*k.p/N+phase) over every integer frequency k of the box (small boxes) or a random subset). The real filter runs on the "
        "input, on a second field, on a*x+b*y, on a circularly shifted x, with the companion low-pass(es), with the documented defaults written out, with fourier_pixels=round(shape[0]*px/res), and once more at the end of the history; the caller's "
        "array is compared before/after EVERY call; the gain of every DFT bin is "
        "measured as fft(out)/fft(in) and compared with the Lean model's gain array; on tiny boxes the OUTPUT ARRAY is compared with the model's np.real(ifftn(fftn(x)*gain)), and the output on np.roll(x, s) with the model's pipeline on rollGrid d (-s) x. non-trivial = the measured gains contain a value "
        "> 0.5 and a value < 0.5 (the cutoff lies inside the box, something passes and something is stopped); distinct = distinct case content")
ASSUMPTIONS = [
    "numpy.fft.fftn/ifftn compute, within round-off, the exact separable DFT pair of the model (dft3/idft3 with twiddles exp(-2 pi i/n)), for which linearity, inversion, the shift theorem and the "
    "Hermitian symmetry of real input are PROVED (Props/C12.dft_is_transform_complex, dft_shift_theorem_complex, dft_hermitian_complex, idft_real_part_complex); these consequences are still probed on numpy.fft on every run, "
    "and on tiny boxes the model's DFT itself is executed against the real output, also on the rolled input; ifftshift rotates indices by n//2 (probed)",
    "skimage.filters.gaussian(mask, sigma) = separable correlation with exp(-q^2/(2 sigma^2)) normalised to unit sum on offsets |q| <= int(4 sigma+0.5), "
    "mode='nearest' (probed on an impulse and on an edge step every run; the model executes this kernel with Lean's Float.exp)",
    "float64 arithmetic of numpy ~ exact arithmetic: hard-edge masks are compared exactly (integers), everything else within 1e-9",
    "'gain 1 inside cutoff-4s-1 / 0 outside cutoff+4s+1' is checked with the PROVED bounds of Props/C12.soft_gain_inside/outside: 1-gain <= tail3(ker, floor((4s+1)^2)), "
    "gain <= tail3(ker, ceil((4s+1)^2)-1), both evaluated by the driver on the executed kernel together with the per-bin hypotheses (fitsInside/fitsOutside); "
    "the judge adds only the FFT round-off 1e-9",
    "'non-increasing in between' is judged exactly as far as it is a theorem, on every axis of every box: Props/C12.soft_eff_gain_axis_step_checked — every step of one index away from "
    "frequency 0 (Nyquist landing included) at every position of the other two indices raises the effective gain by at most faceRise/2, where faceRise = 0 unless the axis is even, the ball "
    "reaches its upper face (n//2 + cutoff + 1 >= n) and the kernel reaches n/2 (then: the kernel weight at offset n/2, evaluated by the driver on the executed kernel and cross-checked "
    "in Python). The judge adds only the FFT round-off 1e-9. No empirical bound is left in this clause (the former tail-weight bound on 26 rays is gone)",
    "the band-pass gain range [0,1] is checked on EVERY band-pass; NEGATIVE gains in [-1, 0) that the model predicts to 1e-9 are the open known findings C12-K1 (different edge widths) and C12-K2 (inverted band, "
    "equal widths), both only while bandpass == lowpass(lp) - lowpass(hp) holds on the same input; a gain above 1 or below -1 is never one of them",
    "the model's own DFT (naive separable, Float cos/sin twiddles) agrees with numpy.fft (pocketfft) within 1e-9 on boxes <= 8 per axis (compared on every such case)",
    "Python round(float) = round-half-even of the exact value of the double (the model decodes the IEEE bits and rounds exactly)",
    "maps are float64, int16 or int32 arrays (transformed in double precision: all clauses at 1e-9 x amplitude) or float32 arrays: numpy >= 2 transforms those in single precision, so for a float32 map the "
    "clause checked is 'same result as for the same values in float64' within 8*eps32*log2(N) x ||x|| in the 2-norm (forward-FFT error bound eta*log2 N, eta ~ 3.3 eps32, Higham Thm 24.2; measured <= 0.04*eps32*log2 N), "
    "while gains, linearity, shifts ... are measured on the float64 copy",
    "the statement is silent about: the caller's array being left unchanged, call-history independence, the meaning of an omitted keyword, the Python type of the Fourier-pixel count and the dtype of the result; "
    "deviations there are reported as kind 'corr' (model / documentation disagree), never as a spec violation",
    "the box edge of a non-cubic map is shape[0] (docstrings speak of 'box size'; anchored by box_edge_documented)",
]
TRUSTED = ["harness gain measurement fft(out)/fft(in) and the plane-wave generator (props/c12.py)", "Drv/C12.lean JSON glue, Float.exp/cos/sin, float bit decoding (Model/C12.fracOfBits)",
           "the step from the theorems' number types to the driver's: the *_complex theorems are about dft3/idft3 over the complex numbers with exact twiddles; the driver runs the SAME polymorphic terms at Cx Float with "
           "twiddles built from Float.cos/sin — that link is numeric (the model's DFT output is compared with the real output on boxes <= 8 per axis only; on boxes 9..48 numpy.fft is tied to the DFT laws by probes only); "
           "ValidKernel / UnimodalKernel are stated over ordered fields and cannot be instantiated at Float: that the executed Float kernel is non-negative, unit-sum, symmetric and non-increasing is probed every run",
           "the symbolic path/alpha-renaming dump of the translator (props/c12.py flow_paths/body_dump)"]

REL_MAP = "cryocat/cryomap.py"
REL_MASK = "cryocat/cryomask.py"


# ------------------------------------------------------------------ translator
# Anchors compare STRUCTURE and do not depend on the names of local variables: a function body is executed symbolically, every
# local variable is replaced by the expression it holds (parameters keep their names: they are API), and what is compared is, per
# control-flow path, the conditions taken, the calls made for their effect and the returned expression ("flow" anchors); bodies with
# in-place array statements are dumped whole with the locals renamed L0, L1, ... in order of first assignment ("body" anchors).
# Missing anchors fall back to the DOCUMENTED value (never to a value that would silently change the model) and set anchorsOk = false.
import copy as _copy


def _norm(n):
    return core.norm_expr(_canon(n))


LOG_CALLS = {"print", "warn", "warning", "info", "debug", "error", "log"}


class _Canon(ast.NodeTransformer):
    """H1: what a dump must NOT depend on. (a) the TEXT of log / exception messages: a `print(...)`, `warnings.warn(...)`,
    `logger.info(...)` call keeps only the expressions it formats (`print(f"… {e} …")` -> `print(e)`), a raised exception keeps
    only its type; (b) type annotations (dropped where arguments are dumped, `x: T = v` is treated as `x = v` by `_exec`);
    (c) two spellings of the same array: `np.ones(S) - M` and `1.0 - M` / `1 - M`, where `M` contains a `spherical_mask(S, …)`
    call with the SAME first argument `S` (then the broadcast `1 - M` has the shape of `np.ones(S) - M`): both become `1-M`."""

    def visit_Call(self, n):
        self.generic_visit(n)
        f = n.func
        name = f.attr if isinstance(f, ast.Attribute) else (f.id if isinstance(f, ast.Name) else None)
        if name in LOG_CALLS:
            keep = []
            for a in list(n.args) + [k.value for k in n.keywords]:
                if isinstance(a, ast.JoinedStr):
                    keep += [v.value for v in a.values if isinstance(v, ast.FormattedValue)]
                elif not (isinstance(a, ast.Constant) and isinstance(a.value, str)):
                    keep.append(a)
            return ast.Call(func=f, args=keep, keywords=[])
        return n

    def visit_Raise(self, n):
        self.generic_visit(n)
        if isinstance(n.exc, ast.Call):
            return ast.Raise(exc=n.exc.func, cause=None)
        return n

    def visit_BinOp(self, n):
        self.generic_visit(n)
        if isinstance(n.op, ast.Sub):
            shapes = {ast.unparse(c.args[0]) for c in ast.walk(n.right) if isinstance(c, ast.Call) and c.args
                      and ((isinstance(c.func, ast.Attribute) and c.func.attr == "spherical_mask") or (isinstance(c.func, ast.Name) and c.func.id == "spherical_mask"))}
            L = n.left
            one = isinstance(L, ast.Constant) and not isinstance(L.value, bool) and isinstance(L.value, (int, float)) and L.value == 1
            ones = (isinstance(L, ast.Call) and len(L.args) == 1 and not L.keywords and ast.unparse(L.func) in ("np.ones", "numpy.ones")
                    and ast.unparse(L.args[0]) in shapes)
            if shapes and (one or ones):
                return ast.BinOp(left=ast.Constant(1), op=ast.Sub(), right=n.right)
        return n


def _canon(node):
    return ast.fix_missing_locations(_Canon().visit(_copy.deepcopy(node)))


def _n1(node):
    return ast.unparse(_canon(node)).replace(" ", "").replace("\n", ";")


def _has_call(e):
    """does evaluating e do anything observable although its value is thrown away: a call, or an operation that can RAISE or run user code
    (division, modulo, power, subscript, attribute access) — a dead store `tmp = a / (b - 2 * c)` is not harmless"""
    return any(isinstance(x, (ast.Call, ast.Subscript, ast.Attribute))
               or (isinstance(x, ast.BinOp) and isinstance(x.op, (ast.Div, ast.FloorDiv, ast.Mod, ast.Pow))) for x in ast.walk(e))


class _Subst(ast.NodeTransformer):
    def __init__(self, env, used):
        self.env, self.used = env, used

    def visit_Name(self, n):
        if isinstance(n.ctx, ast.Load) and n.id in self.env:
            self.used.add(n.id)
            return _copy.deepcopy(self.env[n.id])
        return n


class _State:
    def __init__(self, env=None, conds=None, effects=None, used=None, order=None):
        self.env = dict(env or {})
        self.conds = list(conds or [])
        self.effects = list(effects or [])
        self.used = set(used or ())
        self.order = list(order or [])
        self.done = None          # text
        self.ret = None           # ast of the returned expression

    def fork(self):
        return _State(self.env, self.conds, self.effects, self.used, self.order)

    def sub(self, e):
        return _Subst(self.env, self.used).visit(_copy.deepcopy(e))

    def bind(self, name, val):
        if name in self.env and name not in self.used and _has_call(self.env[name]):
            self.effects.append("discarded:" + _n1(self.env[name]))     # computed by a call, overwritten unread: ran for its effect
        self.env[name] = val
        self.used.discard(name)
        self.order.append(name)


def _store(st, target, val):
    if isinstance(target, ast.Name):
        st.bind(target.id, val)
    elif isinstance(target, (ast.Tuple, ast.List)):
        for i, t in enumerate(target.elts):
            _store(st, t, ast.Subscript(value=val, slice=ast.Constant(i), ctx=ast.Load()))
    elif isinstance(target, (ast.Subscript, ast.Attribute)) and isinstance(target.value, ast.Name):
        b = target.value.id
        old = st.sub(ast.Name(id=b, ctx=ast.Load()))
        key = st.sub(target.slice) if isinstance(target, ast.Subscript) else ast.Constant(target.attr)
        st.bind(b, ast.Call(func=ast.Name(id="SET", ctx=ast.Load()), args=[old, key, val], keywords=[]))
    else:
        st.effects.append("store:" + _n1(st.sub(target)) + "=" + _n1(val))


def _exec(stmts, states, fnames):
    for s in stmts:
        live = [x for x in states if x.done is None]
        if not live:
            break
        nxt = [x for x in states if x.done is not None]
        for st in live:
            if isinstance(s, ast.Expr) and isinstance(s.value, ast.Constant):
                nxt.append(st)
            elif isinstance(s, ast.Assign):
                v = st.sub(s.value)
                for t in s.targets:
                    _store(st, t, v)
                nxt.append(st)
            elif isinstance(s, ast.AnnAssign):
                if s.value is not None:                        # `x: T = v` is `x = v`; a bare `x: T` is nothing (H1)
                    _store(st, s.target, st.sub(s.value))
                nxt.append(st)
            elif isinstance(s, ast.AugAssign):
                cur = st.sub(ast.Name(id=s.target.id, ctx=ast.Load())) if isinstance(s.target, ast.Name) else st.sub(_copy.deepcopy(s.target))
                _store(st, s.target, ast.BinOp(left=cur, op=s.op, right=st.sub(s.value)))
                nxt.append(st)
            elif isinstance(s, ast.Expr):
                st.effects.append(_n1(st.sub(s.value)))
                nxt.append(st)
            elif isinstance(s, ast.Return):
                st.ret = st.sub(s.value) if s.value is not None else ast.Constant(None)
                st.done = "return " + _n1(st.ret)
                nxt.append(st)
            elif isinstance(s, ast.Raise):
                e = s.exc
                st.done = "raise " + (_n1(e.func) if isinstance(e, ast.Call) else (_n1(e) if e is not None else ""))
                nxt.append(st)
            elif isinstance(s, ast.If):
                t = _n1(st.sub(s.test))
                a, b = st.fork(), st.fork()
                a.conds.append(t)
                b.conds.append("not(" + t + ")")
                nxt += _exec(s.body, [a], fnames) + _exec(s.orelse, [b], fnames)
            elif isinstance(s, ast.FunctionDef):
                fnames.append(s.name)
                st.bind(s.name, ast.Name(id=f"FN{fnames.index(s.name)}", ctx=ast.Load()))
                nxt.append(st)
            elif isinstance(s, ast.Pass):
                nxt.append(st)
            else:   # loops, with, try, ...: kept as an opaque statement; the names it binds become opaque
                st.effects.append(type(s).__name__ + ":" + _n1(st.sub(s)))
                for x in ast.walk(s):
                    if isinstance(x, ast.Name) and isinstance(x.ctx, ast.Store):
                        st.env[x.id] = ast.Name(id="OPAQUE", ctx=ast.Load())
                nxt.append(st)
        states = nxt
    return states


def _states(fn):
    return _exec(fn.body, [_State()], [])


def _path_text(st):
    eff = list(st.effects)
    for name in dict.fromkeys(st.order):
        if name in st.env and name not in st.used and _has_call(st.env[name]):
            eff.append("unused:" + _n1(st.env[name]))       # bound to the result of a call and never read on this path
    return "[" + "&".join(st.conds) + "]" + ";".join(eff + [st.done or "return None"])


def flow_paths(fn):
    """every control-flow path of the function: '[conditions]effect;...;return EXPR' with local variables inlined"""
    return [_path_text(st) for st in _states(fn)]


def body_dump(fn):
    """all statements of the body (docstrings dropped) as 'depth:text' with local variables renamed L0, L1, ... in order of first store"""
    params = {a.arg for a in fn.args.args + fn.args.kwonlyargs + fn.args.posonlyargs} | ({fn.args.vararg.arg} if fn.args.vararg else set()) | ({fn.args.kwarg.arg} if fn.args.kwarg else set())
    names = {}

    class Collect(ast.NodeVisitor):
        def visit_Name(self, n):
            if isinstance(n.ctx, ast.Store) and n.id not in params and n.id not in names:
                names[n.id] = f"L{len(names)}"

        def visit_FunctionDef(self, n):
            if n is not fn and n.name not in names:
                names[n.name] = f"L{len(names)}"
            inner = {a.arg for a in n.args.args} if n is not fn else set()
            for a in sorted(inner - params):
                names.setdefault(a, f"L{len(names)}")
            self.generic_visit(n)

    Collect().visit(fn)
    # H2: a name that is only ever stored (a discard: `_`, or `_` renamed to `unused`) takes no number and is dumped as `_`,
    # each occurrence on its own; the numbering L0, L1, ... follows the order of the first BINDING occurrence of the others
    loaded = {n.id for n in ast.walk(fn) if isinstance(n, ast.Name) and isinstance(n.ctx, ast.Load)}
    inner_defs = {n.name for n in ast.walk(fn) if isinstance(n, ast.FunctionDef) and n is not fn}
    keep = [k for k in names if k in loaded or k in inner_defs]
    discards = [k for k in names if k not in keep]
    names = {k: f"L{i}" for i, k in enumerate(keep)}
    names.update({k: "_" for k in discards})

    class Ren(ast.NodeTransformer):
        def visit_Name(self, n):
            return ast.Name(id=names.get(n.id, n.id), ctx=n.ctx)

        def visit_arg(self, n):
            return ast.arg(arg=names.get(n.arg, n.arg), annotation=None)

        def visit_FunctionDef(self, n):
            self.generic_visit(n)
            n.name = names.get(n.name, n.name)
            return n

        def visit_Expr(self, n):
            return None if isinstance(n.value, ast.Constant) and isinstance(n.value.value, str) else self.generic_visit(n)

    f2 = _canon(Ren().visit(_copy.deepcopy(fn)))       # message texts and exception arguments dropped (H1)
    for nd in ast.walk(f2):
        if isinstance(nd, ast.FunctionDef):
            nd.returns = None                                     # return annotations (H1)
    out = []
    class DropAnn(ast.NodeTransformer):
        def visit_AnnAssign(self, n):
            self.generic_visit(n)
            if n.value is None:
                return None                                   # a bare declaration `x: T`
            return ast.Assign(targets=[n.target], value=n.value)

    f2 = ast.fix_missing_locations(DropAnn().visit(f2))
    for st in f2.body:
        for line in ast.unparse(st).split("\n"):
            depth = (len(line) - len(line.lstrip())) // 4
            out.append(f"{depth}:" + line.strip().replace(" ", ""))
    return out


def signature(fn):
    """parameter names, order, kinds and defaults; type annotations dropped (H1: adding a type hint is a harmless edit)"""
    a = _copy.deepcopy(fn.args)
    for x in a.posonlyargs + a.args + a.kwonlyargs + ([a.vararg] if a.vararg else []) + ([a.kwarg] if a.kwarg else []):
        x.annotation = None
    return _n1(a)


def _calls(node, attr):
    """calls of a function named attr (plain or attribute access), in source order (outermost first, left to right)"""
    out = []

    def walk(n):
        if isinstance(n, ast.Call) and ((isinstance(n.func, ast.Attribute) and n.func.attr == attr) or (isinstance(n.func, ast.Name) and n.func.id == attr)):
            out.append(n)
        for ch in ast.iter_child_nodes(n):
            walk(ch)
    walk(node)
    return out


def _kw(call, name):
    for k in call.keywords:
        if k.arg == name:
            return k.value
    return None


def _arg(call, pos, name):
    v = _kw(call, name)
    if v is None and len(call.args) > pos:
        v = call.args[pos]
    return v


def _default_of(fn, name):
    names = [a.arg for a in fn.args.args]
    if name not in names:
        raise core.AnchorMissing(f"{fn.name}: no parameter {name}")
    i = names.index(name) - (len(names) - len(fn.args.defaults))
    if i < 0:
        raise core.AnchorMissing(f"{fn.name}: parameter {name} has no default")
    return fn.args.defaults[i]


DOC_SIGMA = {"low": 3.0, "high": 2.0, "lp": 3.0, "hp": 2.0}      # the documented defaults of gaussian / lp_gaussian / hp_gaussian
DOC_DEFAULTS = [("lowpass.gaussian", "3"), ("highpass.gaussian", "2"), ("bandpass.lp_gaussian", "3"), ("bandpass.hp_gaussian", "2")]


def _returned(src, fname):
    """the returned expression (locals inlined) of the path of a filter that writes no output file"""
    sts = [st for st in _states(src.find(REL_MAP, fname)) if st.ret is not None and "not(output_nameisnotNone)" in st.conds]
    if len(sts) != 1:
        raise core.AnchorMissing(f"{fname}: expected one returning path without output_name, found {len(sts)}")
    return sts[0].ret


def _mask_calls(src):
    """the four spherical_mask calls inside the returned expressions, in order: lowpass, highpass, bandpass first operand, second operand"""
    out = []
    for f, n in (("lowpass", 1), ("highpass", 1), ("bandpass", 2)):
        cs = _calls(_returned(src, f), "spherical_mask")
        if len(cs) != n:
            raise core.AnchorMissing(f"{f}: expected {n} spherical_mask call(s) in the returned expression, found {len(cs)}")
        out += cs
    return out


def _lean_pairs(ps):
    return "[" + ", ".join(f"({core.lean_str(a)}, {core.lean_str(b)})" for a, b in ps) + "]"


def _lean_bools(bs):
    return "[" + ", ".join("true" if b else "false" for b in bs) + "]"


def _lean_named_lists(ps):
    return "[" + ",\n  ".join(f"({core.lean_str(a)}, {core.lean_str_list(b)})" for a, b in ps) + "]"


FLOW_FUNCS = [(REL_MAP, "lowpass"), (REL_MAP, "highpass"), (REL_MAP, "bandpass"), (REL_MAP, "get_filter_radius"), (REL_MAP, "resolution2pixels"),
              (REL_MAP, "pixels2resolution"), (REL_MASK, "preprocess_params"), (REL_MASK, "postprocess"), (REL_MASK, "add_gaussian"),
              (REL_MASK, "rotate"), (REL_MASK, "write_out")]
BODY_FUNCS = [(REL_MASK, "spherical_mask"), (REL_MASK, "get_correct_format")]
SIG_FUNCS = [(REL_MAP, "lowpass"), (REL_MAP, "highpass"), (REL_MAP, "bandpass"), (REL_MAP, "get_filter_radius"), (REL_MAP, "resolution2pixels"),
             (REL_MAP, "pixels2resolution"), (REL_MASK, "spherical_mask")]


def translate(src):
    def outwards():
        res = []
        for c in _mask_calls(src):
            v = _arg(c, 4, "gaussian_outwards")
            if v is None:      # the default of spherical_mask
                v = _default_of(src.find(REL_MASK, "spherical_mask"), "gaussian_outwards")
            res.append(bool(src.literal(v)))
        return res

    def mask_args():
        res = []
        for c in _mask_calls(src):
            rad, g = _arg(c, 1, "radius"), _arg(c, 3, "gaussian")
            if rad is None or g is None:
                raise core.AnchorMissing("spherical_mask call without radius/gaussian")
            res.append([_norm(rad), _norm(g)])
        return res

    def mask_shapes():
        return [_norm(_arg(c, 0, "mask_size")) for c in _mask_calls(src)]

    def apply_exprs():
        res = []
        for f in ("lowpass", "highpass", "bandpass"):
            r = _returned(src, f)
            txt = _norm(r)
            for i, c in enumerate(_calls(r, "spherical_mask")):
                txt = txt.replace(_norm(c), f"MASK{i+1}", 1)
            if "spherical_mask" in txt:
                raise core.AnchorMissing(f"{f}: a spherical_mask call is left after substitution")
            res.append(txt)
        return res

    def radius_calls():
        out = []
        for c in _mask_calls(src):
            rad = _arg(c, 1, "radius")
            if not (isinstance(rad, ast.Call) and _norm(rad.func).endswith("get_filter_radius")):
                raise core.AnchorMissing("the mask radius is not the result of get_filter_radius: " + _norm(rad)[:80])
            out.append(rad)
        return out

    def box_edges():
        return [_norm(_arg(c, 0, "edge_size")) for c in radius_calls()]

    def band_radius_args():
        res = []
        for c in radius_calls()[2:]:
            if _kw(c, "pixel_size") is None or _norm(_kw(c, "pixel_size")) != "pixel_size":
                raise core.AnchorMissing("bandpass: get_filter_radius without pixel_size=pixel_size")
            res.append([_norm(_arg(c, 1, "fourier_pixels")), _norm(_arg(c, 2, "target_resolution"))])
        return res

    def lp_hp_direct():
        """lowpass/highpass hand their own keywords to get_filter_radius unchanged"""
        for f, c in zip(("lowpass", "highpass"), radius_calls()[:2]):
            got = [_norm(v) if v is not None else None for v in (_arg(c, 1, "fourier_pixels"), _arg(c, 2, "target_resolution"), _arg(c, 3, "pixel_size"))]
            if got != ["fourier_pixels", "target_resolution", "pixel_size"]:
                raise core.AnchorMissing(f"{f}: get_filter_radius arguments {got}")
        return True

    def single_return(fname):
        """the expression a two-path helper (print or not) returns"""
        rs = {_norm(st.ret) for st in _states(src.find(REL_MAP, fname)) if st.ret is not None}
        if len(rs) != 1:
            raise core.AnchorMissing(f"{fname}: returns {sorted(rs)}")
        return rs.pop()

    def filter_radius_branches():
        fn = src.find(REL_MAP, "get_filter_radius")
        top = [s for s in fn.body if isinstance(s, ast.If)]
        if len(top) != 1:
            raise core.AnchorMissing("get_filter_radius: expected one if-chain")
        rets = [n for n in ast.walk(fn) if isinstance(n, ast.Return)]
        if len(rets) != 1 or not isinstance(rets[0].value, ast.Name):
            raise core.AnchorMissing("get_filter_radius: does not return one variable")
        rv = rets[0].value.id

        def value(stmts):
            val = None
            for s in stmts:
                if isinstance(s, ast.Assign) and _norm(s.targets[0]) == rv:
                    val = _norm(s.value)
                if isinstance(s, ast.Raise):
                    val = "raise " + _norm(s.exc.func)
            return val
        res = []
        node = top[0]
        while True:
            res.append([ast.unparse(node.test), value(node.body)])
            if len(node.orelse) == 1 and isinstance(node.orelse[0], ast.If):
                node = node.orelse[0]
                continue
            res.append(["else", value(node.orelse)])
            break
        return res

    def sphere_strict():
        fn = src.find(REL_MASK, "spherical_mask")
        for s in fn.body:   # ARR[ARR > R] = 0 : the only store of a 0 under a comparison of the array with a plain name
            if isinstance(s, ast.Assign) and isinstance(s.targets[0], ast.Subscript) and isinstance(s.targets[0].slice, ast.Compare):
                cmp_ = s.targets[0].slice
                zero = isinstance(s.value, ast.Constant) and s.value.value == 0
                if zero and isinstance(cmp_.comparators[0], ast.Name) and _norm(cmp_.left) == _norm(s.targets[0].value):
                    if isinstance(cmp_.ops[0], ast.Gt):
                        return True
                    if isinstance(cmp_.ops[0], ast.GtE):
                        return False
        raise core.AnchorMissing("spherical_mask: mask[mask > radius] = 0")

    def centre_expr():
        fn = src.find(REL_MASK, "get_correct_format")
        rs = [st for st in _states(fn) if st.ret is not None and "not(input_valueisnotNone)" in st.conds]
        if len(rs) != 1:
            raise core.AnchorMissing("get_correct_format: the reference_size path")
        return _norm(rs[0].ret)

    def one_path(fname, k):
        ps = [st for st in _states(src.find(REL_MASK, fname))]
        if len(ps) != 2:
            raise core.AnchorMissing(f"{fname}: expected two paths")
        return ps[k]

    def enlarge_cond():
        a, b = one_path("preprocess_params", 0), one_path("preprocess_params", 1)
        if _norm(b.ret) != "radius":
            raise core.AnchorMissing("preprocess_params: the other path does not return the radius unchanged")
        return a.conds[0].replace("and", " and ")

    def blur_skip():
        a, b = one_path("add_gaussian", 0), one_path("add_gaussian", 1)
        if _norm(a.ret) != "input_mask":
            raise core.AnchorMissing("add_gaussian: the skip path does not return the mask unchanged")
        return a.conds[0], _norm(b.ret)

    def defaults():
        res = []
        for key, _ in DOC_DEFAULTS:
            f, p = key.split(".")
            res.append([key, _norm(_default_of(src.find(REL_MAP, f), p))])
        return res

    def flows():
        return [[f, flow_paths(src.find(rel, f))] for rel, f in FLOW_FUNCS]

    def bodies():
        res = [[f, body_dump(src.find(rel, f))] for rel, f in BODY_FUNCS]
        # cryomap.read on an array: the paths that take the ndarray branch (the caller's array is copied, never aliased)
        rd = [p for p in flow_paths(src.find(REL_MAP, "read")) if "isinstance(input_map,np.ndarray)" in p.split("]")[0].split("&")]
        res.append(["read[ndarray]", rd])
        return res

    def sigs():
        return [[f, signature(src.find(rel, f))] for rel, f in SIG_FUNCS]

    ow = src.anchor("spherical_mask(gaussian_outwards=False) at the 4 call sites", outwards)
    ma = src.anchor("spherical_mask radius/gaussian arguments (locals inlined)", mask_args)
    ms = src.anchor("spherical_mask box argument", mask_shapes)
    ae = src.anchor("np.real(ifftn(fftn(input_map) * ifftshift(...))) in lowpass/highpass/bandpass", apply_exprs)
    be = src.anchor("get_filter_radius(input_map.shape[0], ...)", box_edges)
    br = src.anchor("bandpass lp_/hp_ keyword routing", band_radius_args)
    src.anchor("lowpass/highpass keyword routing", lp_hp_direct)
    r2p = src.anchor("resolution2pixels expression", lambda: single_return("resolution2pixels"))
    p2r = src.anchor("pixels2resolution expression", lambda: single_return("pixels2resolution"))
    fb = src.anchor("get_filter_radius branches", filter_radius_branches)
    st = src.anchor("spherical_mask: mask > radius", sphere_strict)
    ce = src.anchor("get_correct_format: centre", centre_expr)
    ec = src.anchor("preprocess_params: enlarge condition", enlarge_cond)
    bs = src.anchor("add_gaussian: skip and blur call", blur_skip)
    df = src.anchor("signature defaults of gaussian / lp_gaussian / hp_gaussian", defaults)
    sg = src.anchor("signatures of the filters and helpers", sigs)
    fl = src.anchor("control-flow paths (effects, returned expressions) of the filters and helpers", flows)
    bd = src.anchor("statement dumps of spherical_mask, get_correct_format, read[ndarray]", bodies)
    S = core.lean_str
    return f"""-- GENERATED by harness/props/c12.py from {REL_MAP}, {REL_MASK}; do not edit
namespace CryoCat.Gen.C12
def anchorsOk : Bool := {"true" if src.ok else "false"}
/-- `gaussian_outwards=` at the call sites lowpass, highpass, bandpass(first mask), bandpass(second mask) -/
def outwardsFlags : List Bool := {_lean_bools(ow if ow is not None else [False] * 4)}
/-- (radius, gaussian) arguments of the spherical_mask calls with local variables inlined: lowpass, highpass, bandpass first and second operand -/
def maskArgs : List (String × String) := {_lean_pairs(ma or [])}
/-- first argument (box) of the spherical_mask calls -/
def maskShapes : List String := {core.lean_str_list(ms or [])}
/-- the returned expression of lowpass / highpass / bandpass with local variables inlined and the mask calls named in order of appearance -/
def applyExprs : List String := {core.lean_str_list(ae or [])}
/-- edge size handed to get_filter_radius: lowpass, highpass, bandpass lp, bandpass hp -/
def boxEdges : List String := {core.lean_str_list(be or [])}
/-- which keyword feeds which radius in bandpass: (fourier_pixels=, target_resolution=) for the first and the second mask -/
def bandRadiusArgs : List (String × String) := {_lean_pairs(br or [])}
def res2pixExpr : String := {S(r2p or "")}
def pix2resExpr : String := {S(p2r or "")}
/-- get_filter_radius: test order and the values taken -/
def filterRadiusBranches : List (String × String) := {_lean_pairs([(a, b or "") for a, b in (fb or [])])}
/-- spherical_mask: `mask[mask > radius] = 0` uses a strict comparison (documented value when the anchor is missing) -/
def sphereOutsideStrict : Bool := {"true" if (st is None or st) else "false"}
/-- get_correct_format: default centre (inner helper = FN0) -/
def centreExpr : String := {S(ce or "")}
/-- preprocess_params: the radius is enlarged only under this condition -/
def enlargeCond : String := {S(ec or "")}
/-- add_gaussian: pass-through test and blur call -/
def blurSkipCond : String := {S(bs[0] if bs else "")}
def blurCall : String := {S(bs[1] if bs else "")}
/-- signature defaults the statement's "Gaussian edge of width sigma" falls back to when the keyword is omitted -/
def defaultSigmas : List (String × String) := {_lean_pairs(df if df is not None else DOC_DEFAULTS)}
def signatures : List (String × String) := {_lean_pairs(sg or [])}
/-- per function: every control-flow path as `[conditions]effects;return EXPR`, local variables inlined -/
def flowPaths : List (String × List String) := {_lean_named_lists(fl or [])}
/-- per function: all statements as `depth:text`, local variables renamed L0, L1, ... in order of first assignment -/
def bodyDumps : List (String × List String) := {_lean_named_lists(bd or [])}
/-- kept name: the statements of spherical_mask (= its entry in `bodyDumps`) -/
def sphereStatements : List String := {core.lean_str_list(dict((a, b) for a, b in (bd or [])).get("spherical_mask", []))}
end CryoCat.Gen.C12
"""


# ------------------------------------------------------------------ helpers shared by generator / implementation / judge
SIGMAS_INT = [0.0, 1.0, 2.0, 3.0, 4.0]
SIGMAS_FRAC = [0.5, 0.75, 1.5, 2.25, 2.5, 3.5, 0.125, 1.3, 2.7, 0.9, 3.85, 1.75, 0.35]    # dyadic and decimal (H3) widths in (0, 4]


def sfreq(n):
    """signed integer frequency of every DFT bin of an axis of length n (Nyquist sign is irrelevant: only squares are used)"""
    j = np.arange(n)
    return np.where(j < (n + 1) // 2, j, j - n)


def radius2(dims):
    kx, ky, kz = np.meshgrid(sfreq(dims[0]), sfreq(dims[1]), sfreq(dims[2]), indexing="ij")
    return kx * kx + ky * ky + kz * kz


def _field(dims, seed, dtype=None, scale=None):
    """the map of a case. dtype None = float64; 'int16' / 'int32' = an integer-typed map as read from an MRC/EM file of that mode (the
    values are the rounded scaled field); 'float32' = float64 values that are exactly representable in single precision (the harness
    runs its measurements on them in double and, separately, the real filter on the float32 array). scale multiplies the N(0,1) field:
    maps are not O(1) in practice (H3: int16 densities ~1e3, normalised maps 1e-5 … 1e5)."""
    r = np.random.default_rng(seed)
    x = r.standard_normal(dims)
    if seed % 3 == 0:
        x = x + r.uniform(-5, 5)
    if seed % 7 == 0:
        x = np.round(x * 8) / 8
    sc = 1.0 if scale is None else float(scale)

    def typed(a):
        a = a * sc
        if dtype in ("int16", "int32"):
            return np.rint(a).astype(dtype)
        if dtype in ("uint8", "int8", "uint16"):       # MRC modes 0 / 6 and 8-bit images: offset into the range, clipped
            ii = np.iinfo(dtype)
            off = 0.0 if ii.min < 0 else (ii.max + 1) / 2
            return np.clip(np.rint(a + off), ii.min, ii.max).astype(dtype)
        if dtype in ("float32", "float16"):
            return a.astype(dtype).astype(np.float64)
        return a
    # the gain of a bin is measured as fft(out)/fft(in): every bin of the input must be excited (a dyadic-grid field can sum to exactly 0)
    for k in range(1, 50):
        y = typed(x)
        if np.abs(np.fft.fftn(y)).min() > 1e-2 * sc:
            break
        x.flat[(k * 7919) % x.size] += 1.0 + 0.125 * k
    return typed(x)


def _field_of(case):
    inp = case["input"]
    return _field(tuple(case["dims"]), inp["seed"], inp.get("dtype"), b2f(inp["scale"]) if "scale" in inp else None)


def _layout(x, how):
    """H3 / round 7: memory layouts a map arrives in — big-endian (an MRC file written on another machine), Fortran order, a strided view"""
    if how == "big-endian":
        return x.astype(x.dtype.newbyteorder(">"))
    if how == "fortran":
        return np.asfortranarray(x)
    if how == "strided":
        buf = np.zeros(x.shape[:2] + (2 * x.shape[2],), dtype=x.dtype)
        buf[:, :, ::2] = x
        return buf[:, :, ::2]
    return x


def _num(case, key, v):
    """H3: the TYPE a user hands a parameter in: Fourier pixels as numpy integers (`np.int64`, what `shape[0] // 4` or an array element
    is), integral widths / pixel sizes as Python ints (the signature defaults are the ints 3 and 2)"""
    how = case.get("types", {}).get(key)
    if how == "np.int64":
        return np.int64(v)
    if how == "int" and float(v) == int(v):
        return int(v)
    if how == "float":
        return float(v)          # an integral cutoff typed as a float (4.0)
    return v


def _wave(dims, k, phase):
    g = np.meshgrid(*[np.arange(n) for n in dims], indexing="ij")
    arg = sum(k[i] * g[i] / dims[i] for i in range(3))
    return np.cos(2 * np.pi * arg + phase)


def _cut_kwargs(cut, prefix="", case=None):
    kw = {}
    if "fp" in cut:
        kw[prefix + "fourier_pixels"] = _num(case or {}, "fp", cut["fp"])
    if "res" in cut:
        kw[prefix + "target_resolution"] = b2f(cut["res"])
    return kw


def py_radius(case, cut):
    """the cutoff the statement prescribes: the Fourier pixels given, else round(box*pixel_size/resolution)"""
    if "fp" in cut:
        return cut["fp"]
    return round(case["dims"][0] * b2f(case["px"]) / b2f(cut["res"]))


def _sigma_kwargs(case):
    """the Gaussian-width keywords the adapter passes: none for the widths listed in case['omit'] (then the signature default applies)"""
    omit = set(case.get("omit", []))
    if case["kind"] == "band":
        kw = {}
        if "lp_sigma" not in omit:
            kw["lp_gaussian"] = _num(case, "sigma", b2f(case["lp_sigma"]))
        if "hp_sigma" not in omit:
            kw["hp_gaussian"] = _num(case, "sigma", b2f(case["hp_sigma"]))
        return kw
    return {} if "sigma" in omit else {"gaussian": _num(case, "sigma", b2f(case["sigma"]))}


class _Filter:
    """the real cryoCAT call for one case; `low(which)` = companion low-pass with the same parameters. Every call goes through `_call`,
    which compares the caller-owned input array before/after the call (G2) and records what came back (G3)."""

    def __init__(self, case):
        from cryocat import cryomap
        self.m = cryomap
        self.case = case
        self.px = b2f(case["px"]) if "px" in case else None
        self.mutated = []        # names of the calls after which the caller's array had changed
        self.ncalls = 0

    def _call(self, fn, x, **k):
        x0 = x.copy()
        self.ncalls += 1
        with contextlib.redirect_stdout(io.StringIO()):
            y = fn(x, **k)
        if not (x.shape == x0.shape and x.dtype == x0.dtype and np.array_equal(x, x0)):
            self.mutated.append(f"{fn.__name__}#{self.ncalls}")
            x[...] = x0          # the harness goes on with the input it meant to use
        return y

    def _px_kw(self, explicit=False):
        if self.px is None and (self.case.get("omit_px") and not explicit):
            return {}
        return {"pixel_size": None if self.px is None else _num(self.case, "px", self.px)}

    def __call__(self, x, explicit=False):
        """explicit=True: every keyword written out with the DOCUMENTED defaults in place of the omitted ones"""
        c = self.case
        sk = _sigma_kwargs(c if not explicit else dict(c, omit=[]))
        if c["kind"] == "band":
            kw = dict(_cut_kwargs(c["lp"], "lp_", c), **_cut_kwargs(c["hp"], "hp_", c))
            return self._call(self.m.bandpass, x, **self._px_kw(explicit), **sk, **kw)
        fn = self.m.lowpass if c["kind"] == "low" else self.m.highpass
        return self._call(fn, x, **self._px_kw(explicit), **sk, **_cut_kwargs(c["cut"], "", c))

    def single(self, x, kind, which):
        """low- or high-pass with the parameters of one cutoff of the case ('' = the cutoff of a low/high case, 'lp'/'hp' of a band)"""
        c = self.case
        cut, sig = (c["cut"], c["sigma"]) if which == "" else (c[which], c[which + "_sigma"])
        fn = self.m.lowpass if kind == "low" else self.m.highpass
        return self._call(fn, x, pixel_size=self.px, gaussian=b2f(sig), **_cut_kwargs(cut))

    def low(self, x, which):
        return self.single(x, "low", which)

    def with_pixels(self, x, radii):
        c = self.case
        if c["kind"] == "band":
            return self._call(self.m.bandpass, x, lp_fourier_pixels=radii[0], hp_fourier_pixels=radii[1], lp_gaussian=b2f(c["lp_sigma"]), hp_gaussian=b2f(c["hp_sigma"]))
        fn = self.m.lowpass if c["kind"] == "low" else self.m.highpass
        return self._call(fn, x, fourier_pixels=radii[0], gaussian=b2f(c["sigma"]))


# ------------------------------------------------------------------ generators
def _dims(rng, tier):
    hi = 16 if tier in ("quick", "search") else 48
    if tier == "quick" and rng.random() < 0.04:
        hi = 48          # H3: a few boxes up to the bound the quantifier names in every quick run too
    k = rng.random()
    if tier == "thorough" and k < 0.55:
        hi = 20          # keep most thorough cases cheap; the rest go up to 48
    lo = 8
    if rng.random() < (0.22 if tier != "thorough" else 0.12):     # tiny boxes: the model filters them end to end with its own DFT
        lo, hi = 5, TINY
    if rng.random() < 0.5:
        n = rng.randint(lo, hi)
        return [n, n, n]
    return [rng.randint(lo, hi) for _ in range(3)]


def _sigma(rng):
    return rng.choice(SIGMAS_INT) if rng.random() < 0.8 else rng.choice(SIGMAS_FRAC)


def _cutoff(rng, dims):
    half = min(dims) // 2
    k = rng.random()
    if k < 0.13:
        return half
    if k < 0.21:
        return max(1, dims[0] // 2)       # exactly the Nyquist index of the FIRST axis (the edge the code calls "the box")
    if k < 0.30:
        return 1
    if k < 0.38:
        return max(dims) // 2       # reaches beyond the shortest axis of a non-cubic box
    return rng.randint(1, half)


PIXEL_SIZES = [1.0, 1.25, 1.5, 2.0, 0.75, 3.0, 7.89, 1.35, 2.17]


def _res_cut(rng, n, r, px):
    """resolution for the pixel size px (ONE per case: bandpass has a single pixel_size for both cutoffs) whose quotient n*px/res rounds to r
    (or sits exactly on a .5 tie next to r, or is the Nyquist resolution 2*px exactly when r = n/2)"""
    k = rng.random()
    if 2 * r == n and rng.random() < 0.5:
        return dict(res=f2b(2.0 * px)), px, "nyquist=2px"        # n*px/(2*px) = n/2 exactly
    if k < 0.35:      # exact tie: target r - 0.5 or r + 0.5 reached exactly in floating point, if possible
        for t in (r - 0.5, r + 0.5):
            res = n * px / t if t > 0 else None
            # round-half-even sends a tie to the EVEN neighbour: only a tie that rounds to the designed cutoff r is used (a tie next to an
            # odd r would run cutoff r-1 or r+1: 0 for r = 1, outside the quantifier)
            if res and n * px / res == t and round(t) == r:
                return dict(res=f2b(res)), px, "tie"
    if k < 0.7:
        t = r + rng.uniform(-0.49, 0.49)
    else:
        t = r + rng.choice([-0.4999999, 0.4999999, 0.0, 0.25, -0.25])
    res = n * px / t
    return dict(res=f2b(res)), px, "generic"


MAP_KINDS = [  # (share, dtype, scales): what maps look like in practice (H3); the unchanged code passes all of them
    (0.10, "int16", [1000.0, 300.0]),        # MRC mode 1: densities of a few thousand; output must NOT be cast back (M-6)
    (0.06, "int32", [2e5]),                  # amplitudes beyond the int16 range
    (0.08, None, [1e5, 2e4]),                # float64 map of large amplitude: a clip to the int16 range breaks linearity (M-7)
    (0.06, None, [1e-5]),                    # tiny amplitude: absolute thresholds / single-precision casts show
    (0.08, "float32", [1.0, 1e3]),           # what cryomap.read returns for a file
    (0.02, "uint8", [25.0]), (0.02, "int8", [25.0]), (0.02, "uint16", [3000.0]),     # MRC modes 0 / 6, 8-bit images
    (0.02, "float16", [1.0]),                # MRC mode 12; transformed in single precision like float32
]
LAYOUTS = [(0.05, "big-endian"), (0.04, "fortran"), (0.04, "strided")]


def _map_kind(rng, inp):
    k = rng.random()
    for share, dt, scales in MAP_KINDS:
        if k < share:
            if dt:
                inp["dtype"] = dt
            sc = rng.choice(scales)
            if sc != 1.0:
                inp["scale"] = f2b(sc)
            break
        k -= share
    k = rng.random()
    for share, lay in LAYOUTS:
        if k < share:
            inp["layout"] = lay
            break
        k -= share
    return inp


def _input(rng, dims, tier):
    return _map_kind(rng, _input0(rng, dims, tier))


def _input0(rng, dims, tier):
    k = rng.random()
    vol = dims[0] * dims[1] * dims[2]
    if k < 0.6:
        return dict(type="field", seed=rng.randrange(1 << 30))
    if k < 0.8 and vol <= (1000 if tier != "thorough" else 2200):
        return dict(type="allwaves", seed=rng.randrange(1 << 30))
    nw = 12 if tier != "thorough" else 40
    ks = []
    for _ in range(nw):
        if rng.random() < 0.3:   # axis / diagonal / Nyquist frequencies
            m = rng.randint(0, max(dims) // 2)
            dirv = rng.choice([(1, 0, 0), (0, 1, 0), (0, 0, 1), (1, 1, 0), (1, 0, 1), (0, 1, 1), (1, 1, 1), (1, -1, 0), (-1, 1, 1)])
            kk = [max(-(dims[i] // 2), min((dims[i] - 1) // 2, m * dirv[i])) for i in range(3)]
        else:
            kk = [rng.randint(-(dims[i] // 2), (dims[i] - 1) // 2) for i in range(3)]
        ks.append(kk + [f2b(rng.choice([0.0, 0.5, 1.0, 2.0]) if rng.random() < 0.3 else rng.uniform(0, 6.28))])
    return dict(type="waves", seed=rng.randrange(1 << 30), waves=ks)


MARGIN_SIGMAS = [0.5, 0.75, 1.0, 1.0, 1.5, 1.5, 2.0]


def _margin_case(rng, tier):
    """a low/high-pass whose box holds bins on BOTH sides of the soft edge: radius <= cutoff-4s-1 and radius >= cutoff+4s+1"""
    s = rng.choice(MARGIN_SIGMAS)
    M = int(math.ceil(4 * s + 1))
    lo = 2 * (M + 1)
    hi = max(lo + 2, 20 if tier != "thorough" else 40)
    if rng.random() < 0.5:
        n = rng.randint(lo, hi)
        dims = [n, n, n]
    else:
        dims = [rng.randint(lo, hi) for _ in range(3)]
    r = rng.randint(M, min(dims) // 2) if rng.random() < 0.8 else rng.randint(M, max(dims) // 2)
    return dict(dims=dims, kind=rng.choice(["low", "low", "high"]), cut=dict(fp=r), sigma=f2b(s), input=_map_kind(rng, dict(type="field", seed=rng.randrange(1 << 30))),
                aux=rng.randrange(1 << 30), stream="margin")


def _reject_case(rng, tier):
    """the error branch of get_filter_radius (Model/C12.getFilterRadius = none, Props/C12.filter_radius_rejects): no cutoff at all, or a
    resolution without a pixel size. The real call must raise ValueError (judged by exception TYPE and raising module, never by message text)"""
    dims = [rng.randint(8, 12) for _ in range(3)]
    kind = rng.choice(["low", "high", "band"])
    case = dict(dims=dims, kind=kind, input=dict(type="field", seed=rng.randrange(1 << 30)), aux=rng.randrange(1 << 30), stream="reject")

    def missing():
        if rng.random() < 0.5:
            return {}
        return dict(res=f2b(rng.choice([10.0, 7.5, 23.4])))       # a resolution, but the case carries no pixel size
    if kind == "band":
        good = dict(fp=rng.randint(1, min(dims) // 2))
        lp, hp = (missing(), good) if rng.random() < 0.5 else (good, missing())
        case.update(lp=lp, hp=hp, lp_sigma=f2b(_sigma(rng)), hp_sigma=f2b(_sigma(rng)))
    else:
        case.update(cut=missing(), sigma=f2b(_sigma(rng)))
    if rng.random() < 0.5:
        case["omit_px"] = True
    return case


def _one(rng, tier):
    if rng.random() < 0.03:
        return _reject_case(rng, tier)
    if rng.random() < 0.12:
        case = _margin_case(rng, tier)
        _history(rng, case)
        return case
    dims = _dims(rng, tier)
    kind = rng.choice(["low", "low", "high", "band"])
    cubic = dims[0] == dims[1] == dims[2]
    case = dict(dims=dims, kind=kind, input=_input(rng, dims, tier), aux=rng.randrange(1 << 30))
    # the resolution form on every box: the documented box edge of a non-cubic map is shape[0] (Props/C12.box_edge_documented)
    use_res = rng.random() < (0.35 if cubic else 0.3)

    px_case = rng.choice(PIXEL_SIZES)          # round 7, item 1: chosen ONCE (mk(hp) used to overwrite the px mk(lp) had computed its resolution for)
    # a band-pass in resolution form gives one of its cutoffs in Fourier pixels in ~25 % of the cases (mixed form)
    mixed = kind == "band" and use_res and rng.random() < 0.25
    pix_edge = rng.choice(["lp", "hp"]) if mixed else None
    edge_name = iter(["lp", "hp"])

    def mk(r):
        edge = next(edge_name, None)
        if use_res and not (kind == "band" and edge == pix_edge):
            cut, px, how = _res_cut(rng, dims[0], r, px_case)
            case["px"] = f2b(px)
            case.setdefault("res_how", []).append(how)
            if py_radius(case, cut) != r:                        # never expected; keeps the cutoff that runs the designed one (1..N/2)
                cut, how = dict(res=f2b(dims[0] * px / r)), "generic"
                case["res_how"][-1] = how
            if rng.random() < 0.1:
                cut["fp"] = r if rng.random() < 0.5 else max(1, r - 1)     # both given: Fourier pixels win
            return cut
        if rng.random() < 0.15 and not use_res:
            case.setdefault("px", f2b(rng.choice([1.0, 1.35, 2.0])))       # pixel size given alongside pixels: only printed (never replaces the case's px)
        return dict(fp=r)

    if kind == "band":
        lp = _cutoff(rng, dims)
        hp = rng.randint(1, max(1, lp - 1)) if rng.random() < 0.85 else _cutoff(rng, dims)
        k = rng.random()
        if k < 0.40:
            s = _sigma(rng)
            sl, sh = s, s
        elif k < 0.55:
            sl, sh = 3.0, 2.0     # the defaults of bandpass
        elif k < 0.70 and lp >= 3:
            # a narrow band whose low-pass edge is clearly softer than its high-pass edge (the inner mask exceeds the outer one locally)
            hp = rng.randint(max(1, lp - 3), lp - 1)
            sl, sh = rng.choice([(4.0, 1.0), (3.0, 0.0), (3.0, 1.0), (2.0, 0.5), (4.0, 2.0)])
        else:
            sl, sh = _sigma(rng), _sigma(rng)
        case.update(lp=mk(lp), hp=mk(hp), lp_sigma=f2b(sl), hp_sigma=f2b(sh))
    else:
        r = _cutoff(rng, dims)
        s = _sigma(rng)
        if rng.random() < 0.08:
            r, s = max(1, dims[0] // 2), 0.0       # hard edge exactly at the Nyquist index of the first axis
        case.update(cut=mk(r), sigma=f2b(s))
    _defaults(rng, case)
    _history(rng, case)
    _types(rng, case)
    if rng.random() < 0.04:
        case["outfile"] = rng.choice([".em", ".mrc"])      # the output_name branch runs once more at the end (round 7, item 4)
    return case


def _types(rng, case):
    """H3: parameter types a user naturally passes (numpy integer cutoffs, int widths and pixel sizes)"""
    t = {}
    k = rng.random()
    if k < 0.25:
        t["fp"] = "np.int64"
    elif k < 0.32:
        t["fp"] = "float"
    if rng.random() < 0.3:
        t["sigma"] = "int"
    if rng.random() < 0.3:
        t["px"] = "int"
    if t:
        case["types"] = t


def _defaults(rng, case):
    """G1: in about 30 % of the cases a Gaussian-width keyword is OMITTED, so the signature default is what runs; the case then carries
    the DOCUMENTED default as its width (that is what the statement means by 'sigma' for such a call). pixel_size is left out when unused."""
    if "px" not in case and rng.random() < 0.5:
        case["omit_px"] = True
    if rng.random() >= 0.3:
        return
    if case["kind"] == "band":
        om = rng.choice([["lp_sigma"], ["hp_sigma"], ["lp_sigma", "hp_sigma"], ["lp_sigma", "hp_sigma"]])
        for k in om:
            case[k] = f2b(DOC_SIGMA[k[:2]])
        case["omit"] = om
    else:
        case["sigma"] = f2b(DOC_SIGMA[case["kind"]])
        case["omit"] = ["sigma"]


def _history(rng, case):
    """G2: earlier calls in the same process on the same caller-owned array with the same box / cutoff / width"""
    if rng.random() >= 0.2:
        return
    if case["kind"] == "band":
        case["pre"] = [dict(kind=rng.choice(["high", "high", "low"]), which=rng.choice(["lp", "hp"])) for _ in range(rng.choice([1, 1, 2]))]
    else:
        case["pre"] = [dict(kind=rng.choice(["high", "high", "low"]), which="") for _ in range(rng.choice([1, 1, 2]))]


def _hard_sweep(rng):
    """EVERY hard cutoff 1..N/2 on the largest even and the largest odd cubic box of the quantifier: integer frequencies that lie exactly ON
    the cutoff sphere off the axes exist only for some radii (5: (3,4,0); 13: (3,4,12), (0,5,12); 17: (1,12,12), (8,9,12); 23 ...), i.e.
    mostly on boxes >= 26 — a membership test that rounds differently there is invisible on small boxes"""
    for N in (48, 47):
        for r in range(1, N // 2 + 1):
            yield dict(dims=[N, N, N], kind="low" if (r + N) % 3 else "high", cut=dict(fp=r), sigma=f2b(0.0),
                       input=dict(type="field", seed=rng.randrange(1 << 30)), aux=rng.randrange(1 << 30), stream="hard-sweep")


def _soft_sweep(rng):
    """soft edges on the LARGEST boxes (the search tier's own boxes stop at 16..22): widths 1, 2.7, 4 x cutoffs from 1 to N/2 on 48 and 47"""
    for N in (48, 47):
        for s in (1.0, 2.7, 4.0):
            for r in (1, 5, 12, 17, 23, N // 2):
                yield dict(dims=[N, N, N], kind=rng.choice(["low", "low", "high"]), cut=dict(fp=r), sigma=f2b(s),
                           input=dict(type="field", seed=rng.randrange(1 << 30)), aux=rng.randrange(1 << 30), stream="soft-sweep")
            yield dict(dims=[N, N, N], kind="band", lp=dict(fp=rng.randint(10, N // 2)), hp=dict(fp=rng.randint(1, 9)), lp_sigma=f2b(s), hp_sigma=f2b(s),
                       input=dict(type="field", seed=rng.randrange(1 << 30)), aux=rng.randrange(1 << 30), stream="soft-sweep")


def search_cases(rng, broken, anchors):
    """extra cases of the search stage (something broke, no failing input yet)"""
    return list(_hard_sweep(rng)) + list(_soft_sweep(rng))


def generate(rng, tier, n):
    if tier == "thorough":     # every cutoff 1..N/2 x every integer width on one even and one odd box, all plane waves
        for N in (8, 9):
            for r in range(1, N // 2 + 1):
                for s in SIGMAS_INT:
                    yield dict(dims=[N, N, N], kind="low", cut=dict(fp=r), sigma=f2b(s), input=dict(type="allwaves", seed=r), aux=r * 10 + int(s))
        yield from _hard_sweep(rng)
    for _ in range(n):
        yield _one(rng, tier)


def shrink(case):
    d = case["dims"]
    cuts = ["cut"] if case["kind"] != "band" else ["lp", "hp"]
    has_res = any("res" in case[c] for c in cuts)

    def clip(c, dims):
        c = dict(c)
        half = min(dims) // 2
        for k in cuts:
            if "fp" in c[k]:
                c[k] = dict(c[k], fp=max(1, min(c[k]["fp"], max(dims) // 2)))
        if c["input"]["type"] == "waves":
            c["input"] = dict(c["input"], waves=[[max(-(dims[i] // 2), min((dims[i] - 1) // 2, w[i])) for i in range(3)] + [w[3]] for w in c["input"]["waves"]])
        return c

    if not has_res:
        for nd in ([8, 8, 8], [9, 9, 9], [min(d)] * 3, [max(8, x // 2) for x in d], [max(8, d[0] - 1), d[1], d[2]], [d[0], max(8, d[1] - 1), d[2]], [d[0], d[1], max(8, d[2] - 1)]):
            if nd != d:
                yield clip(dict(case, dims=nd), nd)
    if case.get("pre"):
        yield {k: v for k, v in case.items() if k != "pre"}
        if len(case["pre"]) > 1:
            yield dict(case, pre=case["pre"][:1])
            yield dict(case, pre=case["pre"][1:])
    if case.get("omit"):
        yield {k: v for k, v in case.items() if k != "omit"}
    if case.get("types"):
        yield {k: v for k, v in case.items() if k != "types"}
    if "dtype" in case["input"] or "scale" in case["input"]:
        yield dict(case, input={k: v for k, v in case["input"].items() if k not in ("dtype", "scale")})
        if "dtype" in case["input"] and "scale" in case["input"]:
            yield dict(case, input={k: v for k, v in case["input"].items() if k != "dtype"})
    sk = [k for k in (["sigma"] if case["kind"] != "band" else ["lp_sigma", "hp_sigma"]) if k not in case.get("omit", [])]
    for k in sk:
        if b2f(case[k]) != 0.0:
            yield dict(case, **{k: f2b(0.0)})
            if b2f(case[k]) != 1.0:
                yield dict(case, **{k: f2b(1.0)})
    if case["input"]["type"] != "field":
        yield dict(case, input=dict(type="field", seed=1))
    if case["input"]["type"] == "waves" and len(case["input"]["waves"]) > 1:
        w = case["input"]["waves"]
        yield dict(case, input=dict(case["input"], waves=w[: len(w) // 2]))
        yield dict(case, input=dict(case["input"], waves=w[len(w) // 2:]))
    for k in cuts:
        if "fp" in case[k] and "res" not in case[k] and case[k]["fp"] > 1:
            yield dict(case, **{k: dict(case[k], fp=case[k]["fp"] - 1)})
            yield dict(case, **{k: dict(case[k], fp=max(1, case[k]["fp"] // 2))})


# ------------------------------------------------------------------ implementation
def _bits(a):
    return [f2b(v) for v in np.asarray(a, dtype=float).ravel().tolist()]


def _int_like(v):
    """(value, type name, is an integer type) of a radius the library returned — recorded as it came, not coerced (G3)"""
    ok = isinstance(v, (int, np.integer)) and not isinstance(v, (bool, np.bool_))
    return [int(v) if ok else repr(v)[:60], type(v).__name__, bool(ok)]


def run_impl(case):
    from cryocat import cryomap
    dims = tuple(case["dims"])
    out = {}
    cwd = os.getcwd()
    with tempfile.TemporaryDirectory(prefix="c12_") as td:
        os.chdir(td)       # bandpass drops band.em into the working directory
        try:
            f = _Filter(case)
            cuts = ["cut"] if case["kind"] != "band" else ["lp", "hp"]
            aux = np.random.default_rng(case["aux"])
            inp = case["input"]
            x = _layout(_field_of(case), inp.get("layout"))
            amp = b2f(inp["scale"]) if "scale" in inp else 1.0
            if case.get("stream") == "reject":
                y = f(x)       # expected to raise (the framework records type and raising module)
                return dict(accepted=True, ret_type=type(y).__name__)
            # G2: earlier calls of the same process on the SAME array object with the same box / cutoff / width
            pre = []
            for pc in case.get("pre", []):
                pre.append(np.asarray(f.single(x, pc["kind"], pc["which"])))
            y = f(x)
            out["ret_type"] = type(y).__name__
            out["dtype"] = str(np.asarray(y).dtype)
            out["shape"] = list(np.shape(y))
            out["finite"] = bool(np.all(np.isfinite(y))) if np.asarray(y).dtype.kind in "fciu" else False
            yc = np.asarray(y)
            out["aliases_input"] = bool(isinstance(y, np.ndarray) and np.shares_memory(y, x))
            if yc.shape != dims or yc.dtype.kind not in "fciu":
                out["input_mutated"] = list(f.mutated)
                return out
            if yc.dtype.kind in "iu":      # an integer array came back (recorded as it is, G3); the clauses are evaluated on its values
                yc = yc.astype(np.float64)
            X = np.fft.fftn(x)
            G = np.fft.fftn(yc) / X
            out["gain"] = _bits(G.real)
            out["gain_imag_max"] = float(np.abs(G.imag).max())
            out["imag_max"] = float(np.abs(yc.imag).max()) if yc.dtype.kind == "c" else 0.0
            yr = yc.real
            if max(dims) <= TINY:
                out["out"] = _bits(yr)
            scale = float(np.abs(x).max())
            out["scale"] = scale
            # G1: the call with the omitted keywords against the call that writes the documented defaults out
            if case.get("omit") or case.get("omit_px"):
                out["default_dev"] = float(np.abs(np.asarray(f(x, explicit=True)).real - yr).max())
            # linearity
            x2 = aux.standard_normal(dims) * amp
            a, b = [float(v) for v in aux.choice([-2.0, -0.5, 0.25, 1.0, 1.5, 3.0], 2)]
            y2 = np.asarray(f(x2)).real
            y12 = np.asarray(f(a * x + b * x2)).real
            out["lin"] = dict(a=a, b=b, dev=float(np.abs(y12 - (a * yr + b * y2)).max()))
            if case.get("outfile"):
                # round 7: the `output_name` branch (anchored by flow_documented, never run before): same returned array, and the file holds it
                # in single precision
                name = "c12_out" + case["outfile"]
                kw_out = dict(_sigma_kwargs(case))
                if case["kind"] == "band":
                    kw_out.update(_cut_kwargs(case["lp"], "lp_", case), **_cut_kwargs(case["hp"], "hp_", case))
                    fn_out = cryomap.bandpass
                else:
                    kw_out.update(_cut_kwargs(case["cut"], "", case))
                    fn_out = cryomap.lowpass if case["kind"] == "low" else cryomap.highpass
                yo = np.asarray(f._call(fn_out, x, output_name=name, **f._px_kw(), **kw_out))
                back = cryomap.read(name) if os.path.exists(name) else None
                out["outfile"] = dict(exists=back is not None, ret_dev=float(np.abs(yo.real - yr).max()) if yo.shape == dims else float("inf"),
                                      file_shape=list(back.shape) if back is not None else None,
                                      file_rel=float(np.abs(back - yr).max() / max(np.abs(yr).max(), 1e-300)) if back is not None and back.shape == dims else None)
            if inp.get("dtype") in ("float32", "float16"):
                # the map as cryomap.read returns it for a file: the SAME values in single precision. numpy >= 2 transforms it in single
                # precision; the result must be the double-precision result within the float32 FFT error (tolerance: see judge)
                x32 = x.astype(inp["dtype"])
                y32 = np.asarray(f(x32))
                ok32 = y32.shape == dims and y32.dtype.kind == "f"
                out["f32"] = dict(dtype=str(y32.dtype), shape=list(y32.shape), finite=bool(np.all(np.isfinite(y32))) if y32.dtype.kind in "fc" else False,
                                  rel=float(np.linalg.norm((y32.astype(np.float64) - yr).ravel()) / np.linalg.norm(x.ravel())) if ok32 else None)
            # circular shift
            s = [int(aux.integers(0, n)) for n in dims]
            ys = np.asarray(f(np.roll(x, s, axis=(0, 1, 2)))).real
            out["shift"] = dict(s=s, dev=float(np.abs(ys - np.roll(yr, s, axis=(0, 1, 2))).max()))
            if max(dims) <= TINY:
                out["out_shift"] = _bits(ys)      # f(np.roll(x, s)); the model filters rollGrid d (-s) x (Props/C12.filter_grid_roll_complex)
            # complement / difference of the companion low-passes (same parameters)
            if case["kind"] == "high":
                out["compl_dev"] = float(np.abs(yr - (x - f.low(x, ""))).max())
            if case["kind"] == "band":
                out["band_dev"] = float(np.abs(yr - (f.low(x, "lp") - f.low(x, "hp"))).max())
            # cutoffs given as a resolution
            if any("res" in case[c] for c in cuts):
                px = b2f(case["px"])
                radii = []
                for c in cuts:
                    with contextlib.redirect_stdout(io.StringIO()):
                        radii.append(_int_like(cryomap.get_filter_radius(dims[0], case[c].get("fp"), b2f(case[c]["res"]) if "res" in case[c] else None, px)))
                out["radii_typed"] = radii
                if all(r[2] for r in radii):
                    out["radii"] = [r[0] for r in radii]
                r2p = []
                for c in cuts:
                    if "res" in case[c]:
                        with contextlib.redirect_stdout(io.StringIO()):
                            v = cryomap.resolution2pixels(b2f(case[c]["res"]), dims[0], px)
                        r2p.append(_int_like(v))
                out["res2pix"] = r2p
                # the statement's own cutoffs (round(shape[0]*pixel_size/resolution); the Fourier pixels when both are given)
                stmt = [py_radius(case, case[c]) for c in cuts]
                out["res_dev"] = float(np.abs(yr - np.asarray(f.with_pixels(x, stmt)).real).max())
            # plane waves
            if inp["type"] in ("waves", "allwaves"):
                if inp["type"] == "allwaves":
                    wr = np.random.default_rng(inp["seed"])
                    seen, ws = set(), []
                    for k in itertools.product(*[range(-(n // 2), (n - 1) // 2 + 1) for n in dims]):
                        neg = tuple((-k[i]) % dims[i] for i in range(3))
                        pos = tuple(k[i] % dims[i] for i in range(3))
                        if neg in seen:
                            continue
                        seen.add(pos)
                        ws.append(list(k) + [float(wr.uniform(0, 6.28))])
                else:
                    ws = [w[:3] + [b2f(w[3])] for w in inp["waves"]]
                res = []
                leak = 0.0
                for kx, ky, kz, ph in ws:
                    w = _wave(dims, (kx, ky, kz), ph)
                    W = np.fft.fftn(w)
                    pos = (kx % dims[0], ky % dims[1], kz % dims[2])
                    if abs(W[pos]) < 1e-6 * w.size:      # a self-conjugate bin with phase pi/2: the wave vanishes
                        continue
                    yw = np.asarray(f(w)).real
                    Y = np.fft.fftn(yw)
                    g = Y[pos] / W[pos]
                    Y2 = Y.copy()
                    Y2[pos] = 0
                    Y2[tuple((-p) % n for p, n in zip(pos, dims))] = 0
                    leak = max(leak, float(np.abs(Y2).max() / np.abs(W).max()))
                    res.append([kx, ky, kz, f2b(g.real), float(abs(g.imag))])
                out["waves"] = res
                out["leak"] = leak
            # G2: the same call again at the END of the history (after high-passes, companions, other inputs): same arguments, same result
            out["repeat_dev"] = float(np.abs(np.asarray(f(x)).real - yr).max())
            if pre:
                devs = []
                for pc, y0 in zip(case["pre"], pre):
                    y1 = np.asarray(f.single(x, pc["kind"], pc["which"]))
                    devs.append(float(np.abs(y1 - y0).max()) if y1.shape == y0.shape else float("inf"))
                out["pre_repeat_dev"] = devs
                # an earlier call and the judged call with the same parameters: high + low = identity, low = low
                if case["kind"] in ("low", "high"):
                    rel = []
                    for pc, y0 in zip(case["pre"], pre):
                        want = yr if pc["kind"] == case["kind"] else x - yr
                        rel.append(float(np.abs(y0.real - want).max()) if y0.shape == yr.shape else float("inf"))
                    out["pre_rel_dev"] = rel
            out["input_mutated"] = list(f.mutated)
            out["calls"] = f.ncalls
        finally:
            os.chdir(cwd)
    return out


def requests(case, obs):
    rq = dict(op="gain", kind=case["kind"], dims=case["dims"])
    if "px" in case:
        rq["px"] = case["px"]
    if case["kind"] == "band":
        for pre in ("lp", "hp"):
            for k, v in case[pre].items():
                rq[f"{pre}_{k}"] = v
            rq[f"{pre}_sigma"] = case[f"{pre}_sigma"]
    else:
        rq.update(case["cut"])
        rq["sigma"] = case["sigma"]
        if b2f(case["sigma"]) != 0.0:
            rq["m_in"], rq["m_out"] = margin_m(b2f(case["sigma"]))
    out = [rq]
    cuts = ["cut"] if case["kind"] != "band" else ["lp", "hp"]
    for c in cuts:
        if "res" in case[c] and "px" in case:
            out.append(dict(op="res2pix", edge=case["dims"][0], px=case["px"], res=case[c]["res"]))
    if max(case["dims"]) <= TINY and "out" in obs:
        fq = dict(rq, op="filter", x=_bits(_field_of(case)))
        if "out_shift" in obs:
            fq["roll"] = [-int(v) for v in obs["shift"]["s"]]     # np.roll(x, s)[i] = x[(i - s) mod n] = x[rollIdx d (-s) i]
        out.append(fq)
    return out


# ------------------------------------------------------------------ judge
# Kind discipline (G6): "spec" = a clause of the statement evaluated on the REAL output alone (measured gains, outputs of other real
# calls, exact integer frequency radii, the documented defaults) fails — with a tolerance that is either FFT round-off (TOL) or a bound
# PROVED in Props/C12 and evaluated by the driver on the executed kernel (tail3, fitsInside/fitsOutside, monoAxisOk);
# "corr" = the real output differs from the Lean model's, or the harness's own evaluation differs from the driver's.
RAYS = [d for d in itertools.product((-1, 0, 1), repeat=3) if d != (0, 0, 0)]


def mono_axis_ok(n, r):
    """Model/C12.monoAxisOk: the ball of radius r stays off both faces of the mask box along an axis of length n"""
    return bool(r < n // 2 and n // 2 + r + 1 < n)


def face_rise_py(n, r, s):
    """Model/C12.faceRise evaluated in Python (cross-check of the driver's number; fallback when the driver gave none): 0 unless the axis is
    even, the ball reaches its upper face (n//2 + r + 1 >= n) and the kernel reaches n/2; then the kernel weight at offset n/2"""
    c = n // 2
    if c + r + 1 < n or n % 2 == 1:
        return 0.0
    t = int(4.0 * s + 0.5)
    if t < c:
        return 0.0
    x = np.arange(-t, t + 1)
    w = np.exp(-0.5 / (s * s) * x ** 2)
    w /= w.sum()
    return float(w[t + c])


def _proved_mono_violation(low, dims, ok, allow=(0.0, 0.0, 0.0)):
    """Props/C12.soft_eff_gain_axis_step_checked on the measured gain: every single step of one index away from frequency 0 along an axis
    with ok[axis], at EVERY position of the other two indices, INCLUDING the step onto the Nyquist bin of an even axis (-(n/2-1) -> -n/2):
    the increase is at most allow[axis] (= faceRise/2; 0 where the ball stays off the upper face, the axis is odd or the kernel is
    shorter than n/2). (Diagonal steps are chains of these.) -> (largest increase beyond the allowance, where)"""
    worst = (0.0, None)
    for ax in range(3):
        n = dims[ax]
        if not ok[ax]:
            continue
        f = sfreq(n)
        g = np.moveaxis(low, ax, 0)
        for a in range(0, (n - 1) // 2):              # 0 <= a -> a+1 <= (n-1)//2 ; the mirror step -a -> -a-1 stays above -n/2 ... or is the Nyquist bin only when n is even and a+1 = n/2 (excluded by the range)
            for sgn in (1, -1):
                i0, i1 = (sgn * a) % n, (sgn * (a + 1)) % n
                inc = g[i1] - g[i0] - allow[ax]
                m = float(inc.max())
                if m > worst[0]:
                    j = np.unravel_index(int(np.argmax(inc)), inc.shape)
                    worst = (m, (ax, sgn * a, sgn * (a + 1), tuple(int(v) for v in j)))
        if n % 2 == 0 and n >= 4:                     # the Nyquist landing -(n/2-1) -> -n/2 (that bin is its own mirror image)
            i0, i1 = (-(n // 2 - 1)) % n, n // 2
            inc = g[i1] - g[i0] - allow[ax]
            m = float(inc.max())
            if m > worst[0]:
                j = np.unravel_index(int(np.argmax(inc)), inc.shape)
                worst = (m, (ax, -(n // 2 - 1), -(n // 2), tuple(int(v) for v in j)))
    return worst


def _ray_violation(g, dims, skip=None):
    """largest increase of the gain along any axis/diagonal ray of growing integer frequency; skip(d) -> rays to leave out"""
    worst = (0.0, None)
    for d in RAYS:
        if skip is not None and skip(d):
            continue
        prev, m = None, 0
        while True:
            k = [m * d[i] for i in range(3)]
            if any(k[i] < -(dims[i] // 2) or k[i] > (dims[i] - 1) // 2 for i in range(3)):
                break
            v = g[k[0] % dims[0], k[1] % dims[1], k[2] % dims[2]]
            if prev is not None and v - prev > worst[0]:
                worst = (float(v - prev), (d, m))
            prev, m = v, m + 1
    return worst


def _model_margins(m, dims, r, s):
    """(tail_in, tail_out, inside flags, outside flags, origin) — the bounds of Props/C12.soft_margin_checked as evaluated by the driver"""
    if m is not None and "tail_in" in m and m.get("radius") == [r]:
        n = dims[0] * dims[1] * dims[2]
        if len(m["inside"]) == n and len(m["outside"]) == n:
            return (b2f(m["tail_in"]), b2f(m["tail_out"]), np.array(m["inside"], dtype=bool).reshape(dims), np.array(m["outside"], dtype=bool).reshape(dims), "driver")
    tw = tail_weight(s)
    return tw, tw, None, None, "fallback"


def _spec_gain(case, kind, radii, sig, g, dims, what, m=None):
    """clauses of the statement about the gain array g of a low-pass (kind 'low') or its complement ('high'); m = the model's answer"""
    out = []
    R2 = radius2(dims)
    low = g if kind == "low" else 1.0 - g
    r, s = radii, sig
    if s == 0.0:
        want = (R2 <= r * r).astype(float) if r >= 0 else (R2 == 0).astype(float)
        bad = np.argwhere(np.abs(low - want) > TOL)
        if len(bad):
            j = tuple(int(v) for v in bad[0])
            out.append(dict(kind="spec", clause="hard-cutoff", detail=f"{what}: bin {j} (|k|^2={int(R2[j])}, cutoff {r}, cutoff^2={r*r}): low-pass gain {low[j]:.12g}, statement demands {want[j]:.0f}; {len(bad)} bins differ"))
    else:
        R = np.sqrt(R2)
        inside, outside = margin_sets(dims, r, s)
        tin, tout, fin, fout, origin = _model_margins(m, dims, r, s)
        if fin is not None:
            # every bin the statement calls inside/outside must satisfy the hypotheses of soft_gain_inside/outside (else the bound is not proved for it)
            if (inside & ~fin).any() or (outside & ~fout).any():
                j = tuple(int(v) for v in np.argwhere((inside & ~fin) | (outside & ~fout))[0])
                out.append(dict(kind="corr", clause="margin-vs-model", detail=f"{what}: bin {j} radius {R[j]:.3f} is inside/outside by the statement (cutoff {r}, 4s+1={4*s+1}) but the model's fitsInside/fitsOutside flag is not set"))
            inside, outside = inside | fin, outside | fout      # the proved bound holds on every flagged bin: check all of them
        if inside.any() and (1 - low[inside]).max() > tin + TOL:
            j = tuple(int(v) for v in np.argwhere(inside & (1 - low > tin + TOL))[0])
            out.append(dict(kind="spec", clause="soft-inside", detail=f"{what}: bin {j} radius {R[j]:.3f} <= cutoff-4s-1 = {r-4*s-1}: low-pass gain {low[j]:.9g} is below 1 by more than the kernel weight at offsets longer than 4s+1 ({tin:.6g}, {origin})"))
        if outside.any() and low[outside].max() > tout + TOL:
            j = tuple(int(v) for v in np.argwhere(outside & (low > tout + TOL))[0])
            out.append(dict(kind="spec", clause="soft-outside", detail=f"{what}: bin {j} radius {R[j]:.3f} >= cutoff+4s+1 = {r+4*s+1}: low-pass gain {low[j]:.9g} exceeds the kernel weight at offsets of length >= 4s+1 ({tout:.6g}, {origin})"))
        # "non-increasing in between" — judged exactly as far as it is a THEOREM, on every axis of every box (no part left to an empirical
        # bound): Props/C12.soft_eff_gain_axis_step_checked — each single step of one index away from frequency 0 (Nyquist landing
        # included), at every position of the other two indices, raises the effective gain by at most faceRise(axis)/2, where faceRise is 0
        # unless the axis is even, the ball reaches its upper face and the kernel reaches n/2 (then: the kernel weight at offset n/2, the
        # number the driver evaluates on the executed kernel). Diagonal steps are chains of these. Tolerance: FFT round-off TOL only.
        ok = [mono_axis_ok(n, r) for n in dims]
        if m is not None and "mono_axes" in m and [bool(v) for v in m["mono_axes"]] != ok:
            out.append(dict(kind="corr", clause="mono-axes-vs-model", detail=f"{what}: monoAxisOk per axis: driver {m['mono_axes']}, harness {ok} (dims {list(dims)}, cutoff {r})"))
        fr_py = [face_rise_py(n, r, s) for n in dims]
        fr = fr_py
        if m is not None and "face_rise" in m and len(m["face_rise"]) == 3:
            fr = [b2f(v) for v in m["face_rise"]]
            if any((a == 0.0) != (b == 0.0) or abs(a - b) > 1e-12 for a, b in zip(fr, fr_py)):
                out.append(dict(kind="corr", clause="face-rise-vs-model", detail=f"{what}: faceRise per axis: driver {fr}, harness {fr_py} (dims {list(dims)}, cutoff {r}, sigma {s})"))
        inc, where = _proved_mono_violation(low, dims, [True] * 3, [v / 2 for v in fr])
        if inc > TOL:
            ax, f0, f1, pos = where
            out.append(dict(kind="spec", clause="soft-monotone", detail=f"{what}: low-pass gain grows by {inc + fr[ax] / 2:.3g} from frequency {f0} to {f1} along axis {ax} at the other two indices {pos}; "
                            f"proved bound for this axis (Props/C12.soft_eff_gain_axis_step_checked): faceRise/2 = {fr[ax] / 2:.3g}"
                            + (" (the ball stays off the upper face, the axis is odd or the kernel is shorter than n/2: non-increasing is a theorem)" if fr[ax] == 0.0 else
                               " (even axis, the ball reaches its upper face, the kernel reaches n/2: mode='nearest' may add that much)")))
    return out


def _fail(obs):
    """G4: an exception with no frame inside cryocat/ is the harness's or a third-party library's, not a verdict on the property"""
    if not obs.get("where"):
        return [dict(kind="corr", clause="harness-or-library-raised", detail=obs["error"] + " (no frame inside cryocat/)")]
    return [dict(kind="spec", clause="raises", detail=obs["error"] + " @" + obs.get("where", ""))]


def _judge_reject(case, obs, resps):
    """the statement is silent about calls without a cutoff: everything here is kind 'corr' (the model and the documentation reject them)"""
    out = []
    m = resps[0] if resps else {}
    if m.get("error") != "reject:no-cutoff":
        out.append(dict(kind="corr", clause="model-accepts-no-cutoff", detail=f"the model answered {str(m)[:200]} to a call without a usable cutoff"))
    if "error" not in obs:
        out.append(dict(kind="corr", clause="accepts-no-cutoff", detail=f"the call without Fourier pixels and without resolution+pixel size returned a {obs.get('ret_type')} instead of raising ValueError"))
    else:
        etype = obs["error"].split(":", 1)[0]
        if etype != "ValueError" or not obs.get("where", "").startswith("cryomap.py"):
            out.append(dict(kind="corr", clause="rejects-differently", detail=f"a call without a usable cutoff raised {etype} at {obs.get('where') or 'outside cryocat'}; documented: ValueError from get_filter_radius"))
    return out


def judge(case, obs, resps):
    out = []
    if case.get("stream") == "reject":
        return _judge_reject(case, obs, resps)
    if "error" in obs:
        return _fail(obs)
    dims = tuple(case["dims"])
    kind = case["kind"]
    cuts = ["cut"] if kind != "band" else ["lp", "hp"]
    # clauses the statement is SILENT about are kind "corr" (the model / the documentation say so, the statement does not): the caller's
    # array is left alone, the same call gives the same result whatever ran before, an omitted keyword means the documented default, the
    # Fourier-pixel count is an int, the result is a float array (L-9 / G6)
    if obs.get("input_mutated"):
        out.append(dict(kind="corr", clause="input-mutated", detail=f"the caller's array was changed in place by {obs['input_mutated'][:4]} ({len(obs['input_mutated'])} call(s))"))
    int_out = obs["dtype"].startswith(("int", "uint"))
    if obs.get("ret_type", "ndarray") != "ndarray" or obs["shape"] != list(dims) or not (obs["dtype"].startswith("float") or int_out) or not obs["finite"]:
        return out + [dict(kind="spec", clause="real-valued", detail=f"returned {obs.get('ret_type')} dtype {obs['dtype']} shape {obs['shape']} finite={obs['finite']} imag_max={obs.get('imag_max')}")]
    if int_out:
        out.append(dict(kind="corr", clause="return-dtype", detail=f"returned an array of dtype {obs['dtype']} (input dtype {case['input'].get('dtype', 'float64')}): the model's output is a float array; the clauses below are evaluated on its values"))
    # every deviation below is compared with TOL x the amplitude of the map (FFT round-off is relative to it); maps without an explicit
    # scale are O(1..5) and keep the historical floor of 1
    sc = obs["scale"] if ("scale" in case["input"] and obs["scale"] > 0) else max(1.0, obs["scale"])
    if "f32" in obs:
        # H4: a float32 map is transformed in single precision by numpy >= 2 (pocketfft); forward-FFT error in the 2-norm <= eta*log2(N)*||x||,
        # eta ~ 3.3*eps32 (Higham, Accuracy and Stability, Thm 24.2); gain <= 1 and the inverse transform runs in double, so
        # ||f(x32) - f(x64)||_2 / ||x||_2 <= 8*eps32*log2(N) with a factor 2 in hand (measured on 8..48 boxes: <= 0.04*eps32*log2(N))
        f32 = obs["f32"]
        tol32 = 8 * float(np.finfo(np.float32).eps) * math.log2(dims[0] * dims[1] * dims[2])
        if f32["shape"] != list(dims) or not f32["dtype"].startswith("float") or not f32["finite"]:
            out.append(dict(kind="spec", clause="real-valued", detail=f"{case['input'].get('dtype')} map: returned dtype {f32['dtype']} shape {f32['shape']} finite={f32['finite']}"))
        elif f32["rel"] is None or not f32["rel"] <= tol32:
            out.append(dict(kind="spec", clause="float32-map", detail=f"the filter of the {case['input'].get('dtype')} map (transformed in single precision) differs from the filter of the same values in float64 by {f32['rel']:.3g} x ||x|| (2-norm), "
                            f"more than the single-precision FFT error 8*eps32*log2(N) = {tol32:.3g}: not the same gains"))
    if "outfile" in obs:       # the statement says nothing about output files: corr
        o = obs["outfile"]
        if not o["exists"] or o["file_shape"] != list(dims) or o["file_rel"] is None or not o["file_rel"] <= 1e-6:
            out.append(dict(kind="corr", clause="output-file", detail=f"output_name given: file written={o['exists']}, shape {o['file_shape']}, deviation from the returned map {o['file_rel']} x max (documented: the map in single precision)"))
        if not o["ret_dev"] <= TOL * sc:
            out.append(dict(kind="corr", clause="output-file-return", detail=f"the call with output_name returns a map that differs by {o['ret_dev']:.3g} from the call without"))
    g = np.array([b2f(b) for b in obs["gain"]]).reshape(dims)
    if obs["gain_imag_max"] > TOL:
        out.append(dict(kind="spec", clause="real-gain", detail=f"fft(out)/fft(in) has imaginary part {obs['gain_imag_max']:.3g}"))
    if obs["lin"]["dev"] > TOL * sc * 8:
        out.append(dict(kind="spec", clause="linear", detail=f"f({obs['lin']['a']}x+{obs['lin']['b']}y) differs from {obs['lin']['a']}f(x)+{obs['lin']['b']}f(y) by {obs['lin']['dev']:.3g}"))
    if obs["shift"]["dev"] > TOL * sc:
        out.append(dict(kind="spec", clause="shift", detail=f"f(roll(x,{obs['shift']['s']})) differs from roll(f(x)) by {obs['shift']['dev']:.3g}"))
    if "compl_dev" in obs and obs["compl_dev"] > TOL * sc:
        out.append(dict(kind="spec", clause="complement", detail=f"highpass(x) differs from x - lowpass(x) (same parameters) by {obs['compl_dev']:.3g}"))
    if "band_dev" in obs and obs["band_dev"] > TOL * sc:
        out.append(dict(kind="spec", clause="band-difference", detail=f"bandpass(x) differs from lowpass_lp(x) - lowpass_hp(x) by {obs['band_dev']:.3g}"))
    # the gain is a function of the parameters only: same call, same result, whatever ran before (G2)
    if obs.get("repeat_dev", 0.0) > TOL * sc:
        out.append(dict(kind="corr", clause="call-history", detail=f"the same call on the same array at the end of the run differs from the first by {obs['repeat_dev']:.3g} ({obs.get('calls')} filter calls in this process for the case)"))
    for pc, dv in zip(case.get("pre", []), obs.get("pre_repeat_dev", [])):
        if not dv <= TOL * sc:
            out.append(dict(kind="corr", clause="call-history", detail=f"{pc['kind']}pass({pc['which'] or 'cut'}) called before and after the judged call gives results that differ by {dv:.3g}"))
            break
    for pc, dv in zip(case.get("pre", []), obs.get("pre_rel_dev", [])):
        if not dv <= TOL * sc:
            rel = "the same filter" if pc["kind"] == kind else "the complement (high + low = identity)"
            out.append(dict(kind="spec" if pc["kind"] != kind else "corr", clause="complement" if pc["kind"] != kind else "call-history", detail=f"the earlier {pc['kind']}pass call with the same parameters is not {rel} of the judged call: differs by {dv:.3g}"))
            break
    # an omitted keyword means its documented default (Props/C12.defaults_documented) (G1)
    if obs.get("default_dev", 0.0) > TOL * sc:
        om = case.get("omit", []) + (["pixel_size"] if case.get("omit_px") else [])
        out.append(dict(kind="corr", clause="signature-default", detail=f"the call that omits {om} differs by {obs['default_dev']:.3g} from the call that passes the documented defaults "
                        f"({ {k: b2f(case[k]) for k in case.get('omit', [])} }, pixel_size=None)"))
    # the cutoffs the statement prescribes: the Fourier pixels given, else round(box*pixel_size/resolution) with box = shape[0], the documented
    # edge of a non-cubic map (it is silent about pixels AND resolution given together: then the pixels, as the code documents, and only the
    # correspondence with the model speaks about the precedence)
    radii = [py_radius(case, case[c]) for c in cuts]
    if "radii_typed" in obs:
        for c, rt in zip(cuts, obs["radii_typed"]):
            if not rt[2]:
                out.append(dict(kind="corr", clause="resolution-pixels-type", detail=f"get_filter_radius returned {rt[0]} of type {rt[1]} for {c}: Fourier pixels are an integer count"))
        for rt in obs.get("res2pix", []):
            if not rt[2]:
                out.append(dict(kind="corr", clause="resolution-pixels-type", detail=f"resolution2pixels returned {rt[0]} of type {rt[1]}: Fourier pixels are an integer count"))
        amb = ["res" in case[c] and "fp" in case[c] for c in cuts]
        got = [rt[0] for rt in obs["radii_typed"]]
        if all(rt[2] for rt in obs["radii_typed"]):
            # pixels AND resolution given for a cutoff: the statement does not say which wins -> the code's choice is taken for the gain clauses
            radii = [got[i] if amb[i] else radii[i] for i in range(len(cuts))]
            if got != radii:
                out.append(dict(kind="spec", clause="resolution-pixels", detail=f"get_filter_radius gave {got}, statement: pixels given, else round(shape[0]*pixel_size/resolution) = {radii}"))
        want = [round(dims[0] * b2f(case["px"]) / b2f(case[c]["res"])) for c in cuts if "res" in case[c]]
        if [v[0] for v in obs["res2pix"]] != want and all(v[2] for v in obs["res2pix"]):
            out.append(dict(kind="spec", clause="resolution-pixels", detail=f"resolution2pixels gave {obs['res2pix']}, round(shape[0]*pixel_size/resolution) = {want} (shape {list(dims)})"))
        if obs["res_dev"] > TOL * sc:
            out.append(dict(kind="corr" if any(amb) else "spec", clause="resolution-form", detail=f"the filter given target_resolution/pixel_size differs by {obs['res_dev']:.3g} from the same filter given fourier_pixels={radii} = "
                            f"round(shape[0]*pixel_size/resolution) on the box {list(dims)}"))
    # gain clauses
    if kind in ("low", "high"):
        s = b2f(case["sigma"])
        if g.min() < -TOL or g.max() > 1 + TOL:
            out.append(dict(kind="spec", clause="gain-range", detail=f"measured gain range [{g.min():.12g}, {g.max():.12g}]"))
        out += _spec_gain(case, kind, radii[0], s, g, dims, kind + "pass", resps[0] if resps else None)
    else:
        sl, sh = b2f(case["lp_sigma"]), b2f(case["hp_sigma"])
        if g.min() < -TOL or g.max() > 1 + TOL:       # EVERY band-pass: the statement's gain lies in [0,1] (open known findings: see classify)
            j = tuple(int(v) for v in np.unravel_index(int(np.argmin(g)) if g.min() < -TOL else int(np.argmax(g)), g.shape))
            out.append(dict(kind="spec", clause="gain-range", detail=f"band-pass (cutoffs lp {radii[0]} / hp {radii[1]}, widths lp {sl} / hp {sh}) gain range [{g.min():.12g}, {g.max():.12g}], "
                            f"bin {j} (|k|^2={int(radius2(dims)[j])}) has gain {g[j]:.12g}", gmin=float(g.min()), gmax=float(g.max())))
        if sl == 0.0 and sh == 0.0:
            R2 = radius2(dims)
            want = (R2 <= radii[0] ** 2).astype(float) - (R2 <= radii[1] ** 2).astype(float)
            bad = np.argwhere(np.abs(g - want) > TOL)
            if len(bad):
                j = tuple(int(v) for v in bad[0])
                out.append(dict(kind="spec", clause="hard-cutoff", detail=f"bandpass: bin {j} (|k|^2={int(R2[j])}, lp {radii[0]}, hp {radii[1]}): gain {g[j]:.12g}, statement demands {want[j]:.0f}; {len(bad)} bins differ"))
    # plane waves
    if "waves" in obs:
        if obs["leak"] > TOL:
            out.append(dict(kind="spec", clause="plane-wave-leak", detail=f"a pure plane wave comes out with other frequencies, relative amplitude {obs['leak']:.3g}"))
        for kx, ky, kz, gb, im in obs["waves"]:
            gv = b2f(gb)
            ref = g[kx % dims[0], ky % dims[1], kz % dims[2]]
            if abs(gv - ref) > TOL or im > TOL:
                out.append(dict(kind="spec", clause="plane-wave-gain", detail=f"plane wave k=({kx},{ky},{kz}) scaled by {gv:.12g} (imag {im:.3g}) but the same bin of a random field by {ref:.12g}: not one gain per Fourier component"))
                break
    # correspondence with the Lean model
    if not resps:
        return out + [dict(kind="corr", clause="model-rejects", detail="no answer from the driver")]
    m = resps[0]
    if "error" in m:
        out.append(dict(kind="corr", clause="model-rejects", detail=str(m)))
        return out
    if m["radius"] != obs.get("radii", radii):
        out.append(dict(kind="corr", clause="radius-vs-model", detail=f"model cutoffs {m['radius']}, get_filter_radius {obs.get('radii', radii)}"))
    nres = sum(1 for c in cuts if "res" in case[c])
    rres = resps[1:1 + nres]
    for r in resps[1:]:
        if "error" in r:
            out.append(dict(kind="corr", clause="model-rejects", detail=str(r)))
    if "res2pix" in obs and [r.get("pixels") for r in rres] != [v[0] for v in obs["res2pix"]]:
        out.append(dict(kind="corr", clause="res2pix-vs-model", detail=f"resolution2pixels {obs['res2pix']} vs model {[r.get('pixels') for r in rres]}"))
    eff = np.array([b2f(b) for b in m["eff"]]).reshape(dims)
    dev = np.abs(g - eff)
    for f_ in out:       # for classify(): do the measured band gains agree with the model's own (negative-lobe) prediction?
        if f_.get("clause") == "gain-range" and "gmin" in f_:
            f_["model_dev"] = float(dev.max())
            f_["model_min"] = float(eff.min())
    if dev.max() > TOL:
        j = tuple(int(v) for v in np.argwhere(dev > TOL)[0])
        out.append(dict(kind="corr", clause="gain-vs-model", detail=f"bin {j}: measured gain {g[j]:.12g}, model {eff[j]:.12g}; max deviation {dev.max():.3g} over {int((dev > TOL).sum())} bins"))
    # tiny boxes: the whole filter np.real(ifftn(fftn(x) * ifftshift(mask))) executed by the model on its own DFT
    fr = [r for r in resps[1:] if isinstance(r, dict) and "out" in r]
    if "out" in obs:
        if not fr:
            out.append(dict(kind="corr", clause="filter-vs-model", detail=f"no model output for a tiny box: {[r for r in resps[1:] if 'error' in r][:1]}"))
        else:
            ym = np.array([b2f(b) for b in fr[0]["out"]]).reshape(dims)
            yo = np.array([b2f(b) for b in obs["out"]]).reshape(dims)
            dv = np.abs(ym - yo)
            if not (dv.max() <= TOL * sc):
                jj = tuple(int(v) for v in np.argwhere(~(dv <= TOL * sc))[0])
                out.append(dict(kind="corr", clause="filter-vs-model", detail=f"voxel {jj}: filtered value {yo[jj]:.12g}, model {ym[jj]:.12g}; max deviation {dv.max():.3g}"))
            # the same pipeline on the model's rolled array (rollGrid / rollIdx, the shift of filt_shift_complex) against the real
            # code's output on np.roll(x, s): ties the theorem's notion of a circular shift to numpy's
            if "out_shift" in obs:
                if "out_roll" not in fr[0]:
                    out.append(dict(kind="corr", clause="shift-vs-model", detail="no model output for the rolled input of a tiny box"))
                else:
                    yms = np.array([b2f(b) for b in fr[0]["out_roll"]]).reshape(dims)
                    yos = np.array([b2f(b) for b in obs["out_shift"]]).reshape(dims)
                    dvs = np.abs(yms - yos)
                    if not (dvs.max() <= TOL * sc):
                        jj = tuple(int(v) for v in np.argwhere(~(dvs <= TOL * sc))[0])
                        out.append(dict(kind="corr", clause="shift-vs-model", detail=f"input rolled by {obs['shift']['s']}, voxel {jj}: filtered value {yos[jj]:.12g}, model on rollGrid {yms[jj]:.12g}; max deviation {dvs.max():.3g}"))
    if "waves" in obs:
        for kx, ky, kz, gb, im in obs["waves"]:
            ref = eff[kx % dims[0], ky % dims[1], kz % dims[2]]
            if abs(b2f(gb) - ref) > TOL:
                out.append(dict(kind="corr", clause="wave-vs-model", detail=f"plane wave k=({kx},{ky},{kz}): gain {b2f(gb):.12g}, model {ref:.12g}"))
                break
    return out


def classify(case, obs, finding):
    """open known findings, matched EXACTLY (H5 / L-9).
    C12-K1: a band-pass whose two edges have DIFFERENT Gaussian widths has NEGATIVE gains while bandpass == lowpass(lp) - lowpass(hp) holds.
    C12-K2: an INVERTED band (hp cutoff above lp cutoff) with EQUAL widths has negative gains (down to -1), same proviso.
    Neither covers a gain above 1 (g = L_lp - L_hp <= L_lp <= 1 always: `band_gain_bounds`), a gain below -1, or lobes that are not the
    model's own prediction (measured gain = model gain within TOL): those stay unlisted findings."""
    if case.get("kind") != "band" or finding.get("kind") != "spec" or finding.get("clause") != "gain-range" or "error" in obs:
        return None
    sc = obs["scale"] if ("scale" in case["input"] and obs.get("scale", 0) > 0) else max(1.0, obs.get("scale", 1.0))
    if not ("band_dev" in obs and obs["band_dev"] <= TOL * sc):
        return None              # only while the difference clause holds: a clipped or otherwise altered mask is not this finding
    gmin, gmax, md = finding.get("gmin"), finding.get("gmax"), finding.get("model_dev")
    if gmin is None or gmax is None or md is None:
        return None              # no model answer: the lobes cannot be attributed
    if not (gmin < -TOL and gmin >= -1 - TOL and gmax <= 1 + TOL and md <= TOL):
        return None
    cuts = ["lp", "hp"]
    radii = [py_radius(case, case[c]) for c in cuts]
    if b2f(case["lp_sigma"]) != b2f(case["hp_sigma"]):
        return "C12-K1"
    if radii[1] > radii[0]:
        return "C12-K2"
    return None


def nontrivial(case, obs):
    if "gain" not in obs:
        return False
    g = [b2f(b) for b in obs["gain"]]
    return max(g) > 0.5 and min(g) < 0.5


def _bucket(n):
    return "5-7" if n < 8 else "8-12" if n <= 12 else ("13-16" if n <= 16 else ("17-24" if n <= 24 else ("25-32" if n <= 32 else "33-48")))


def stats(case, obs, resps):
    if case.get("stream") == "reject":
        return {"stream": "reject", "kind": case["kind"], "rejected_with": obs["error"].split(":", 1)[0] if "error" in obs else "ACCEPTED",
                "model": (resps[0].get("error") if resps else None) or "accepted"}
    d = case["dims"]
    cuts = ["cut"] if case["kind"] != "band" else ["lp", "hp"]
    st = {"kind": case["kind"], "box": "cubic" if d[0] == d[1] == d[2] else "non-cubic", "max_edge": _bucket(max(d)),
          "parity": "".join("e" if n % 2 == 0 else "o" for n in d), "input": case["input"]["type"],
          "cutoff_form": ["resolution+fp" if ("res" in case[c] and "fp" in case[c]) else ("resolution" if "res" in case[c] else "pixels") for c in cuts]}
    sig = [b2f(case[k]) for k in (["sigma"] if case["kind"] != "band" else ["lp_sigma", "hp_sigma"])]
    st["sigma"] = [str(s) for s in sig]
    st["keywords_omitted(G1)"] = "+".join(sorted(case.get("omit", [])) + (["pixel_size"] if case.get("omit_px") else [])) or "none"
    st["earlier_calls_same_key(G2)"] = "+".join(p_["kind"] + ":" + (p_["which"] or "cut") for p_ in case.get("pre", [])) or "none"
    st["stream"] = case.get("stream", "general")
    st["map_dtype"] = case["input"].get("dtype", "float64")
    st["map_layout"] = case["input"].get("layout", "C-contiguous native")
    st["output_name"] = case.get("outfile", "none")
    st["map_scale"] = ("%g" % b2f(case["input"]["scale"])) if "scale" in case["input"] else "1"
    st["param_types(H3)"] = "+".join(f"{k}:{v}" for k, v in sorted(case.get("types", {}).items())) or "plain"
    if case["kind"] == "band":
        st["band_shape"] = ("inverted" if py_radius(case, case["hp"]) > py_radius(case, case["lp"]) else "nested") + ("+equal-widths" if sig[0] == sig[1] else "+different-widths")
    if "error" in obs or "gain" not in obs:
        st["impl"] = "error"
        return st
    radii = [py_radius(case, case[c]) for c in cuts]
    st["returned"] = f"{obs.get('ret_type')}:{obs.get('dtype')}"
    st["filter_calls_per_case"] = "<=10" if obs.get("calls", 0) <= 10 else ("11-50" if obs.get("calls", 0) <= 50 else ">50")
    if "radii_typed" in obs:
        st["radius_type"] = [r_[1] for r_ in obs["radii_typed"]]
    if case["kind"] == "band":
        g_ = np.array([b2f(b) for b in obs["gain"]])
        st["band_gain_min"] = ">=0" if g_.min() >= -TOL else (">=-0.01" if g_.min() >= -0.01 else (">=-0.2" if g_.min() >= -0.2 else "<-0.2"))
    st["cutoff/half"] = ["=half" if r == min(d) // 2 else (">half" if r > min(d) // 2 else ("1" if r == 1 else "inner")) for r in radii]
    if case.get("res_how"):
        st["resolution_case"] = case["res_how"]
    if resps and "gain" in resps[0]:
        raw = np.array([b2f(b) for b in resps[0]["gain"]])
        eff = np.array([b2f(b) for b in resps[0]["eff"]])
        st["model_branch"] = ("hard" if all(s == 0 for s in sig) else "soft") + ("+asymmetric-edge" if np.abs(raw - eff).max() > 1e-12 else "")
        g = np.array([b2f(b) for b in obs["gain"]])
        dv = float(np.abs(g - eff).max())
        st["max_dev_vs_model"] = "<1e-13" if dv < 1e-13 else ("<1e-11" if dv < 1e-11 else ("<1e-9" if dv < 1e-9 else ">=1e-9"))
    if case["kind"] in ("low", "high") and sig[0] != 0.0:
        g = np.array([b2f(b) for b in obs["gain"]]).reshape(d)
        low = g if case["kind"] == "low" else 1.0 - g
        R = np.sqrt(radius2(d))
        ins, outs = R <= radii[0] - 4 * sig[0] - 1, R >= radii[0] + 4 * sig[0] + 1
        used_in = float(np.abs(low[ins] - 1).max()) if ins.any() else 0.0
        used_out = float(np.abs(low[outs]).max()) if outs.any() else 0.0
        st["soft_inside/outside_bins"] = ("inside" if ins.any() else "") + ("+outside" if outs.any() else "") or "none"
        tin, tout, fin, fout, origin = _model_margins(resps[0] if resps else None, tuple(d), radii[0], sig[0])
        st["margin_tolerance_from"] = origin
        ok = [mono_axis_ok(n, radii[0]) for n in d]
        st["monotone_proved_axes"] = str(sum(ok))
        frs = [face_rise_py(n, radii[0], sig[0]) for n in d]
        zero_ax = [v == 0.0 for v in frs]
        st["axes_with_faceRise>0"] = str(3 - sum(zero_ax))
        inc_p, _ = _proved_mono_violation(low, tuple(d), zero_ax)
        st["increase_on_exactly_monotone_axes"] = "0" if inc_p <= 0 else ("<1e-12" if inc_p < 1e-12 else ("<1e-9" if inc_p < 1e-9 else ">=1e-9"))
        if not all(zero_ax):
            inc_u, _ = _proved_mono_violation(low, tuple(d), [not z for z in zero_ax])
            lim = max(frs) / 2
            st["increase_on_faceRise_axes/bound"] = "0" if inc_u <= 0 else ("<1e-9 abs" if inc_u < 1e-9 else ("<1% of faceRise/2" if inc_u < 0.01 * lim else ("<=faceRise/2" if inc_u <= lim else ">faceRise/2")))
        st["inside_bins"] = "0" if not ins.any() else ("1-10" if ins.sum() <= 10 else ("11-100" if ins.sum() <= 100 else ">100"))
        st["outside_bins"] = "0" if not outs.any() else ("1-10" if outs.sum() <= 10 else ("11-100" if outs.sum() <= 100 else ">100"))
        if fin is not None:
            st["proved_margin_bins/statement_bins"] = "more" if ((fin | fout) & ~(ins | outs)).any() else "same"
        if ins.any() or outs.any():
            tw = max(tin, tout)
            fr = max(used_in / tin if tin > 1e-9 else 0.0, used_out / tout if tout > 1e-9 else 0.0) if tw > 1e-9 else None
            st["tail_dev/kernel_tail_weight"] = "weight<1e-9" if fr is None else ("<1%" if fr < 0.01 else ("<25%" if fr < 0.25 else ("<100%" if fr < 0.999999 else ("=100% (bound attained)" if fr <= 1.000001 else ">100%"))))
    fr_ = [r for r in (resps or [])[1:] if isinstance(r, dict) and "out" in r]
    if "out" in obs and fr_:
        dvf = float(np.abs(np.array([b2f(b) for b in fr_[0]["out"]]) - np.array([b2f(b) for b in obs["out"]])).max())
        st["filter_output_vs_model_dft"] = "<1e-13" if dvf < 1e-13 else ("<1e-11" if dvf < 1e-11 else ("<1e-9" if dvf < 1e-9 else ">=1e-9"))
    if "out_shift" in obs and fr_ and "out_roll" in fr_[0]:
        dvs = float(np.abs(np.array([b2f(b) for b in fr_[0]["out_roll"]]) - np.array([b2f(b) for b in obs["out_shift"]])).max())
        st["rolled_output_vs_model_rollGrid"] = "<1e-13" if dvs < 1e-13 else ("<1e-11" if dvs < 1e-11 else ("<1e-9" if dvs < 1e-9 else ">=1e-9"))
        st["roll_shift_nonzero_axes"] = str(sum(1 for v in obs["shift"]["s"] if v != 0))
    if "waves" in obs:
        n = len(obs["waves"])
        st["plane_waves"] = "1-20" if n <= 20 else ("21-100" if n <= 100 else ("101-500" if n <= 500 else ">500"))
    return st


def sample_view(case):
    v = {k: case[k] for k in ("dims", "kind") if k in case}
    for k in ("cut", "lp", "hp"):
        if k in case:
            v[k] = {a: (b2f(b) if a == "res" else b) for a, b in case[k].items()}
    for k in ("sigma", "lp_sigma", "hp_sigma", "px"):
        if k in case:
            v[k] = b2f(case[k])
    for k in ("omit", "omit_px", "pre", "stream", "types"):
        if k in case:
            v[k] = case[k]
    inp = case["input"]
    v["input"] = dict(type=inp["type"], seed=inp.get("seed"), n_waves=len(inp.get("waves", [])) or None, dtype=inp.get("dtype", "float64"),
                      scale=b2f(inp["scale"]) if "scale" in inp else 1.0)
    return v


# ------------------------------------------------------------------ probes of the recorded library assumptions
def probes(rng):
    from skimage import filters
    out = []
    r = np.random.default_rng(rng.randrange(1 << 30))
    shape = (6, 7, 9)
    x, y = r.standard_normal(shape), r.standard_normal(shape)
    X = np.fft.fftn(x)
    out.append(dict(name="numpy.fft: ifftn(fftn(x)) = x", ok=bool(np.abs(np.fft.ifftn(X) - x).max() < 1e-12), detail=""))
    out.append(dict(name="numpy.fft: fftn linear", ok=bool(np.abs(np.fft.fftn(2 * x - 3 * y) - (2 * X - 3 * np.fft.fftn(y))).max() < 1e-10), detail=""))
    s = (2, 3, 5)
    g = np.meshgrid(*[np.arange(n) for n in shape], indexing="ij")
    chi = np.exp(-2j * np.pi * sum(s[i] * g[i] / shape[i] for i in range(3)))
    out.append(dict(name="numpy.fft: shift theorem fftn(roll(x,s)) = chi_s * fftn(x)", ok=bool(np.abs(np.fft.fftn(np.roll(x, s, axis=(0, 1, 2))) - chi * X).max() < 1e-10), detail=""))
    idx = np.ix_(*[(-np.arange(n)) % n for n in shape])
    out.append(dict(name="numpy.fft: real input has a Hermitian spectrum", ok=bool(np.abs(X[idx] - np.conj(X)).max() < 1e-10), detail=""))
    Yc = r.standard_normal(shape) + 1j * r.standard_normal(shape)
    out.append(dict(name="numpy.fft: real(ifftn(Y)) = ifftn(Hermitian part of Y)", ok=bool(np.abs(np.fft.ifftn(Yc).real - np.fft.ifftn((Yc + np.conj(Yc[idx])) / 2)).max() < 1e-12), detail=""))
    ok = True
    for n in (6, 7):
        a = np.arange(n)
        ok = ok and list(np.fft.ifftshift(a)) == [int((j + n // 2) % n) for j in range(n)]
    out.append(dict(name="numpy.fft.ifftshift(a)[j] = a[(j + n//2) % n]", ok=bool(ok), detail=""))
    # the Gaussian kernel of skimage against the model's kernel
    sig = [1.0, 2.0, 3.0, 4.0, 0.5, 1.5, 2.25, 0.125]
    resp = core.run_driver([dict(prop=PROP, op="kernel", sigma=f2b(s_)) for s_ in sig])
    for s_, rp in zip(sig, resp):
        t = int(4.0 * s_ + 0.5)
        n = 2 * t + 5
        imp = np.zeros((n, 3, 3))
        imp[n // 2] = 1.0
        k1 = filters.gaussian(imp, sigma=s_)[:, 1, 1] / filters.gaussian(imp, sigma=s_)[n // 2, 1, 1]
        ker = rp.get("kernel")
        if ker is None:
            out.append(dict(name=f"skimage gaussian kernel sigma={s_}", ok=False, detail=str(rp)))
            continue
        off = [q for q, _ in ker]
        w = np.array([b2f(b) for _, b in ker])
        full = np.zeros(n)
        for q, v in zip(off, w):
            full[n // 2 + q] = v
        imp1 = np.zeros((n, 1, 1))
        imp1[n // 2] = 1.0
        resp1 = filters.gaussian(imp1, sigma=s_)[:, 0, 0] / (w[t] ** 2)      # the two singleton axes contribute the factor w0^0.. (nearest: sum = 1)
        resp1 = filters.gaussian(imp1, sigma=s_)[:, 0, 0]
        okk = off == list(range(-t, t + 1)) and abs(w.sum() - 1) < 1e-12 and (w > 0).all() and np.abs(resp1 - full).max() < 1e-12
        # mode nearest: a step at the edge stays 1 on the edge side
        st = np.zeros((n, 1, 1))
        st[:2] = 1.0
        e = filters.gaussian(st, sigma=s_)[:, 0, 0]
        want = np.array([sum(w[q + t] * (1.0 if min(max(i + q, 0), n - 1) < 2 else 0.0) for q in range(-t, t + 1)) for i in range(n)])
        okk = okk and np.abs(e - want).max() < 1e-12
        uni = bool(np.array_equal(w, w[::-1]) or np.abs(w - w[::-1]).max() < 1e-17) and bool((np.diff(w[t:]) <= 0).all())
        out.append(dict(name=f"model kernel sigma={s_} is symmetric and non-increasing in |offset| (UnimodalKernel, hypothesis of soft_gain_mono_axis_*)", ok=uni, detail=""))
        out.append(dict(name=f"skimage gaussian = model kernel (sigma={s_}: support {t}, unit sum, positive, mode nearest)", ok=bool(okk),
                        detail="" if okk else f"impulse dev {np.abs(resp1-full).max():.3g} edge dev {np.abs(e-want).max():.3g}"))
    return out


LEVEL_TEXT = ("Lean 4 theorems about an executable model of cryomap.lowpass/highpass/bandpass, get_filter_radius, resolution2pixels and the "
              "spherical_mask transfer function: the filters are linear, real-valued, shift-commuting Fourier multipliers for every transform pair "
              "with the DFT's algebraic properties, and the model's own separable DFT (executed by the driver) is PROVED to be such a pair over every field "
              "with primitive roots of unity, in particular over the complex numbers with numpy's twiddles; for that DFT the SHIFT THEOREM (dft of the rolled sequence = phase x dft, 1-D by "
              "re-indexing the sum with the rotation, lifted through the three axes) and the HERMITIAN SYMMETRY of the spectrum of a real map (conjugation theorem, Re(ifftn Y) = ifftn(Hermitian part of Y)) "
              "are proved too, so every operator theorem has a corollary *_complex with no hypothesis on the TRANSFORM left (exact complex arithmetic; the driver's Float run of the same terms is linked numerically, see TRUSTED): the three filters commute with np.roll, a real map filtered with an even gain "
              "(the hard filters) has output spectrum = gain x input spectrum, and with ANY real gain output spectrum = effective gain (g(k)+g(-k))/2 x input spectrum on the box - the array the driver "
              "materialises and the harness compares with the measured gain; high-pass = identity - low-pass and band-pass = "
              "difference of its two low-passes; the hard-edge gain is 1 exactly for integer frequency radius^2 <= cutoff^2 and 0 beyond, on boxes of any size "
              "and shape, and is even (np.real drops nothing); with any non-negative unit-sum kernel (the model's Gaussian kernel is proved to be one for every "
              "positive exponential) the gain lies in [0,1], and for sqrt(A)+sqrt(m) <= cutoff (resp. sqrt(A) > cutoff+sqrt(m)) a bin of squared radius A has "
              "1-gain (resp. gain) <= the kernel weight at offsets of squared length > m, which is 0 beyond the kernel's reach sqrt(3)*t (exact plateaus); the gain "
              "is non-increasing along every step (axis-parallel or diagonal) that moves indices away from frequency 0 for symmetric unimodal kernels (the model's kernel is one for every positive monotone "
              "exponential) when the ball stays off the box faces on the moving axes, for the raw and for the effective (np.real-symmetrised, measured) gain - for the latter also onto the Nyquist bin of an even axis - (the high-pass gain non-decreasing); the face hypothesis is proved NECESSARY "
              "(soft_monotone_false_at_face) for exact monotonicity, and WITHOUT it the rise of the effective gain along any step away from frequency 0 is proved to be at most faceRise/2 per moving index (soft_eff_gain_step_bound; faceRise = kernel weight at offset n/2 on an even "
              "axis whose upper face the ball reaches, 0 on odd axes, off the face, or for kernels shorter than n/2: soft_monotone_fails_only_if characterises the failing configurations) — the clause has no open part left;  the literal 'non-increasing in the radius' across different directions is proved FALSE (soft_monotone_radial_false); the band-pass gain lies in [-1,1] and in [0,1] for nested equal-width masks, with kernel-checked "
              "witnesses of negative gains otherwise (C12-K1); round-half-even characterisation of resolution2pixels. Tied to the source by 18 regenerated anchors (type annotations, message texts and the spelling np.ones(shape)-mask vs 1-mask do not matter) that do not depend on local variable names (control-flow paths with locals "
              "inlined, alpha-renamed bodies, signatures and defaults), "
              "by measuring the real filters' gains (fft(out)/fft(in), random fields and plane waves at every integer frequency) against the model's gain arrays, and "
              "on boxes <= 8 per axis by comparing the real OUTPUT ARRAY with the model's np.real(ifftn(fftn(x)*gain)) executed on the model's DFT, for the input and for the input rolled with the model's own "
              "rollGrid/rollIdx (the shift the theorems speak about) against the real output on np.roll(x, s)")
LEVEL_NOTE = ("partial: the literal '= 1 inside cutoff-4s-1, = 0 outside cutoff+4s+1' is false in exact arithmetic for margins below the kernel reach (proved: "
              "soft_edge_full_false_below_reach); proved and checked instead: the deviation is at most the kernel tail weight beyond the margin (<=3.4e-4 for s<=4), "
              "computed by the driver; 'non-increasing in between' is read along steps that move every index away from frequency 0 (the literal radial order across directions is FALSE, soft_monotone_radial_false) and is now "
              "proved in full for that reading: exactly non-increasing (raw and effective gain, Nyquist landings included) wherever faceRise = 0 — odd axes, ball off the upper face, kernel shorter than n/2 — and otherwise "
              "up to faceRise/2 per moving index (soft_eff_gain_step_bound, soft_monotone_face_closed; exact monotonicity is refuted there: soft_monotone_false_at_face, a rise of 1/128 with faceRise 1/8; the real code rises by ~4e-8); "
              "the harness checks exactly this bound on every single-index step of every case (the former empirical tail bound on 26 rays and the open Prop SoftMonotoneOpen are gone). "
              "How the statement is read where it is literally false for soft edges: 'a gain that depends on its integer frequency radius' holds for the HARD filter (hard_gain); the soft gain is that ball blurred with a separable "
              "kernel — a function of the bin, not of the radius alone — and np.real leaves its even part (filt_effective_gain_complex), which is what is measured. "
              "'Hypothesis-free' refers to the TRANSFORM hypotheses only (shift theorem, Hermitian symmetry, inversion are proved for dft3 over the complex numbers); the driver executes the same terms in Float with cos/sin twiddles, and "
              "that link is numeric: output arrays are compared on boxes <= 8 per axis, on boxes 9..48 numpy.fft is tied to the DFT laws by probes only; ValidKernel/UnimodalKernel are not instantiable at Float (probed). Several theorems are definitional "
              "unfoldings kept as anchors of the wording (high_gain_complement, band_gain_difference, res2pix_round, dftC_is_dft3; filt_real_complex holds for any F, Finv). "
              "What stays assumed: numpy.fft computes the model's DFT within round-off (probed); skimage.filters.gaussian is modelled by a recorded, probed assumption; floating "
              "point vs exact arithmetic within 1e-9 x amplitude (float32 maps: single-precision FFT bound); band-pass gain range [0,1] is proved for nested masks with equal widths only; it is CHECKED on every band-pass: with different widths "
              "(open known finding C12-K1) and for inverted bands (C12-K2) the real gains are negative, exactly as the model predicts (band_gain_K1_witness, band_gain_K2_witness)")
TECHNIQUE = "Lean 4 proof (multiplier algebra over modules, integer index arithmetic, weighted-sum inequalities over ordered fields) + regenerated anchors + measured-gain correspondence"
DESIGN_REF = "DESIGN.md section 4, C12"
