"""C12 — Fourier filters are the documented radial low/high/band-pass gains (DESIGN.md section 4, C12)."""
import os, ast, math, io, contextlib, tempfile, itertools
import numpy as np
import core
from core import f2b, b2f

PROP = "C12"
COUNT = {"quick": 150, "thorough": 1600, "search": 500}
PARALLEL = True
TOL = 1e-9          # measured gain / operator identities (FFT round-off); all values are O(1)
# "1 inside cutoff-4s-1 / 0 outside cutoff+4s+1": the tolerance of these two clauses is NOT chosen here. Props/C12.soft_gain_inside /
# soft_gain_outside prove 1-gain <= tail3 ker m_in (inside) and gain <= tail3 ker m_out (outside), tail3 = weight of the executed kernel at
# offsets of squared length > m; the driver evaluates both numbers (and, per bin, the hypotheses of the two theorems) and the judge uses
# them as they come (+ TOL for FFT round-off). m_in / m_out are the exact integers floor(M^2) / ceil(M^2)-1 for the margin M = 4s+1.
from fractions import Fraction
TINY = 8            # boxes with every edge <= TINY are also filtered end to end by the model's own DFT (driver op "filter")


def margin_m(s):
    """(m_in, m_out): offsets of squared length <= m_in have length <= M = 4s+1; offsets of squared length <= m_out have length < M"""
    M2 = (4 * Fraction(s) + 1) ** 2
    fl = M2.numerator // M2.denominator
    ce = -((-M2.numerator) // M2.denominator)
    return int(fl), int(ce) - 1


def margin_sets(dims, r, s):
    """the bins the statement calls inside (|k| <= r-4s-1) and outside (|k| >= r+4s+1), decided exactly on integers/rationals"""
    R2 = radius2(dims)
    M = 4 * Fraction(s) + 1
    lo, hi = Fraction(r) - M, Fraction(r) + M
    vals = np.unique(R2)
    ins = [int(v) for v in vals if lo >= 0 and Fraction(int(v)) <= lo * lo]
    outs = [int(v) for v in vals if hi <= 0 or Fraction(int(v)) >= hi * hi]
    return np.isin(R2, ins), np.isin(R2, outs)


_TAIL = {}


def tail_weight(s):
    """Python-side estimate of the same weight; used ONLY when the model gave no answer (that is already a finding) and in sample statistics"""
    if s not in _TAIL:
        t = int(4.0 * s + 0.5)
        x = np.arange(-t, t + 1)
        w = np.exp(-0.5 / (s * s) * x ** 2)
        w /= w.sum()
        q2 = x[:, None, None] ** 2 + x[None, :, None] ** 2 + x[None, None, :] ** 2
        w3 = w[:, None, None] * w[None, :, None] * w[None, None, :]
        _TAIL[s] = float(w3[q2 >= (4 * s + 1) ** 2].sum())
    return _TAIL[s]
RULE = ("one case = (box nx,ny,nz in 8..16 quick / 8..48 thorough (plus a share of tiny boxes 5..8 that the model also filters end to end with its own DFT), cubic or not, even and odd; filter low|high|band; cutoff(s) 1..N/2 "
        "given as Fourier pixels or as resolution+pixel size (cubic boxes only; incl. exact .5 ties of box*px/res); Gaussian width from "
        "{0,1,2,3,4} or a dyadic non-integer in (0,4]; input = seeded normal random field (+DC offset) or a sweep of pure plane waves "
        "cos(2*pi*k.p/N+phase) over every integer frequency k of the box (small boxes) or a random subset). The real filter runs on the "
        "input, on a second field, on a*x+b*y, on a circularly shifted x, and with the companion low-pass(es); the gain of every DFT bin is "
        "measured as fft(out)/fft(in) and compared with the Lean model's gain array; on tiny boxes the OUTPUT ARRAY is compared with the model's np.real(ifftn(fftn(x)*gain)). non-trivial = the measured gains contain a value "
        "> 0.5 and a value < 0.5 (the cutoff lies inside the box, something passes and something is stopped); distinct = distinct case content")
ASSUMPTIONS = [
    "numpy.fft: fftn/ifftn are linear and mutually inverse, diagonalise circular shifts, map real input to a Hermitian spectrum; "
    "ifftshift rotates indices by n//2 (each probed on every run, see probes)",
    "skimage.filters.gaussian(mask, sigma) = separable correlation with exp(-q^2/(2 sigma^2)) normalised to unit sum on offsets |q| <= int(4 sigma+0.5), "
    "mode='nearest' (probed on an impulse and on an edge step every run; the model executes this kernel with Lean's Float.exp)",
    "float64 arithmetic of numpy ~ exact arithmetic: hard-edge masks are compared exactly (integers), everything else within 1e-9",
    "'gain 1 inside cutoff-4s-1 / 0 outside cutoff+4s+1' is checked with the PROVED bounds of Props/C12.soft_gain_inside/outside: 1-gain <= tail3(ker, floor((4s+1)^2)), "
    "gain <= tail3(ker, ceil((4s+1)^2)-1), both evaluated by the driver on the executed kernel together with the per-bin hypotheses (fitsInside/fitsOutside); "
    "the judge adds only the FFT round-off 1e-9. 'non-increasing in between' is checked along the 26 axis/diagonal rays within 1e-9 (proved along axis-parallel "
    "lines for symmetric unimodal kernels when the ball stays off the faces of the mask box: soft_gain_mono_axis_x/y/z)",
    "the model's own DFT (naive separable, Float cos/sin twiddles) agrees with numpy.fft (pocketfft) within 1e-9 on boxes <= 8 per axis (compared on every such case)",
    "Python round(float) = round-half-even of the exact value of the double (the model decodes the IEEE bits and rounds exactly)",
    "inputs are float64 arrays (numpy 2 transforms float32 maps in single precision: outside the tolerances used here)",
]
TRUSTED = ["harness gain measurement fft(out)/fft(in) and the plane-wave generator (props/c12.py)", "Drv/C12.lean JSON glue, Float.exp/cos/sin, float bit decoding (Model/C12.fracOfBits)"]

REL_MAP = "cryocat/cryomap.py"
REL_MASK = "cryocat/cryomask.py"


# ------------------------------------------------------------------ translator
def _norm(n):
    return core.norm_expr(n)


def _calls(fn, attr):
    return [n for n in ast.walk(fn) if isinstance(n, ast.Call) and ((isinstance(n.func, ast.Attribute) and n.func.attr == attr) or (isinstance(n.func, ast.Name) and n.func.id == attr))]


def _kw(call, name):
    for k in call.keywords:
        if k.arg == name:
            return k.value
    return None


def _assigned(fn, var):
    for st in ast.walk(fn):
        if isinstance(st, ast.Assign) and len(st.targets) == 1 and isinstance(st.targets[0], ast.Name) and st.targets[0].id == var:
            return st.value
    raise core.AnchorMissing(f"{fn.name}: no assignment to {var}")


def _mask_calls(src):
    """the four spherical_mask calls in source order: lowpass, highpass, bandpass outer, bandpass inner"""
    out = []
    for f in ("lowpass", "highpass"):
        cs = _calls(src.find(REL_MAP, f), "spherical_mask")
        if len(cs) != 1:
            raise core.AnchorMissing(f"{f}: expected one spherical_mask call, found {len(cs)}")
        out.append(cs[0])
    bp = src.find(REL_MAP, "bandpass")
    for var in ("outer_mask", "inner_mask"):
        v = _assigned(bp, var)
        if not (isinstance(v, ast.Call) and _norm(v.func).endswith("spherical_mask")):
            raise core.AnchorMissing(f"bandpass: {var} is not a spherical_mask call")
        out.append(v)
    return out


def _lean_pairs(ps):
    return "[" + ", ".join(f"({core.lean_str(a)}, {core.lean_str(b)})" for a, b in ps) + "]"


def _lean_bools(bs):
    return "[" + ", ".join("true" if b else "false" for b in bs) + "]"


def translate(src):
    def outwards():
        res = []
        for c in _mask_calls(src):
            v = _kw(c, "gaussian_outwards")
            if v is None:      # the default of spherical_mask
                d = src.find(REL_MASK, "spherical_mask").args
                names = [a.arg for a in d.args]
                dv = d.defaults[names.index("gaussian_outwards") - (len(names) - len(d.defaults))]
                res.append(bool(src.literal(dv)))
            else:
                res.append(bool(src.literal(v)))
        return res

    def mask_args():
        res = []
        for c in _mask_calls(src):
            rad = c.args[1] if len(c.args) > 1 else _kw(c, "radius")
            g = _kw(c, "gaussian") if _kw(c, "gaussian") is not None else (c.args[3] if len(c.args) > 3 else None)
            if rad is None or g is None:
                raise core.AnchorMissing("spherical_mask call without radius/gaussian")
            res.append([_norm(rad), _norm(g)])
        return res

    def mask_shapes():
        return [_norm(c.args[0]) if c.args else _norm(_kw(c, "mask_size")) for c in _mask_calls(src)]

    def apply_exprs():
        res = []
        for f, ret, filt in (("lowpass", "filtered_map", "lowpass_filter"), ("highpass", "filtered_map", "highpass_filter"), ("bandpass", "bandpass_filtered", "band_mask")):
            fn = src.find(REL_MAP, f)
            e = _norm(_assigned(fn, ret))
            fe = _assigned(fn, filt)
            ft = _norm(fe)
            for c in _calls(fe, "spherical_mask"):
                ft = ft.replace(_norm(c), "MASK")
            if e.count(filt) != 1:
                raise core.AnchorMissing(f"{f}: {ret} does not use {filt} exactly once")
            rets = [n for n in ast.walk(fn) if isinstance(n, ast.Return)]
            if len(rets) != 1 or _norm(rets[0].value) != ret:
                raise core.AnchorMissing(f"{f}: does not return {ret}")
            res.append(e.replace(filt, ft))
        return res

    def box_edges():
        res = []
        for f, n in (("lowpass", 1), ("highpass", 1), ("bandpass", 2)):
            cs = _calls(src.find(REL_MAP, f), "get_filter_radius")
            if len(cs) != n:
                raise core.AnchorMissing(f"{f}: expected {n} get_filter_radius call(s)")
            res += [_norm(c.args[0]) if c.args else _norm(_kw(c, "edge_size")) for c in cs]
        return res

    def band_radius_args():
        bp = src.find(REL_MAP, "bandpass")
        res = []
        for var in ("lp_radius", "hp_radius"):
            c = _assigned(bp, var)
            if _kw(c, "pixel_size") is None or _norm(_kw(c, "pixel_size")) != "pixel_size":
                raise core.AnchorMissing(f"bandpass: {var} without pixel_size=pixel_size")
            res.append([_norm(_kw(c, "fourier_pixels")), _norm(_kw(c, "target_resolution"))])
        return res

    def single_value(fname, var):
        return _norm(_assigned(src.find(REL_MAP, fname), var))

    def lp_hp_direct():
        """lowpass/highpass hand their own keywords to get_filter_radius unchanged"""
        for f in ("lowpass", "highpass"):
            c = _calls(src.find(REL_MAP, f), "get_filter_radius")[0]
            got = [_norm(_kw(c, k)) if _kw(c, k) is not None else None for k in ("fourier_pixels", "target_resolution", "pixel_size")]
            if got != ["fourier_pixels", "target_resolution", "pixel_size"]:
                raise core.AnchorMissing(f"{f}: get_filter_radius keywords {got}")
            rv = _assigned(src.find(REL_MAP, f), "radius")
            if rv is not c:
                raise core.AnchorMissing(f"{f}: radius is not the get_filter_radius result")
        return True

    def filter_radius_branches():
        fn = src.find(REL_MAP, "get_filter_radius")
        top = [s for s in fn.body if isinstance(s, ast.If)]
        if len(top) != 1:
            raise core.AnchorMissing("get_filter_radius: expected one if-chain")
        res = []
        node = top[0]
        while True:
            val = None
            for s in node.body:
                if isinstance(s, ast.Assign) and _norm(s.targets[0]) == "radius":
                    val = _norm(s.value)
                if isinstance(s, ast.Raise):
                    val = "raise " + _norm(s.exc.func)
            res.append([ast.unparse(node.test), val])
            if len(node.orelse) == 1 and isinstance(node.orelse[0], ast.If):
                node = node.orelse[0]
                continue
            val = None
            for s in node.orelse:
                if isinstance(s, ast.Assign) and _norm(s.targets[0]) == "radius":
                    val = _norm(s.value)
                if isinstance(s, ast.Raise):
                    val = "raise " + _norm(s.exc.func)
            res.append(["else", val])
            break
        rets = [n for n in ast.walk(fn) if isinstance(n, ast.Return)]
        if len(rets) != 1 or _norm(rets[0].value) != "radius":
            raise core.AnchorMissing("get_filter_radius: does not return radius")
        return res

    def sphere_statements():
        fn = src.find(REL_MASK, "spherical_mask")
        def keep(s):
            t = _norm(s.targets[0])
            return (t == "mask" or t.startswith("mask[") or "mgrid" in _norm(s.value)) and "postprocess" not in _norm(s)
        return [_norm(s) for s in fn.body if isinstance(s, ast.Assign) and keep(s)]

    def sphere_strict():
        fn = src.find(REL_MASK, "spherical_mask")
        for s in fn.body:
            if isinstance(s, ast.Assign) and isinstance(s.targets[0], ast.Subscript) and isinstance(s.targets[0].slice, ast.Compare):
                cmp_ = s.targets[0].slice
                if _norm(cmp_.comparators[0]) == "radius" and _norm(cmp_.left) == "mask":
                    if isinstance(cmp_.ops[0], ast.Gt):
                        return True
                    if isinstance(cmp_.ops[0], ast.GtE):
                        return False
        raise core.AnchorMissing("spherical_mask: mask[mask > radius] = 0")

    def sphere_chain():
        """radius passes through preprocess_params(radius, gaussian, gaussian_outwards); result through postprocess(mask, gaussian, 0-angles, ...)"""
        fn = src.find(REL_MASK, "spherical_mask")
        r = _norm(_assigned(fn, "radius")) if False else None
        txt = [_norm(s) for s in fn.body]
        need = ["radius=preprocess_params(radius,gaussian,gaussian_outwards)", "mask=postprocess(mask,gaussian,np.asarray([0,0,0]),output_name)",
                "center=get_correct_format(center,reference_size=mask_size)", "mask_size=get_correct_format(mask_size)"]
        for n in need:
            if n not in txt:
                raise core.AnchorMissing(f"spherical_mask: statement {n}")
        pp = [_norm(s) for s in src.find(REL_MASK, "postprocess").body]
        if "mask=add_gaussian(input_mask,gaussian)" not in pp:
            raise core.AnchorMissing("postprocess: mask=add_gaussian(input_mask,gaussian)")
        return True

    def centre_expr():
        fn = src.find(REL_MASK, "get_correct_format")
        for s in ast.walk(fn):
            if isinstance(s, ast.Assign) and _norm(s.targets[0]) == "size_correct_format" and isinstance(s.value, ast.BinOp):
                return _norm(s.value)
        raise core.AnchorMissing("get_correct_format: size_correct_format = box_size // 2")

    def enlarge_cond():
        fn = src.find(REL_MASK, "preprocess_params")
        ifs = [s for s in fn.body if isinstance(s, ast.If)]
        if len(ifs) != 1 or _norm(ifs[0].orelse[0]) != "new_radius=radius":
            raise core.AnchorMissing("preprocess_params: if/else new_radius = radius")
        return ast.unparse(ifs[0].test).replace(" ", "").replace("and", " and ")

    def blur_skip():
        fn = src.find(REL_MASK, "add_gaussian")
        ifs = [s for s in fn.body if isinstance(s, ast.If)]
        if len(ifs) != 1 or _norm(ifs[0].body[0]) != "returninput_mask":
            raise core.AnchorMissing("add_gaussian: if sigma == 0: return input_mask")
        return _norm(ifs[0].test), _norm(ifs[0].orelse[0].value)

    ow = src.anchor("spherical_mask(gaussian_outwards=False) at the 4 call sites", outwards)
    ma = src.anchor("spherical_mask radius/gaussian arguments", mask_args)
    ms = src.anchor("spherical_mask box argument", mask_shapes)
    ae = src.anchor("np.real(ifftn(fftn(input_map) * ifftshift(...))) in lowpass/highpass/bandpass", apply_exprs)
    be = src.anchor("get_filter_radius(input_map.shape[0], ...)", box_edges)
    br = src.anchor("bandpass lp_/hp_ keyword routing", band_radius_args)
    src.anchor("lowpass/highpass keyword routing", lp_hp_direct)
    r2p = src.anchor("resolution2pixels expression", lambda: single_value("resolution2pixels", "pixels"))
    p2r = src.anchor("pixels2resolution expression", lambda: single_value("pixels2resolution", "res"))
    fb = src.anchor("get_filter_radius branches", filter_radius_branches)
    st = src.anchor("spherical_mask: mask > radius", sphere_strict)
    ss = src.anchor("spherical_mask statements", sphere_statements)
    src.anchor("spherical_mask: preprocess_params/postprocess/add_gaussian chain", sphere_chain)
    ce = src.anchor("get_correct_format: centre", centre_expr)
    ec = src.anchor("preprocess_params: enlarge condition", enlarge_cond)
    bs = src.anchor("add_gaussian: skip and blur call", blur_skip)
    S = core.lean_str
    ow = ow if ow is not None else []
    return f"""-- GENERATED by harness/props/c12.py from {REL_MAP}, {REL_MASK}; do not edit
namespace CryoCat.Gen.C12
def anchorsOk : Bool := {"true" if src.ok else "false"}
/-- `gaussian_outwards=` at the call sites lowpass, highpass, bandpass(outer), bandpass(inner) -/
def outwardsFlags : List Bool := {_lean_bools(ow)}
/-- (radius, gaussian) arguments of the spherical_mask calls: lowpass, highpass, bandpass outer, bandpass inner -/
def maskArgs : List (String × String) := {_lean_pairs(ma or [])}
/-- first argument (box) of the spherical_mask calls -/
def maskShapes : List String := {core.lean_str_list(ms or [])}
/-- the returned expression of lowpass / highpass / bandpass with the filter variable resolved -/
def applyExprs : List String := {core.lean_str_list(ae or [])}
/-- edge size handed to get_filter_radius: lowpass, highpass, bandpass lp, bandpass hp -/
def boxEdges : List String := {core.lean_str_list(be or [])}
/-- which keyword feeds which radius in bandpass: (fourier_pixels=, target_resolution=) for lp_radius, hp_radius -/
def bandRadiusArgs : List (String × String) := {_lean_pairs(br or [])}
def res2pixExpr : String := {S(r2p or "")}
def pix2resExpr : String := {S(p2r or "")}
/-- get_filter_radius: test order and the values taken -/
def filterRadiusBranches : List (String × String) := {_lean_pairs([(a, b or "") for a, b in (fb or [])])}
/-- spherical_mask: `mask[mask > radius] = 0` uses a strict comparison -/
def sphereOutsideStrict : Bool := {"true" if st else "false"}
def sphereStatements : List String := {core.lean_str_list(ss or [])}
/-- get_correct_format: default centre -/
def centreExpr : String := {S(ce or "")}
/-- preprocess_params: the radius is enlarged only under this condition -/
def enlargeCond : String := {S(ec or "")}
/-- add_gaussian: pass-through test and blur call -/
def blurSkipCond : String := {S(bs[0] if bs else "")}
def blurCall : String := {S(bs[1] if bs else "")}
end CryoCat.Gen.C12
"""


# ------------------------------------------------------------------ helpers shared by generator / implementation / judge
SIGMAS_INT = [0.0, 1.0, 2.0, 3.0, 4.0]
SIGMAS_FRAC = [0.5, 0.75, 1.5, 2.25, 2.5, 3.5, 0.125]


def sfreq(n):
    """signed integer frequency of every DFT bin of an axis of length n (Nyquist sign is irrelevant: only squares are used)"""
    j = np.arange(n)
    return np.where(j < (n + 1) // 2, j, j - n)


def radius2(dims):
    kx, ky, kz = np.meshgrid(sfreq(dims[0]), sfreq(dims[1]), sfreq(dims[2]), indexing="ij")
    return kx * kx + ky * ky + kz * kz


def _field(dims, seed):
    r = np.random.default_rng(seed)
    x = r.standard_normal(dims)
    if seed % 3 == 0:
        x = x + r.uniform(-5, 5)
    if seed % 7 == 0:
        x = np.round(x * 8) / 8
    # the gain of a bin is measured as fft(out)/fft(in): every bin of the input must be excited (a dyadic-grid field can sum to exactly 0)
    for k in range(1, 50):
        if np.abs(np.fft.fftn(x)).min() > 1e-2:
            break
        x.flat[(k * 7919) % x.size] += 1.0 + 0.125 * k
    return x


def _wave(dims, k, phase):
    g = np.meshgrid(*[np.arange(n) for n in dims], indexing="ij")
    arg = sum(k[i] * g[i] / dims[i] for i in range(3))
    return np.cos(2 * np.pi * arg + phase)


def _cut_kwargs(cut, prefix=""):
    kw = {}
    if "fp" in cut:
        kw[prefix + "fourier_pixels"] = cut["fp"]
    if "res" in cut:
        kw[prefix + "target_resolution"] = b2f(cut["res"])
    return kw


def py_radius(case, cut):
    """the cutoff the statement prescribes: the Fourier pixels given, else round(box*pixel_size/resolution)"""
    if "fp" in cut:
        return cut["fp"]
    return round(case["dims"][0] * b2f(case["px"]) / b2f(cut["res"]))


class _Filter:
    """the real cryoCAT call for one case; `low(which)` = companion low-pass with the same parameters"""

    def __init__(self, case):
        from cryocat import cryomap
        self.m = cryomap
        self.case = case
        self.px = b2f(case["px"]) if "px" in case else None

    def _quiet(self, fn, *a, **k):
        with contextlib.redirect_stdout(io.StringIO()):
            return fn(*a, **k)

    def __call__(self, x):
        c = self.case
        if c["kind"] == "band":
            kw = dict(_cut_kwargs(c["lp"], "lp_"), **_cut_kwargs(c["hp"], "hp_"))
            return self._quiet(self.m.bandpass, x, pixel_size=self.px, lp_gaussian=b2f(c["lp_sigma"]), hp_gaussian=b2f(c["hp_sigma"]), **kw)
        fn = self.m.lowpass if c["kind"] == "low" else self.m.highpass
        return self._quiet(fn, x, pixel_size=self.px, gaussian=b2f(c["sigma"]), **_cut_kwargs(c["cut"]))

    def low(self, x, which):
        c = self.case
        cut, sig = (c["cut"], c["sigma"]) if which == "" else (c[which], c[which + "_sigma"])
        return self._quiet(self.m.lowpass, x, pixel_size=self.px, gaussian=b2f(sig), **_cut_kwargs(cut))

    def with_pixels(self, x, radii):
        c = self.case
        if c["kind"] == "band":
            return self._quiet(self.m.bandpass, x, lp_fourier_pixels=radii[0], hp_fourier_pixels=radii[1], lp_gaussian=b2f(c["lp_sigma"]), hp_gaussian=b2f(c["hp_sigma"]))
        fn = self.m.lowpass if c["kind"] == "low" else self.m.highpass
        return self._quiet(fn, x, fourier_pixels=radii[0], gaussian=b2f(c["sigma"]))


# ------------------------------------------------------------------ generators
def _dims(rng, tier):
    hi = 16 if tier in ("quick", "search") else 48
    k = rng.random()
    if tier == "thorough" and k < 0.55:
        hi = 20          # keep most thorough cases cheap; the rest go up to 48
    lo = 8
    if rng.random() < (0.22 if tier != "thorough" else 0.12):     # tiny boxes: the model filters them end to end with its own DFT
        lo, hi = 5, TINY
    if rng.random() < 0.5:
        n = rng.randint(lo, hi)
        return [n, n, n]
    return [rng.randint(lo, hi) for _ in range(3)]


def _sigma(rng):
    return rng.choice(SIGMAS_INT) if rng.random() < 0.8 else rng.choice(SIGMAS_FRAC)


def _cutoff(rng, dims):
    half = min(dims) // 2
    k = rng.random()
    if k < 0.15:
        return half
    if k < 0.25:
        return 1
    if k < 0.33:
        return max(dims) // 2       # reaches beyond the shortest axis of a non-cubic box
    return rng.randint(1, half)


def _res_cut(rng, n, r):
    """resolution + pixel size whose quotient n*px/res rounds to r (or sits exactly on a .5 tie next to r)"""
    px = rng.choice([1.0, 1.25, 1.5, 2.0, 0.75, 3.0, 7.89, 1.35, 2.17])
    k = rng.random()
    if k < 0.35:      # exact tie: target r - 0.5 or r + 0.5 reached exactly in floating point, if possible
        for t in (r - 0.5, r + 0.5):
            res = n * px / t if t > 0 else None
            if res and n * px / res == t:
                return dict(res=f2b(res)), px, "tie"
    if k < 0.7:
        t = r + rng.uniform(-0.49, 0.49)
    else:
        t = r + rng.choice([-0.4999999, 0.4999999, 0.0, 0.25, -0.25])
    res = n * px / t
    return dict(res=f2b(res)), px, "generic"


def _input(rng, dims, tier):
    k = rng.random()
    vol = dims[0] * dims[1] * dims[2]
    if k < 0.6:
        return dict(type="field", seed=rng.randrange(1 << 30))
    if k < 0.8 and vol <= (1000 if tier != "thorough" else 2200):
        return dict(type="allwaves", seed=rng.randrange(1 << 30))
    nw = 12 if tier != "thorough" else 40
    ks = []
    for _ in range(nw):
        if rng.random() < 0.3:   # axis / diagonal / Nyquist frequencies
            m = rng.randint(0, max(dims) // 2)
            dirv = rng.choice([(1, 0, 0), (0, 1, 0), (0, 0, 1), (1, 1, 0), (1, 0, 1), (0, 1, 1), (1, 1, 1), (1, -1, 0), (-1, 1, 1)])
            kk = [max(-(dims[i] // 2), min((dims[i] - 1) // 2, m * dirv[i])) for i in range(3)]
        else:
            kk = [rng.randint(-(dims[i] // 2), (dims[i] - 1) // 2) for i in range(3)]
        ks.append(kk + [f2b(rng.choice([0.0, 0.5, 1.0, 2.0]) if rng.random() < 0.3 else rng.uniform(0, 6.28))])
    return dict(type="waves", seed=rng.randrange(1 << 30), waves=ks)


def _one(rng, tier):
    dims = _dims(rng, tier)
    kind = rng.choice(["low", "low", "high", "band"])
    cubic = dims[0] == dims[1] == dims[2]
    case = dict(dims=dims, kind=kind, input=_input(rng, dims, tier), aux=rng.randrange(1 << 30))
    use_res = cubic and rng.random() < 0.35

    def mk(r):
        if use_res:
            cut, px, how = _res_cut(rng, dims[0], r)
            case["px"] = f2b(px)
            case.setdefault("res_how", how)
            if rng.random() < 0.1:
                cut["fp"] = r if rng.random() < 0.5 else max(1, r - 1)     # both given: Fourier pixels win
            return cut
        if rng.random() < 0.15:
            case["px"] = f2b(rng.choice([1.0, 1.35, 2.0]))                # pixel size given alongside pixels: only printed
        return dict(fp=r)

    if kind == "band":
        lp = _cutoff(rng, dims)
        hp = rng.randint(1, max(1, lp - 1)) if rng.random() < 0.85 else _cutoff(rng, dims)
        if rng.random() < 0.45:
            s = _sigma(rng)
            sl, sh = s, s
        elif rng.random() < 0.3:
            sl, sh = 3.0, 2.0     # the defaults of bandpass
        else:
            sl, sh = _sigma(rng), _sigma(rng)
        case.update(lp=mk(lp), hp=mk(hp), lp_sigma=f2b(sl), hp_sigma=f2b(sh))
    else:
        case.update(cut=mk(_cutoff(rng, dims)), sigma=f2b(_sigma(rng)))
    return case


def generate(rng, tier, n):
    if tier == "thorough":     # every cutoff 1..N/2 x every integer width on one even and one odd box, all plane waves
        for N in (8, 9):
            for r in range(1, N // 2 + 1):
                for s in SIGMAS_INT:
                    yield dict(dims=[N, N, N], kind="low", cut=dict(fp=r), sigma=f2b(s), input=dict(type="allwaves", seed=r), aux=r * 10 + int(s))
    for _ in range(n):
        yield _one(rng, tier)


def shrink(case):
    d = case["dims"]
    cuts = ["cut"] if case["kind"] != "band" else ["lp", "hp"]
    has_res = any("res" in case[c] for c in cuts)

    def clip(c, dims):
        c = dict(c)
        half = min(dims) // 2
        for k in cuts:
            if "fp" in c[k]:
                c[k] = dict(c[k], fp=max(1, min(c[k]["fp"], max(dims) // 2)))
        if c["input"]["type"] == "waves":
            c["input"] = dict(c["input"], waves=[[max(-(dims[i] // 2), min((dims[i] - 1) // 2, w[i])) for i in range(3)] + [w[3]] for w in c["input"]["waves"]])
        return c

    if not has_res:
        for nd in ([8, 8, 8], [9, 9, 9], [min(d)] * 3, [max(8, x // 2) for x in d], [max(8, d[0] - 1), d[1], d[2]], [d[0], max(8, d[1] - 1), d[2]], [d[0], d[1], max(8, d[2] - 1)]):
            if nd != d:
                yield clip(dict(case, dims=nd), nd)
    sk = ["sigma"] if case["kind"] != "band" else ["lp_sigma", "hp_sigma"]
    for k in sk:
        if b2f(case[k]) != 0.0:
            yield dict(case, **{k: f2b(0.0)})
            if b2f(case[k]) != 1.0:
                yield dict(case, **{k: f2b(1.0)})
    if case["input"]["type"] != "field":
        yield dict(case, input=dict(type="field", seed=1))
    if case["input"]["type"] == "waves" and len(case["input"]["waves"]) > 1:
        w = case["input"]["waves"]
        yield dict(case, input=dict(case["input"], waves=w[: len(w) // 2]))
        yield dict(case, input=dict(case["input"], waves=w[len(w) // 2:]))
    for k in cuts:
        if "fp" in case[k] and "res" not in case[k] and case[k]["fp"] > 1:
            yield dict(case, **{k: dict(case[k], fp=case[k]["fp"] - 1)})
            yield dict(case, **{k: dict(case[k], fp=max(1, case[k]["fp"] // 2))})


# ------------------------------------------------------------------ implementation
def _bits(a):
    return [f2b(v) for v in np.asarray(a, dtype=float).ravel().tolist()]


def run_impl(case):
    from cryocat import cryomap
    dims = tuple(case["dims"])
    out = {}
    cwd = os.getcwd()
    with tempfile.TemporaryDirectory(prefix="c12_") as td:
        os.chdir(td)       # bandpass drops band.em into the working directory
        try:
            f = _Filter(case)
            cuts = ["cut"] if case["kind"] != "band" else ["lp", "hp"]
            aux = np.random.default_rng(case["aux"])
            inp = case["input"]
            x = _field(dims, inp["seed"])
            xin = x.copy()
            y = f(x)
            out["dtype"] = str(np.asarray(y).dtype)
            out["shape"] = list(np.shape(y))
            out["finite"] = bool(np.all(np.isfinite(y))) if np.asarray(y).dtype.kind in "fc" else False
            out["input_mutated"] = bool(not np.array_equal(x, xin))
            yc = np.asarray(y)
            if yc.shape != dims or yc.dtype.kind not in "fc":
                return out
            X = np.fft.fftn(x)
            G = np.fft.fftn(yc) / X
            out["gain"] = _bits(G.real)
            out["gain_imag_max"] = float(np.abs(G.imag).max())
            out["imag_max"] = float(np.abs(yc.imag).max()) if yc.dtype.kind == "c" else 0.0
            yr = yc.real
            if max(dims) <= TINY:
                out["out"] = _bits(yr)
            scale = float(np.abs(x).max())
            out["scale"] = scale
            # linearity
            x2 = aux.standard_normal(dims)
            a, b = [float(v) for v in aux.choice([-2.0, -0.5, 0.25, 1.0, 1.5, 3.0], 2)]
            y2 = np.asarray(f(x2)).real
            y12 = np.asarray(f(a * x + b * x2)).real
            out["lin"] = dict(a=a, b=b, dev=float(np.abs(y12 - (a * yr + b * y2)).max()))
            # circular shift
            s = [int(aux.integers(0, n)) for n in dims]
            ys = np.asarray(f(np.roll(x, s, axis=(0, 1, 2)))).real
            out["shift"] = dict(s=s, dev=float(np.abs(ys - np.roll(yr, s, axis=(0, 1, 2))).max()))
            # complement / difference of the companion low-passes (same parameters)
            if case["kind"] == "high":
                out["compl_dev"] = float(np.abs(yr - (x - f.low(x, ""))).max())
            if case["kind"] == "band":
                out["band_dev"] = float(np.abs(yr - (f.low(x, "lp") - f.low(x, "hp"))).max())
            # cutoffs given as a resolution
            if any("res" in case[c] for c in cuts):
                px = b2f(case["px"])
                radii = []
                for c in cuts:
                    with contextlib.redirect_stdout(io.StringIO()):
                        radii.append(int(cryomap.get_filter_radius(dims[0], case[c].get("fp"), b2f(case[c]["res"]) if "res" in case[c] else None, px)))
                out["radii"] = radii
                r2p = []
                for c in cuts:
                    if "res" in case[c]:
                        with contextlib.redirect_stdout(io.StringIO()):
                            v = cryomap.resolution2pixels(b2f(case[c]["res"]), dims[0], px)
                        r2p.append([int(v), type(v).__name__])
                out["res2pix"] = r2p
                out["res_dev"] = float(np.abs(yr - np.asarray(f.with_pixels(x, radii)).real).max())
            # plane waves
            if inp["type"] in ("waves", "allwaves"):
                if inp["type"] == "allwaves":
                    wr = np.random.default_rng(inp["seed"])
                    seen, ws = set(), []
                    for k in itertools.product(*[range(-(n // 2), (n - 1) // 2 + 1) for n in dims]):
                        neg = tuple((-k[i]) % dims[i] for i in range(3))
                        pos = tuple(k[i] % dims[i] for i in range(3))
                        if neg in seen:
                            continue
                        seen.add(pos)
                        ws.append(list(k) + [float(wr.uniform(0, 6.28))])
                else:
                    ws = [w[:3] + [b2f(w[3])] for w in inp["waves"]]
                res = []
                leak = 0.0
                for kx, ky, kz, ph in ws:
                    w = _wave(dims, (kx, ky, kz), ph)
                    W = np.fft.fftn(w)
                    pos = (kx % dims[0], ky % dims[1], kz % dims[2])
                    if abs(W[pos]) < 1e-6 * w.size:      # a self-conjugate bin with phase pi/2: the wave vanishes
                        continue
                    yw = np.asarray(f(w)).real
                    Y = np.fft.fftn(yw)
                    g = Y[pos] / W[pos]
                    Y2 = Y.copy()
                    Y2[pos] = 0
                    Y2[tuple((-p) % n for p, n in zip(pos, dims))] = 0
                    leak = max(leak, float(np.abs(Y2).max() / np.abs(W).max()))
                    res.append([kx, ky, kz, f2b(g.real), float(abs(g.imag))])
                out["waves"] = res
                out["leak"] = leak
        finally:
            os.chdir(cwd)
    return out


def requests(case, obs):
    rq = dict(op="gain", kind=case["kind"], dims=case["dims"])
    if "px" in case:
        rq["px"] = case["px"]
    if case["kind"] == "band":
        for pre in ("lp", "hp"):
            for k, v in case[pre].items():
                rq[f"{pre}_{k}"] = v
            rq[f"{pre}_sigma"] = case[f"{pre}_sigma"]
    else:
        rq.update(case["cut"])
        rq["sigma"] = case["sigma"]
        if b2f(case["sigma"]) != 0.0:
            rq["m_in"], rq["m_out"] = margin_m(b2f(case["sigma"]))
    out = [rq]
    cuts = ["cut"] if case["kind"] != "band" else ["lp", "hp"]
    for c in cuts:
        if "res" in case[c]:
            out.append(dict(op="res2pix", edge=case["dims"][0], px=case["px"], res=case[c]["res"]))
    if max(case["dims"]) <= TINY and "out" in obs:
        fq = dict(rq, op="filter", x=_bits(_field(tuple(case["dims"]), case["input"]["seed"])))
        out.append(fq)
    return out


# ------------------------------------------------------------------ judge
RAYS = [d for d in itertools.product((-1, 0, 1), repeat=3) if d != (0, 0, 0)]


def _ray_violation(g, dims):
    """largest increase of the gain along any axis/diagonal ray of growing integer frequency"""
    worst = (0.0, None)
    for d in RAYS:
        prev, m = None, 0
        while True:
            k = [m * d[i] for i in range(3)]
            if any(k[i] < -(dims[i] // 2) or k[i] > (dims[i] - 1) // 2 for i in range(3)):
                break
            v = g[k[0] % dims[0], k[1] % dims[1], k[2] % dims[2]]
            if prev is not None and v - prev > worst[0]:
                worst = (float(v - prev), (d, m))
            prev, m = v, m + 1
    return worst


def _model_margins(m, dims, r, s):
    """(tail_in, tail_out, inside flags, outside flags, origin) — the bounds of Props/C12.soft_margin_checked as evaluated by the driver"""
    if m is not None and "tail_in" in m and m.get("radius") == [r]:
        n = dims[0] * dims[1] * dims[2]
        if len(m["inside"]) == n and len(m["outside"]) == n:
            return (b2f(m["tail_in"]), b2f(m["tail_out"]), np.array(m["inside"], dtype=bool).reshape(dims), np.array(m["outside"], dtype=bool).reshape(dims), "driver")
    tw = tail_weight(s)
    return tw, tw, None, None, "fallback"


def _spec_gain(case, kind, radii, sig, g, dims, what, m=None):
    """clauses of the statement about the gain array g of a low-pass (kind 'low') or its complement ('high'); m = the model's answer"""
    out = []
    R2 = radius2(dims)
    low = g if kind == "low" else 1.0 - g
    r, s = radii, sig
    if s == 0.0:
        want = (R2 <= r * r).astype(float) if r >= 0 else (R2 == 0).astype(float)
        bad = np.argwhere(np.abs(low - want) > TOL)
        if len(bad):
            j = tuple(int(v) for v in bad[0])
            out.append(dict(kind="spec", clause="hard-cutoff", detail=f"{what}: bin {j} (|k|^2={int(R2[j])}, cutoff {r}, cutoff^2={r*r}): low-pass gain {low[j]:.12g}, statement demands {want[j]:.0f}; {len(bad)} bins differ"))
    else:
        R = np.sqrt(R2)
        inside, outside = margin_sets(dims, r, s)
        tin, tout, fin, fout, origin = _model_margins(m, dims, r, s)
        if fin is not None:
            # every bin the statement calls inside/outside must satisfy the hypotheses of soft_gain_inside/outside (else the bound is not proved for it)
            if (inside & ~fin).any() or (outside & ~fout).any():
                j = tuple(int(v) for v in np.argwhere((inside & ~fin) | (outside & ~fout))[0])
                out.append(dict(kind="corr", clause="margin-vs-model", detail=f"{what}: bin {j} radius {R[j]:.3f} is inside/outside by the statement (cutoff {r}, 4s+1={4*s+1}) but the model's fitsInside/fitsOutside flag is not set"))
            inside, outside = inside | fin, outside | fout      # the proved bound holds on every flagged bin: check all of them
        if inside.any() and (1 - low[inside]).max() > tin + TOL:
            j = tuple(int(v) for v in np.argwhere(inside & (1 - low > tin + TOL))[0])
            out.append(dict(kind="spec", clause="soft-inside", detail=f"{what}: bin {j} radius {R[j]:.3f} <= cutoff-4s-1 = {r-4*s-1}: low-pass gain {low[j]:.9g} is below 1 by more than the kernel weight at offsets longer than 4s+1 ({tin:.6g}, {origin})"))
        if outside.any() and low[outside].max() > tout + TOL:
            j = tuple(int(v) for v in np.argwhere(outside & (low > tout + TOL))[0])
            out.append(dict(kind="spec", clause="soft-outside", detail=f"{what}: bin {j} radius {R[j]:.3f} >= cutoff+4s+1 = {r+4*s+1}: low-pass gain {low[j]:.9g} exceeds the kernel weight at offsets of length >= 4s+1 ({tout:.6g}, {origin})"))
        inc, where = _ray_violation(low, dims)
        if inc > TOL:
            out.append(dict(kind="spec", clause="soft-monotone", detail=f"{what}: low-pass gain grows by {inc:.3g} along ray {where}"))
    return out


def judge(case, obs, resps):
    out = []
    if "error" in obs:
        return [dict(kind="spec", clause="raises", detail=obs["error"] + " @" + obs.get("where", ""))]
    dims = tuple(case["dims"])
    kind = case["kind"]
    cuts = ["cut"] if kind != "band" else ["lp", "hp"]
    if obs["shape"] != list(dims) or not obs["dtype"].startswith("float") or not obs["finite"]:
        return [dict(kind="spec", clause="real-valued", detail=f"returned dtype {obs['dtype']} shape {obs['shape']} finite={obs['finite']} imag_max={obs.get('imag_max')}")]
    sc = max(1.0, obs["scale"])
    g = np.array([b2f(b) for b in obs["gain"]]).reshape(dims)
    if obs["gain_imag_max"] > TOL:
        out.append(dict(kind="spec", clause="real-gain", detail=f"fft(out)/fft(in) has imaginary part {obs['gain_imag_max']:.3g}"))
    if obs["lin"]["dev"] > TOL * sc * 8:
        out.append(dict(kind="spec", clause="linear", detail=f"f({obs['lin']['a']}x+{obs['lin']['b']}y) differs from {obs['lin']['a']}f(x)+{obs['lin']['b']}f(y) by {obs['lin']['dev']:.3g}"))
    if obs["shift"]["dev"] > TOL * sc:
        out.append(dict(kind="spec", clause="shift", detail=f"f(roll(x,{obs['shift']['s']})) differs from roll(f(x)) by {obs['shift']['dev']:.3g}"))
    if "compl_dev" in obs and obs["compl_dev"] > TOL * sc:
        out.append(dict(kind="spec", clause="complement", detail=f"highpass(x) differs from x - lowpass(x) (same parameters) by {obs['compl_dev']:.3g}"))
    if "band_dev" in obs and obs["band_dev"] > TOL * sc:
        out.append(dict(kind="spec", clause="band-difference", detail=f"bandpass(x) differs from lowpass_lp(x) - lowpass_hp(x) by {obs['band_dev']:.3g}"))
    # the cutoffs the statement prescribes (it is silent about pixels AND resolution given together: then the code's choice is taken
    # for the gain clauses and only the correspondence with the model speaks about the precedence)
    ambiguous = any("res" in case[c] and "fp" in case[c] for c in cuts)
    radii = [py_radius(case, case[c]) for c in cuts]
    if ambiguous and "radii" in obs:
        radii = list(obs["radii"])
    if "radii" in obs:
        if obs["radii"] != radii:
            out.append(dict(kind="spec", clause="resolution-pixels", detail=f"get_filter_radius gave {obs['radii']}, statement: pixels given, else round(box*pixel_size/resolution) = {radii}"))
        want = [round(dims[0] * b2f(case["px"]) / b2f(case[c]["res"])) for c in cuts if "res" in case[c]]
        if [v[0] for v in obs["res2pix"]] != want:
            out.append(dict(kind="spec", clause="resolution-pixels", detail=f"resolution2pixels gave {obs['res2pix']}, round(box*pixel_size/resolution) = {want}"))
        if obs["res_dev"] > TOL * sc:
            out.append(dict(kind="spec", clause="resolution-form", detail=f"filter with target_resolution differs from the filter with fourier_pixels={radii} by {obs['res_dev']:.3g}"))
    # gain clauses
    if kind in ("low", "high"):
        s = b2f(case["sigma"])
        if g.min() < -TOL or g.max() > 1 + TOL:
            out.append(dict(kind="spec", clause="gain-range", detail=f"measured gain range [{g.min():.12g}, {g.max():.12g}]"))
        out += _spec_gain(case, kind, radii[0], s, g, dims, kind + "pass", resps[0] if resps else None)
    else:
        sl, sh = b2f(case["lp_sigma"]), b2f(case["hp_sigma"])
        if sl == sh and radii[1] <= radii[0] and (g.min() < -TOL or g.max() > 1 + TOL):
            out.append(dict(kind="spec", clause="gain-range", detail=f"band-pass (nested, equal widths) gain range [{g.min():.12g}, {g.max():.12g}]"))
        if sl == 0.0 and sh == 0.0:
            R2 = radius2(dims)
            want = (R2 <= radii[0] ** 2).astype(float) - (R2 <= radii[1] ** 2).astype(float)
            bad = np.argwhere(np.abs(g - want) > TOL)
            if len(bad):
                j = tuple(int(v) for v in bad[0])
                out.append(dict(kind="spec", clause="hard-cutoff", detail=f"bandpass: bin {j} (|k|^2={int(R2[j])}, lp {radii[0]}, hp {radii[1]}): gain {g[j]:.12g}, statement demands {want[j]:.0f}; {len(bad)} bins differ"))
    # plane waves
    if "waves" in obs:
        if obs["leak"] > TOL:
            out.append(dict(kind="spec", clause="plane-wave-leak", detail=f"a pure plane wave comes out with other frequencies, relative amplitude {obs['leak']:.3g}"))
        for kx, ky, kz, gb, im in obs["waves"]:
            gv = b2f(gb)
            ref = g[kx % dims[0], ky % dims[1], kz % dims[2]]
            if abs(gv - ref) > TOL or im > TOL:
                out.append(dict(kind="spec", clause="plane-wave-gain", detail=f"plane wave k=({kx},{ky},{kz}) scaled by {gv:.12g} (imag {im:.3g}) but the same bin of a random field by {ref:.12g}: not one gain per Fourier component"))
                break
    # correspondence with the Lean model
    m = resps[0]
    if "error" in m:
        out.append(dict(kind="corr", clause="model-rejects", detail=str(m)))
        return out
    if m["radius"] != obs.get("radii", radii):
        out.append(dict(kind="corr", clause="radius-vs-model", detail=f"model cutoffs {m['radius']}, get_filter_radius {obs.get('radii', radii)}"))
    nres = sum(1 for c in cuts if "res" in case[c])
    rres = resps[1:1 + nres]
    for r in resps[1:]:
        if "error" in r:
            out.append(dict(kind="corr", clause="model-rejects", detail=str(r)))
    if "res2pix" in obs and [r.get("pixels") for r in rres] != [v[0] for v in obs["res2pix"]]:
        out.append(dict(kind="corr", clause="res2pix-vs-model", detail=f"resolution2pixels {obs['res2pix']} vs model {[r.get('pixels') for r in rres]}"))
    eff = np.array([b2f(b) for b in m["eff"]]).reshape(dims)
    dev = np.abs(g - eff)
    if dev.max() > TOL:
        j = tuple(int(v) for v in np.argwhere(dev > TOL)[0])
        out.append(dict(kind="corr", clause="gain-vs-model", detail=f"bin {j}: measured gain {g[j]:.12g}, model {eff[j]:.12g}; max deviation {dev.max():.3g} over {int((dev > TOL).sum())} bins"))
    # tiny boxes: the whole filter np.real(ifftn(fftn(x) * ifftshift(mask))) executed by the model on its own DFT
    fr = [r for r in resps[1:] if isinstance(r, dict) and "out" in r]
    if "out" in obs:
        if not fr:
            out.append(dict(kind="corr", clause="filter-vs-model", detail=f"no model output for a tiny box: {[r for r in resps[1:] if 'error' in r][:1]}"))
        else:
            ym = np.array([b2f(b) for b in fr[0]["out"]]).reshape(dims)
            yo = np.array([b2f(b) for b in obs["out"]]).reshape(dims)
            dv = np.abs(ym - yo)
            if not (dv.max() <= TOL * sc):
                jj = tuple(int(v) for v in np.argwhere(~(dv <= TOL * sc))[0])
                out.append(dict(kind="corr", clause="filter-vs-model", detail=f"voxel {jj}: filtered value {yo[jj]:.12g}, model {ym[jj]:.12g}; max deviation {dv.max():.3g}"))
    if "waves" in obs:
        for kx, ky, kz, gb, im in obs["waves"]:
            ref = eff[kx % dims[0], ky % dims[1], kz % dims[2]]
            if abs(b2f(gb) - ref) > TOL:
                out.append(dict(kind="corr", clause="wave-vs-model", detail=f"plane wave k=({kx},{ky},{kz}): gain {b2f(gb):.12g}, model {ref:.12g}"))
                break
    return out


def nontrivial(case, obs):
    if "gain" not in obs:
        return False
    g = [b2f(b) for b in obs["gain"]]
    return max(g) > 0.5 and min(g) < 0.5


def _bucket(n):
    return "5-7" if n < 8 else "8-12" if n <= 12 else ("13-16" if n <= 16 else ("17-24" if n <= 24 else ("25-32" if n <= 32 else "33-48")))


def stats(case, obs, resps):
    d = case["dims"]
    cuts = ["cut"] if case["kind"] != "band" else ["lp", "hp"]
    st = {"kind": case["kind"], "box": "cubic" if d[0] == d[1] == d[2] else "non-cubic", "max_edge": _bucket(max(d)),
          "parity": "".join("e" if n % 2 == 0 else "o" for n in d), "input": case["input"]["type"],
          "cutoff_form": ["resolution+fp" if ("res" in case[c] and "fp" in case[c]) else ("resolution" if "res" in case[c] else "pixels") for c in cuts]}
    sig = [b2f(case[k]) for k in (["sigma"] if case["kind"] != "band" else ["lp_sigma", "hp_sigma"])]
    st["sigma"] = [str(s) for s in sig]
    if "error" in obs or "gain" not in obs:
        st["impl"] = "error"
        return st
    radii = [py_radius(case, case[c]) for c in cuts]
    st["cutoff/half"] = ["=half" if r == min(d) // 2 else (">half" if r > min(d) // 2 else ("1" if r == 1 else "inner")) for r in radii]
    if case.get("res_how"):
        st["resolution_case"] = case["res_how"]
    if resps and "gain" in resps[0]:
        raw = np.array([b2f(b) for b in resps[0]["gain"]])
        eff = np.array([b2f(b) for b in resps[0]["eff"]])
        st["model_branch"] = ("hard" if all(s == 0 for s in sig) else "soft") + ("+asymmetric-edge" if np.abs(raw - eff).max() > 1e-12 else "")
        g = np.array([b2f(b) for b in obs["gain"]])
        dv = float(np.abs(g - eff).max())
        st["max_dev_vs_model"] = "<1e-13" if dv < 1e-13 else ("<1e-11" if dv < 1e-11 else ("<1e-9" if dv < 1e-9 else ">=1e-9"))
    if case["kind"] in ("low", "high") and sig[0] != 0.0:
        g = np.array([b2f(b) for b in obs["gain"]]).reshape(d)
        low = g if case["kind"] == "low" else 1.0 - g
        R = np.sqrt(radius2(d))
        ins, outs = R <= radii[0] - 4 * sig[0] - 1, R >= radii[0] + 4 * sig[0] + 1
        used_in = float(np.abs(low[ins] - 1).max()) if ins.any() else 0.0
        used_out = float(np.abs(low[outs]).max()) if outs.any() else 0.0
        st["soft_inside/outside_bins"] = ("inside" if ins.any() else "") + ("+outside" if outs.any() else "") or "none"
        tin, tout, fin, fout, origin = _model_margins(resps[0] if resps else None, tuple(d), radii[0], sig[0])
        st["margin_tolerance_from"] = origin
        if fin is not None:
            st["proved_margin_bins/statement_bins"] = "more" if ((fin | fout) & ~(ins | outs)).any() else "same"
        if ins.any() or outs.any():
            tw = max(tin, tout)
            fr = max(used_in / tin if tin > 1e-9 else 0.0, used_out / tout if tout > 1e-9 else 0.0) if tw > 1e-9 else None
            st["tail_dev/kernel_tail_weight"] = "weight<1e-9" if fr is None else ("<1%" if fr < 0.01 else ("<25%" if fr < 0.25 else ("<100%" if fr <= 1 else ">100%")))
    fr_ = [r for r in (resps or [])[1:] if isinstance(r, dict) and "out" in r]
    if "out" in obs and fr_:
        dvf = float(np.abs(np.array([b2f(b) for b in fr_[0]["out"]]) - np.array([b2f(b) for b in obs["out"]])).max())
        st["filter_output_vs_model_dft"] = "<1e-13" if dvf < 1e-13 else ("<1e-11" if dvf < 1e-11 else ("<1e-9" if dvf < 1e-9 else ">=1e-9"))
    if "waves" in obs:
        n = len(obs["waves"])
        st["plane_waves"] = "1-20" if n <= 20 else ("21-100" if n <= 100 else ("101-500" if n <= 500 else ">500"))
    return st


def sample_view(case):
    v = {k: case[k] for k in ("dims", "kind") if k in case}
    for k in ("cut", "lp", "hp"):
        if k in case:
            v[k] = {a: (b2f(b) if a == "res" else b) for a, b in case[k].items()}
    for k in ("sigma", "lp_sigma", "hp_sigma", "px"):
        if k in case:
            v[k] = b2f(case[k])
    inp = case["input"]
    v["input"] = dict(type=inp["type"], seed=inp.get("seed"), n_waves=len(inp.get("waves", [])) or None)
    return v


# ------------------------------------------------------------------ probes of the recorded library assumptions
def probes(rng):
    from skimage import filters
    out = []
    r = np.random.default_rng(rng.randrange(1 << 30))
    shape = (6, 7, 9)
    x, y = r.standard_normal(shape), r.standard_normal(shape)
    X = np.fft.fftn(x)
    out.append(dict(name="numpy.fft: ifftn(fftn(x)) = x", ok=bool(np.abs(np.fft.ifftn(X) - x).max() < 1e-12), detail=""))
    out.append(dict(name="numpy.fft: fftn linear", ok=bool(np.abs(np.fft.fftn(2 * x - 3 * y) - (2 * X - 3 * np.fft.fftn(y))).max() < 1e-10), detail=""))
    s = (2, 3, 5)
    g = np.meshgrid(*[np.arange(n) for n in shape], indexing="ij")
    chi = np.exp(-2j * np.pi * sum(s[i] * g[i] / shape[i] for i in range(3)))
    out.append(dict(name="numpy.fft: shift theorem fftn(roll(x,s)) = chi_s * fftn(x)", ok=bool(np.abs(np.fft.fftn(np.roll(x, s, axis=(0, 1, 2))) - chi * X).max() < 1e-10), detail=""))
    idx = np.ix_(*[(-np.arange(n)) % n for n in shape])
    out.append(dict(name="numpy.fft: real input has a Hermitian spectrum", ok=bool(np.abs(X[idx] - np.conj(X)).max() < 1e-10), detail=""))
    Yc = r.standard_normal(shape) + 1j * r.standard_normal(shape)
    out.append(dict(name="numpy.fft: real(ifftn(Y)) = ifftn(Hermitian part of Y)", ok=bool(np.abs(np.fft.ifftn(Yc).real - np.fft.ifftn((Yc + np.conj(Yc[idx])) / 2)).max() < 1e-12), detail=""))
    ok = True
    for n in (6, 7):
        a = np.arange(n)
        ok = ok and list(np.fft.ifftshift(a)) == [int((j + n // 2) % n) for j in range(n)]
    out.append(dict(name="numpy.fft.ifftshift(a)[j] = a[(j + n//2) % n]", ok=bool(ok), detail=""))
    # the Gaussian kernel of skimage against the model's kernel
    sig = [1.0, 2.0, 3.0, 4.0, 0.5, 1.5, 2.25, 0.125]
    resp = core.run_driver([dict(prop=PROP, op="kernel", sigma=f2b(s_)) for s_ in sig])
    for s_, rp in zip(sig, resp):
        t = int(4.0 * s_ + 0.5)
        n = 2 * t + 5
        imp = np.zeros((n, 3, 3))
        imp[n // 2] = 1.0
        k1 = filters.gaussian(imp, sigma=s_)[:, 1, 1] / filters.gaussian(imp, sigma=s_)[n // 2, 1, 1]
        ker = rp.get("kernel")
        if ker is None:
            out.append(dict(name=f"skimage gaussian kernel sigma={s_}", ok=False, detail=str(rp)))
            continue
        off = [q for q, _ in ker]
        w = np.array([b2f(b) for _, b in ker])
        full = np.zeros(n)
        for q, v in zip(off, w):
            full[n // 2 + q] = v
        imp1 = np.zeros((n, 1, 1))
        imp1[n // 2] = 1.0
        resp1 = filters.gaussian(imp1, sigma=s_)[:, 0, 0] / (w[t] ** 2)      # the two singleton axes contribute the factor w0^0.. (nearest: sum = 1)
        resp1 = filters.gaussian(imp1, sigma=s_)[:, 0, 0]
        okk = off == list(range(-t, t + 1)) and abs(w.sum() - 1) < 1e-12 and (w > 0).all() and np.abs(resp1 - full).max() < 1e-12
        # mode nearest: a step at the edge stays 1 on the edge side
        st = np.zeros((n, 1, 1))
        st[:2] = 1.0
        e = filters.gaussian(st, sigma=s_)[:, 0, 0]
        want = np.array([sum(w[q + t] * (1.0 if min(max(i + q, 0), n - 1) < 2 else 0.0) for q in range(-t, t + 1)) for i in range(n)])
        okk = okk and np.abs(e - want).max() < 1e-12
        uni = bool(np.array_equal(w, w[::-1]) or np.abs(w - w[::-1]).max() < 1e-17) and bool((np.diff(w[t:]) <= 0).all())
        out.append(dict(name=f"model kernel sigma={s_} is symmetric and non-increasing in |offset| (UnimodalKernel, hypothesis of soft_gain_mono_axis_*)", ok=uni, detail=""))
        out.append(dict(name=f"skimage gaussian = model kernel (sigma={s_}: support {t}, unit sum, positive, mode nearest)", ok=bool(okk),
                        detail="" if okk else f"impulse dev {np.abs(resp1-full).max():.3g} edge dev {np.abs(e-want).max():.3g}"))
    return out


LEVEL_TEXT = ("Lean 4 theorems about an executable model of cryomap.lowpass/highpass/bandpass, get_filter_radius, resolution2pixels and the "
              "spherical_mask transfer function: the filters are linear, real-valued, shift-commuting Fourier multipliers for every transform pair "
              "with the DFT's algebraic properties, and the model's own separable DFT (executed by the driver) is PROVED to be such a pair over every field "
              "with primitive roots of unity, in particular over the complex numbers with numpy's twiddles; high-pass = identity - low-pass and band-pass = "
              "difference of its two low-passes; the hard-edge gain is 1 exactly for integer frequency radius^2 <= cutoff^2 and 0 beyond, on boxes of any size "
              "and shape, and is even (np.real drops nothing); with any non-negative unit-sum kernel (the model's Gaussian kernel is proved to be one for every "
              "positive exponential) the gain lies in [0,1], and for sqrt(A)+sqrt(m) <= cutoff (resp. sqrt(A) > cutoff+sqrt(m)) a bin of squared radius A has "
              "1-gain (resp. gain) <= the kernel weight at offsets of squared length > m, which is 0 beyond the kernel's reach sqrt(3)*t (exact plateaus); the gain "
              "is non-increasing along axis-parallel lines away from the centre for symmetric unimodal kernels (the model's kernel is one for every positive monotone "
              "exponential) when the ball stays off the box faces; round-half-even characterisation of resolution2pixels. Tied to the source by 16 regenerated anchors, "
              "by measuring the real filters' gains (fft(out)/fft(in), random fields and plane waves at every integer frequency) against the model's gain arrays, and "
              "on boxes <= 8 per axis by comparing the real OUTPUT ARRAY with the model's np.real(ifftn(fftn(x)*gain)) executed on the model's DFT")
LEVEL_NOTE = ("partial: the literal '= 1 inside cutoff-4s-1, = 0 outside cutoff+4s+1' is false in exact arithmetic for margins below the kernel reach (proved: "
              "soft_edge_full_false_below_reach); proved and checked instead: the deviation is at most the kernel tail weight beyond the margin (<=3.4e-4 for s<=4), "
              "computed by the driver; 'non-increasing in between' is proved along axis-parallel lines only (not along diagonals, not where the ball touches a face of "
              "the mask box, not for the np.real-symmetrised gain) and validated along the 26 rays; the DFT shift theorem and the Hermitian-symmetry facts used by "
              "filt_shift/filt_effective_gain remain hypotheses (probed on numpy.fft); skimage.filters.gaussian is modelled by a recorded, probed assumption; floating "
              "point vs exact arithmetic within 1e-9; band-pass gain range [0,1] is proved/checked for nested masks with equal widths only (with different widths the "
              "difference of two low-passes can be negative by construction)")
TECHNIQUE = "Lean 4 proof (multiplier algebra over modules, integer index arithmetic, weighted-sum inequalities over ordered fields) + regenerated anchors + measured-gain correspondence"
DESIGN_REF = "DESIGN.md section 4, C12"
