"""C13 — Masks: analytic shapes and voxel-wise set algebra (DESIGN.md section 4, C13)."""
import ast, re, math, base64, zlib
from fractions import Fraction
import numpy as np
import core
from core import f2b, b2f

PROP = "C13"
COUNT = {"quick": 500, "thorough": 2400, "search": 900}
PARALLEL = True
REL = "cryocat/cryomask.py"
KINDS = ["sphere", "cylinder", "ellipsoid", "s_shell", "e_shell"]
FNS = ["union", "intersection", "subtraction", "difference"]
SOFT_TOL = 1e-12      # float noise allowed around [0,1] and between impl and gaussian(model pre-blur mask)
CORE_TOL = 1e-3       # the property's bound for the core of an outwards-blurred mask

RULE = ("shape cases: constructor calls (spherical/cylindrical/ellipsoid/_shell masks, direct or through generate_mask) on non-cubic boxes "
        "6..16 (quick) / 6..48 (thorough) per axis (even sizes for ellipsoids), centre default or anywhere in the box incl. faces, radii/heights "
        "from 1 to beyond the box (spheres also quarter/half-integer radii), Gaussian width 0 or {0.5,..,3} with both edge modes; every voxel is "
        "compared. algebra cases: union/intersection/subtraction/difference of 1..5 binary or soft float64 masks. "
        "non-trivial = hard mask holding both values with a non-default centre or clipped by the box, or a soft mask, or an algebra call on >=2 masks "
        "whose result holds both 0 and 1; distinct = distinct case content")
ASSUMPTIONS = [
    "numpy float64 evaluation of sqrt(d2) > r, of the slab bounds and of sum(x^2/r^2) <= 1 equals exact rational evaluation on integer voxel "
    "coordinates and dyadic radii (ties sum == 1 with >= 2 non-zero terms are excluded and counted)",
    "skimage.filters.gaussian is an external service: soft masks are compared with gaussian(model's pre-blur mask) computed by the same library; "
    "its kernel is probed each run (non-negative, unit sum, support int(4*sigma+0.5), mode='nearest')",
    "numpy float64 +,*,- and np.clip are IEEE-754 and equal Lean Float (compared bit for bit on every algebra case)",
    "'never modify their inputs' is a runtime aliasing fact: validated on every algebra case by comparing the inputs before/after, not proved",
]
TRUSTED = ["props/c13.py _expected(): independent integer evaluation of the analytic inequalities (numpy int64)"]

# documented values (fallbacks for the generated file when an anchor is missing; Props/C13.lean states them independently)
DOC = {
    "preprocessCond": ["if:gaussian!=0.0andgaussian_outwards"],
    "preprocessRadius": ["new_radius=np.ceil(radius+gaussian*blur_factor).astype(int)", "new_radius=radius"],
    "sphereDist": ["mask=np.sqrt((x-center[0])**2+(y-center[1])**2+(z-center[2])**2)"],
    "sphereCuts": ["mask[mask>radius]=0", "mask[mask>0]=1", "mask[center[0],center[1],center[2]]=1"],
    "sphereParams": ["radius=np.amin(mask_size)//2", "radius=preprocess_params(radius,gaussian,gaussian_outwards)"],
    "cylParams": ["radius=np.amin(mask_size[:2])//2", "height=mask_size[2]", "height=height//2",
                  "radius=preprocess_params(radius,gaussian,gaussian_outwards)", "height=preprocess_params(height,gaussian,gaussian_outwards)"],
    "cylDisc": ["mask_xy=np.sqrt((x-center[0])**2+(y-center[1])**2)", "mask_xy[mask_xy>radius]=0", "mask_xy[mask_xy>0]=1",
                "mask_xy[center[0],center[1]]=1"],
    "cylSlab": ["z_start=max(center[2]-height,0)", "z_end=min(center[2]+height+1,mask_size[2])", "if:z_end>z_start",
                "mask[:,:,z_start:z_end]=np.tile(mask_xy[:,:,None],(1,1,z_end-z_start))"],
    "ellGrid": ["xi=tuple((np.linspace(1,s,s)-np.floor(0.5*s)forsinmask_shape))", "xi=np.meshgrid(*xi,indexing='ij')",
                "points=np.array(xi).reshape(3,-1)[::-1]", "grid_center=0.5*mask_shape-center",
                "grid_center=np.tile(grid_center.reshape(3,1),(1,points.shape[1]))", "points=points[:,::-1]",
                "grid_center=grid_center[::-1]"],
    "ellRadii": ["radii=get_correct_format(radii,reference_size=mask_shape)", "radii=preprocess_params(radii,gaussian,gaussian_outwards)",
                 "radii=radii[::-1]", "radii=np.tile(radii.reshape(3,1),(1,points.shape[1]))"],
    "ellTest": ["ellipsoid=(points-grid_center)**2", "ellipsoid=ellipsoid/radii**2",
                "distance=np.sum(ellipsoid,axis=0).reshape(mask_shape)", "mask=distance<=1"],
    "sShell": ["radius=np.amin(mask_size)//2", "shell_thickness=shell_thickness/2",
               "sp1=spherical_mask(mask_size,radius=radius+shell_thickness,center=center)",
               "sp2=spherical_mask(mask_size,radius=radius-shell_thickness,center=center)", "shell_mask=sp1-sp2"],
    "eShell": ["radii=get_correct_format(radii,reference_size=mask_size)", "shell_thickness=shell_thickness/2",
               "e1=ellipsoid_mask(mask_size,radii=radii+shell_thickness,center=center)",
               "e2=ellipsoid_mask(mask_size,radii=radii-shell_thickness,center=center)", "shell_mask=e1&~e2"],
    "formatInt": ["returnnp.asarray(unformatted_value).astype(int)", "returnnp.full((3,),unformatted_value).astype(int)",
                  "returnnp.full((3,),unformatted_value).astype(int)"],
    "formatDefault": ["size_correct_format=box_size//2"],
    "unionOps": ["final_mask=np.zeros(cryomap.read(mask_list[0]).shape)", "for:mask_list", "mask=cryomap.read(m)", "final_mask+=mask",
                 "final_mask=np.clip(final_mask,0.0,1.0)", "returnfinal_mask"],
    "interOps": ["final_mask=np.ones(cryomap.read(mask_list[0]).shape)", "for:mask_list", "mask=cryomap.read(m)", "final_mask*=mask",
                 "final_mask=np.clip(final_mask,0.0,1.0)", "returnfinal_mask"],
    "subOps": ["final_mask=cryomap.read(mask_list[0])", "for:mask_list[1:]", "mask=cryomap.read(m)", "final_mask-=mask",
               "final_mask=np.clip(final_mask,0.0,1.0)", "returnfinal_mask"],
    "diffOps": ["union_mask=union(mask_list)", "inter_mask=intersection(mask_list)", "final_mask=union_mask-inter_mask",
                "final_mask=np.clip(final_mask,0.0,1.0)", "returnfinal_mask"],
    "readCopies": ["data=np.array(data,copy=True)"],
    "gaussOps": ["if:sigma==0", "returninput_mask", "returnfilters.gaussian(input_mask,sigma=sigma)"],
    "genSize": ["if:mask_sizeisNone", "mask_size=2*np.max(specs)+mask_expansion", "mask_size=math.ceil(mask_size/2)*2",
                "mask_size=math.ceil((mask_size+specs[1])/2)*2"],
    "genCalls": ["if:shape=='sphere'", "mask=spherical_mask(mask_size=mask_size,radius=specs[0])", "if:shape=='cylinder'",
                 "mask=cylindrical_mask(mask_size=mask_size,radius=specs[0],height=specs[1])", "if:shape=='s_shell'",
                 "mask=spherical_shell_mask(mask_size=mask_size,shell_thickness=specs[1],radius=specs[0])", "if:shape=='ellipsoid'",
                 "mask=ellipsoid_mask(mask_size=mask_size,radii=specs)", "if:shape=='e_shell'",
                 "mask=ellipsoid_shell_mask(mask_size=mask_size,shell_thickness=specs[3],radii=specs[0:3])"],
    "parsePatterns": ["sphere", r"^sphere_r(\d+)$", "cylinder", r"^cylinder_r(\d+)_h(\d+)$", "s_shell", r"^s_shell_r(\d+)_s(\d+)$",
                      "ellipsoid", r"^ellipsoid_rx(\d+)_ry(\d+)_rz(\d+)$", "e_shell", r"^e_shell_rx(\d+)_ry(\d+)_rz(\d+)_s(\d+)$"],
}


# ------------------------------------------------------------------ translator
def _stmts(node):
    """normalised simple statements of a function body in source order (`if:`/`for:` mark the tests/iterables)"""
    out = []

    def walk(body):
        for st in body:
            if isinstance(st, ast.Expr) and isinstance(st.value, ast.Constant) and isinstance(st.value.value, str):
                continue
            if isinstance(st, (ast.FunctionDef, ast.ClassDef)):
                walk(st.body)
            elif isinstance(st, ast.If):
                out.append("if:" + core.norm_expr(st.test))
                walk(st.body); walk(st.orelse)
            elif isinstance(st, ast.For):
                out.append("for:" + core.norm_expr(st.iter))
                walk(st.body); walk(st.orelse)
            elif isinstance(st, (ast.While, ast.With, ast.Try)):
                out.append("block:" + type(st).__name__)
                for b in ("body", "orelse", "finalbody"):
                    walk(getattr(st, b, []))
            else:
                out.append(core.norm_expr(st).replace("\n", ""))
    walk(node.body)
    return out


def _pick(src, fn, pattern, name):
    node = src.find(REL if not fn.startswith("cryomap:") else "cryocat/cryomap.py", fn.split(":")[-1])
    got = [s for s in _stmts(node) if re.search(pattern, s)]
    if not got:
        raise core.AnchorMissing(f"{fn}: no statement matching {pattern}")
    return got


def translate(src):
    vals = {}

    def anchor(key, fn, pattern):
        v = src.anchor(f"{fn}:{key}", lambda: _pick(src, fn, pattern, key))
        vals[key] = v if isinstance(v, list) else DOC[key]

    def blur():
        node = src.find(REL, "preprocess_params")
        for st in node.body:
            if isinstance(st, ast.Assign) and any(isinstance(t, ast.Name) and t.id == "blur_factor" for t in st.targets):
                v = src.literal(st.value)
                if isinstance(v, (int, float)):
                    return repr(v)
        raise core.AnchorMissing("preprocess_params: blur_factor = <const>")

    bf = src.anchor("preprocess_params:blur_factor", blur)
    fr = Fraction(bf) if bf is not None else Fraction(5)
    anchor("preprocessCond", "preprocess_params", r"^if:")
    anchor("preprocessRadius", "preprocess_params", r"^new_radius=")
    anchor("sphereDist", "spherical_mask", r"^mask=np\.sqrt")
    anchor("sphereCuts", "spherical_mask", r"^mask\[")
    anchor("sphereParams", "spherical_mask", r"^radius=")
    anchor("cylParams", "cylindrical_mask", r"^(radius|height)=")
    anchor("cylDisc", "cylindrical_mask", r"^mask_xy(=|\[)")
    anchor("cylSlab", "cylindrical_mask", r"^(z_start=|z_end=|if:.*z_|mask\[)")
    anchor("ellGrid", "ellipsoid_mask", r"^(xi|points|grid_center)=")
    anchor("ellRadii", "ellipsoid_mask", r"^radii=")
    anchor("ellTest", "ellipsoid_mask", r"^(ellipsoid=|distance=|mask=distance)")
    anchor("sShell", "spherical_shell_mask", r"^(radius=|shell_thickness=|sp1=|sp2=|shell_mask=sp)")
    anchor("eShell", "ellipsoid_shell_mask", r"^(radii=|shell_thickness=|e1=|e2=|shell_mask=e)")
    anchor("formatInt", "get_correct_format", r"^returnnp\.")
    anchor("formatDefault", "get_correct_format", r"^size_correct_format=box_size")
    anchor("unionOps", "union", r"^(final_mask|mask=|for:|return)")
    anchor("interOps", "intersection", r"^(final_mask|mask=|for:|return)")
    anchor("subOps", "subtraction", r"^(final_mask|mask=|for:|return)")
    anchor("diffOps", "difference", r"^(final_mask|union_mask|inter_mask|return)")
    anchor("readCopies", "cryomap:read", r"^data=np\.\w+\(data\b")
    anchor("gaussOps", "add_gaussian", r"^(if:|return)")
    anchor("genSize", "generate_mask", r"^(if:mask_size|mask_size=)")
    anchor("genCalls", "generate_mask", r"^(if:shape|mask=)")

    def patterns():
        node = src.find(REL, "parse_shape_string")
        for st in node.body:
            if isinstance(st, ast.Assign) and any(isinstance(t, ast.Name) and t.id == "patterns" for t in st.targets):
                d = src.literal(st.value)
                if isinstance(d, dict) and all(isinstance(k, str) and isinstance(v, str) for k, v in d.items()):
                    return [x for kv in d.items() for x in kv]
        raise core.AnchorMissing("parse_shape_string: patterns = {literal}")

    pp = src.anchor("parse_shape_string:patterns", patterns)
    vals["parsePatterns"] = pp if isinstance(pp, list) else DOC["parsePatterns"]

    def expansion():
        node = src.find(REL, "generate_mask")
        args = node.args
        names = [a.arg for a in args.args]
        defaults = dict(zip(names[len(names) - len(args.defaults):], args.defaults))
        if names[:3] != ["mask_shape", "mask_size", "mask_expansion"]:
            raise core.AnchorMissing("generate_mask(mask_shape, mask_size, mask_expansion)")
        v = src.literal(defaults["mask_expansion"])
        if not isinstance(v, int) or src.literal(defaults["mask_size"]) is not None:
            raise core.AnchorMissing("generate_mask defaults")
        return v

    exp = src.anchor("generate_mask:mask_expansion-default", expansion)
    lines = [f"-- GENERATED by harness/props/c13.py from {REL}; do not edit",
             "namespace CryoCat.Gen.C13",
             f"def anchorsOk : Bool := {'true' if src.ok else 'false'}",
             f"def blurFactorNum : Int := {fr.numerator}",
             f"def blurFactorDen : Nat := {fr.denominator}",
             f"def maskExpansionDefault : Nat := {exp if isinstance(exp, int) and exp >= 0 else 0}"]
    for k in DOC:
        lines.append(f"def {k} : List String := {core.lean_str_list(vals[k])}")
    lines.append("end CryoCat.Gen.C13")
    return "\n".join(lines) + "\n"


# ------------------------------------------------------------------ helpers
def _val(nd):
    """[num, den] -> python number as a user would pass it (int when integral)"""
    if nd is None:
        return None
    n, d = nd
    return int(n // d) if n % d == 0 else n / d


def _fr(nd):
    return Fraction(nd[0], nd[1])


def _enc_soft(a):
    return base64.b64encode(zlib.compress(np.ascontiguousarray(a, dtype=np.float64).tobytes(), 1)).decode()


def _dec_soft(s, shape):
    return np.frombuffer(zlib.decompress(base64.b64decode(s)), dtype=np.float64).reshape(shape)


def _enc_hard(a):
    """0/1/-1 array -> string; None if other values occur"""
    v = np.asarray(a)
    if v.dtype == bool:
        v = v.astype(np.int8)
    flat = v.ravel()
    ok = np.isin(flat, (0, 1, -1)).all()
    if not ok:
        return None
    lut = np.array(list("m01"))
    return "".join(lut[(flat.astype(np.int64) + 1)])


def _str2arr(s, shape):
    a = np.frombuffer(s.encode(), dtype=np.uint8)
    out = np.where(a == ord("1"), 1, np.where(a == ord("0"), 0, np.where(a == ord("m"), -1, 9))).astype(np.int8)
    return out.reshape(shape)


# ------------------------------------------------------------------ the statement, evaluated independently (integers)
def _sphere(box, c, r):
    """voxels with distance <= r (r a Fraction >= 0)"""
    i, j, k = np.indices(box, dtype=np.int64)
    d2 = (i - c[0]) ** 2 + (j - c[1]) ** 2 + (k - c[2]) ** 2
    if r < 0:
        return np.zeros(box, dtype=bool)
    return d2 * r.denominator ** 2 <= r.numerator ** 2


def _cylinder(box, c, r, height):
    i, j, k = np.indices(box, dtype=np.int64)
    d2 = (i - c[0]) ** 2 + (j - c[1]) ** 2
    disc = (d2 * r.denominator ** 2 <= r.numerator ** 2) if r >= 0 else np.zeros(box, dtype=bool)
    return disc & (np.abs(k - c[2]) <= height // 2)


def _ellipsoid(box, c, radii):
    """(inside, tie): sum((i-c)/r)^2 <= 1 for integer radii > 0 on even boxes; tie = exactly on the surface with >= 2 non-zero terms"""
    i, j, k = np.indices(box, dtype=np.int64)
    rx, ry, rz = [int(r) for r in radii]
    a, b, cc = (i - c[0]) ** 2, (j - c[1]) ** 2, (k - c[2]) ** 2
    lhs = a * (ry * ry * rz * rz) + b * (rx * rx * rz * rz) + cc * (rx * rx * ry * ry)
    rhs = rx * rx * ry * ry * rz * rz
    nz = (a > 0).astype(int) + (b > 0).astype(int) + (cc > 0).astype(int)
    return lhs <= rhs, (lhs == rhs) & (nz >= 2)


def _defaults(case):
    box = case["box"]
    c = case["center"] if case.get("center") is not None else [b // 2 for b in box]
    return box, c


def _grow(r, g, outwards):
    """documented radius extension of an outwards blur: ceil(r + 5*sigma)"""
    if g != 0 and outwards:
        return Fraction(math.ceil(r + 5 * g))
    return r


def _expected(case, blurred):
    """(mask int8 array, ties bool array) demanded by the statement; blurred=True -> the extended (pre-blur) solid"""
    box, c = _defaults(case)
    kind = case["kind"]
    g = _fr(case["gauss"]) if blurred else Fraction(0)
    ow = case.get("outwards", True)
    no_ties = np.zeros(box, dtype=bool)
    if kind == "sphere":
        r = _fr(case["radius"]) if case.get("radius") is not None else Fraction(min(box) // 2)
        return _sphere(box, c, _grow(r, g, ow)).astype(np.int8), no_ties
    if kind == "cylinder":
        r = _fr(case["radius"]) if case.get("radius") is not None else Fraction(min(box[:2]) // 2)
        h = case["height"] if case.get("height") is not None else box[2]
        half = _grow(Fraction(h // 2), g, ow)
        return _cylinder(box, c, _grow(r, g, ow), 2 * int(half)).astype(np.int8), no_ties
    if kind == "ellipsoid":
        rr = [int(_fr(x)) for x in case["radii"]] if case.get("radii") is not None else [b // 2 for b in box]
        rr = [int(_grow(Fraction(x), g, ow)) for x in rr]
        m, t = _ellipsoid(box, c, rr)
        return m.astype(np.int8), t
    if kind == "s_shell":
        r = _fr(case["radius"]) if case.get("radius") is not None else Fraction(min(box) // 2)
        t = _fr(case["thick"]) / 2
        return (_sphere(box, c, r + t).astype(np.int8) - _sphere(box, c, r - t).astype(np.int8)), no_ties
    if kind == "e_shell":
        rr = [int(_fr(x)) for x in case["radii"]] if case.get("radii") is not None else [b // 2 for b in box]
        t = _fr(case["thick"]) / 2
        mo, to = _ellipsoid(box, c, [int(x + t) for x in rr])
        mi, ti = _ellipsoid(box, c, [int(x - t) for x in rr])
        return (mo & ~mi).astype(np.int8), to | ti
    raise ValueError(kind)


def _name_to_shape(case):
    """the constructor call the shape string stands for, with the documented box-size arithmetic"""
    specs, kind = case["specs"], case["kind"]
    s = case["mask_size"]
    if s is None:
        s = 2 * max(specs) + case["expansion"]
        s = -(-s // 2) * 2
    out = dict(t="shape", kind=kind, center=None, radius=None, height=None, radii=None, thick=[0, 1], gauss=[0, 1], outwards=True)
    if kind == "sphere":
        out.update(radius=[specs[0], 1])
    elif kind == "cylinder":
        out.update(radius=[specs[0], 1], height=specs[1])
    elif kind == "s_shell":
        s = -(-(s + specs[1]) // 2) * 2
        out.update(radius=[specs[0], 1], thick=[specs[1], 1])
    elif kind == "ellipsoid":
        out.update(radii=[[x, 1] for x in specs])
    elif kind == "e_shell":
        out.update(radii=[[x, 1] for x in specs[:3]], thick=[specs[3], 1])
    out["box"] = [s, s, s]
    return out


def _name_string(case):
    k, s = case["kind"], case["specs"]
    return {"sphere": "sphere_r{}", "cylinder": "cylinder_r{}_h{}", "s_shell": "s_shell_r{}_s{}", "ellipsoid": "ellipsoid_rx{}_ry{}_rz{}",
            "e_shell": "e_shell_rx{}_ry{}_rz{}_s{}"}[k].format(*s)


# ------------------------------------------------------------------ generators
def _box(rng, tier, even, soft=False):
    hi = {"quick": 16, "thorough": 48, "search": 14}[tier]
    if tier == "thorough" and (soft or rng.random() < 0.6):
        hi = 28 if rng.random() < 0.8 else 36
    if rng.random() < 0.12:
        n = rng.randint(6, hi)
        dims = [n, n, n]
    else:
        dims = [rng.randint(6, hi) for _ in range(3)]
    if even:
        dims = [d + (d % 2) if d < hi else d - (d % 2) for d in dims]
    return dims


def _radius(rng, box, frac=False):
    m = max(box)
    k = rng.random()
    if k < 0.25:
        r = rng.randint(1, 3)
    elif k < 0.75:
        r = rng.randint(1, max(2, min(box) // 2 + 1))
    elif k < 0.9:
        r = rng.randint(min(box) // 2, m)
    else:
        r = rng.randint(m, m + m // 2 + 3)   # beyond the box
    if frac and rng.random() < 0.25:
        return [4 * r + rng.choice([1, 2, 3]), 4]
    return [r, 1]


def _centre(rng, box):
    k = rng.random()
    if k < 0.3:
        return None
    if k < 0.45:   # on faces / corners
        return [rng.choice([0, b - 1, rng.randrange(b)]) for b in box]
    if k < 0.6:    # near the middle
        return [min(b - 1, max(0, b // 2 + rng.randint(-2, 2))) for b in box]
    return [rng.randrange(b) for b in box]


def _gauss(rng):
    if rng.random() < 0.62:
        return [0, 1], True
    return [rng.choice([1, 2, 3, 4, 5, 6]), 2], rng.random() < 0.6


def _shape_case(rng, tier):
    kind = rng.choices(KINDS, weights=[26, 26, 22, 13, 13])[0]
    g, ow = _gauss(rng)
    soft = g[0] != 0
    box = _box(rng, tier, even=kind in ("ellipsoid", "e_shell"), soft=soft)
    case = dict(t="shape", kind=kind, box=box, center=_centre(rng, box), radius=None, height=None, radii=None, thick=[0, 1], gauss=g, outwards=ow)
    if kind == "sphere":
        case["radius"] = None if rng.random() < 0.08 else _radius(rng, box, frac=True)
    elif kind == "cylinder":
        case["radius"] = None if rng.random() < 0.08 else _radius(rng, box, frac=True)
        k = rng.random()
        case["height"] = None if k < 0.08 else (rng.randint(1, 5) if k < 0.3 else (rng.randint(1, box[2] + 8) if k < 0.85 else rng.randint(box[2], 2 * box[2] + 6)))
    elif kind == "ellipsoid":
        case["radii"] = None if rng.random() < 0.08 else [_radius(rng, box) for _ in range(3)]
    elif kind == "s_shell":
        r = _radius(rng, box)
        case["radius"] = r
        t = rng.randint(1, max(1, min(2 * r[0], 8)))     # inner radius r - t/2 >= 0
        case["thick"] = [t, 1]
        case["outwards"] = True
    elif kind == "e_shell":
        rr = [[max(2, _radius(rng, box)[0]), 1] for _ in range(3)]
        case["radii"] = rr
        t = rng.randint(1, max(1, min(2 * min(x[0] for x in rr) - 2, 8)))   # inner radii int(r - t/2) >= 1
        case["thick"] = [t, 1]
        case["outwards"] = True
    return case


def _name_case(rng, tier):
    kind = rng.choice(KINDS)
    hi = {"quick": 6, "thorough": 20, "search": 5}[tier]
    n = {"sphere": 1, "cylinder": 2, "s_shell": 2, "ellipsoid": 3, "e_shell": 4}[kind]
    specs = [rng.randint(1, hi) for _ in range(n)]
    if kind == "s_shell":
        specs[1] = rng.randint(1, max(1, min(2 * specs[0], 8)))
    if kind == "e_shell":
        specs = [max(2, s) for s in specs[:3]] + [rng.randint(1, max(1, min(2 * min(max(2, s) for s in specs[:3]) - 2, 8)))]
    ms = None
    if rng.random() < 0.4:
        ms = rng.randint(6, {"quick": 16, "thorough": 40, "search": 14}[tier])
        if kind in ("ellipsoid", "e_shell"):
            ms += ms % 2
    return dict(t="name", kind=kind, specs=specs, mask_size=ms, expansion=rng.choice([4, 4, 4, 0, 1, 3, 6]))


def _algebra_case(rng, tier):
    hi = {"quick": 8, "thorough": 12, "search": 6}[tier]
    shape = [rng.randint(2, hi) for _ in range(3)]
    n = int(np.prod(shape))
    k = rng.choice([1, 2, 2, 2, 3, 3, 4, 5])
    flavour = "binary" if rng.random() < 0.6 else "soft"
    masks = []
    for m in range(k):
        if flavour == "binary":
            style = rng.random()
            if style < 0.1 and masks:
                vals = list(masks[rng.randrange(len(masks))])          # a repeated mask
            elif style < 0.2 and masks:
                vals = [1.0 - v for v in masks[rng.randrange(len(masks))]]   # a complement
            elif style < 0.27:
                vals = [float(rng.random() < 0.5)] * n if False else [rng.choice([0.0, 1.0])] * n  # constant
            else:
                p = rng.choice([0.15, 0.5, 0.85])
                vals = [1.0 if rng.random() < p else 0.0 for _ in range(n)]
        else:
            style = rng.random()
            if style < 0.5:
                vals = [rng.choice([0.0, 1.0, rng.random(), rng.randint(0, 16) / 16.0]) for _ in range(n)]
            else:
                vals = [rng.random() for _ in range(n)]
        masks.append(vals)
    return dict(t="algebra", fn=rng.choice(FNS), shape=shape, flavour=flavour, masks=[[f2b(v) for v in m] for m in masks])


def generate(rng, tier, n):
    for _ in range(n):
        k = rng.random()
        if k < 0.64:
            yield _shape_case(rng, tier)
        elif k < 0.76:
            yield _name_case(rng, tier)
        else:
            yield _algebra_case(rng, tier)


def shrink(case):
    if case["t"] == "algebra":
        ms = case["masks"]
        if len(ms) > 1:
            for i in range(len(ms)):
                if not (case["fn"] == "subtraction" and i == 0 and len(ms) == 2):
                    yield dict(case, masks=ms[:i] + ms[i + 1:])
        shp = case["shape"]
        for ax in range(3):
            if shp[ax] > 1:
                new = list(shp); new[ax] = shp[ax] // 2 if shp[ax] > 3 else shp[ax] - 1
                def cut(m):
                    a = np.array(m, dtype=np.uint64).reshape(shp)
                    sl = [slice(None)] * 3; sl[ax] = slice(0, new[ax])
                    return [int(x) for x in a[tuple(sl)].ravel()]
                yield dict(case, shape=new, masks=[cut(m) for m in ms])
        return
    if case["t"] == "name":
        if case["mask_size"] is not None:
            yield dict(case, mask_size=None)
        if case["expansion"] != 4:
            yield dict(case, expansion=4)
        for i, s in enumerate(case["specs"]):
            if s > 2:
                sp = list(case["specs"]); sp[i] = max(2, s // 2)
                yield dict(case, specs=sp)
        return
    even = case["kind"] in ("ellipsoid", "e_shell")
    box = case["box"]
    if case["gauss"][0] != 0:
        yield dict(case, gauss=[0, 1])
    for ax in range(3):
        for nb in (6, box[ax] // 2, box[ax] - (2 if even else 1)):
            nb += nb % 2 if even else 0
            if 6 <= nb < box[ax]:
                new = list(box); new[ax] = nb
                c = case.get("center")
                if c is not None:
                    c = list(c); c[ax] = min(c[ax], nb - 1)
                yield dict(case, box=new, center=c)
    if case.get("center") is not None:
        yield dict(case, center=None)
    if case.get("radius") is not None and case["radius"][0] > case["radius"][1]:
        r = case["radius"]
        yield dict(case, radius=[max(1, (r[0] // r[1]) // 2), 1])
        if r[1] != 1:
            yield dict(case, radius=[r[0] // r[1], 1])
    if case.get("height") is not None and case["height"] > 1:
        yield dict(case, height=max(1, case["height"] // 2))
        yield dict(case, height=case["height"] - 1)
    if case.get("radii") is not None and case["kind"] == "ellipsoid":
        for i in range(3):
            if case["radii"][i][0] > 1:
                rr = [list(x) for x in case["radii"]]; rr[i] = [max(1, rr[i][0] // 2), 1]
                yield dict(case, radii=rr)


# ------------------------------------------------------------------ implementation
def _call_shape(cm, case):
    kind, box = case["kind"], case["box"]
    c = case.get("center")
    g = _val(case["gauss"])
    ow = case.get("outwards", True)
    kw = {}
    if c is not None:
        kw["center"] = list(c)
    if kind == "sphere":
        return cm.spherical_mask(list(box), radius=_val(case.get("radius")), gaussian=g, gaussian_outwards=ow, **kw)
    if kind == "cylinder":
        return cm.cylindrical_mask(list(box), radius=_val(case.get("radius")), height=case.get("height"), gaussian=g, gaussian_outwards=ow, **kw)
    if kind == "ellipsoid":
        radii = [_val(x) for x in case["radii"]] if case.get("radii") is not None else None
        return cm.ellipsoid_mask(list(box), radii=radii, gaussian=g, gaussian_outwards=ow, **kw)
    if kind == "s_shell":
        return cm.spherical_shell_mask(list(box), _val(case["thick"]), radius=_val(case.get("radius")), gaussian=g, **kw)
    if kind == "e_shell":
        return cm.ellipsoid_shell_mask(list(box), _val(case["thick"]), [_val(x) for x in case["radii"]], gaussian=g, **kw)
    raise ValueError(kind)


def _observe(arr, soft):
    arr = np.asarray(arr)
    obs = dict(shape=list(arr.shape), dtype=str(arr.dtype))
    if soft:
        a = arr.astype(np.float64)
        obs.update(soft=_enc_soft(a), min=float(a.min()), max=float(a.max()), nan=bool(np.isnan(a).any()))
    else:
        obs["mask"] = _enc_hard(arr)
        if obs["mask"] is None:
            a = arr.astype(np.float64)
            obs.update(min=float(a.min()), max=float(a.max()))
    return obs


def run_impl(case):
    import warnings
    warnings.filterwarnings("ignore")
    from cryocat import cryomask as cm
    if case["t"] == "shape":
        return _observe(_call_shape(cm, case), case["gauss"][0] != 0)
    if case["t"] == "name":
        name = _name_string(case)
        kw = {} if case["expansion"] == 4 and case.get("default_expansion", True) else {"mask_expansion": case["expansion"]}
        parsed = cm.parse_shape_string(name)
        out = cm.generate_mask(name, mask_size=case["mask_size"], **kw)
        obs = _observe(out, False)
        obs["parsed"] = [parsed[0], [int(x) for x in parsed[1]]]
        direct = _name_to_shape(case)
        try:
            d = np.asarray(_call_shape(cm, direct))
            obs["same_as_direct"] = bool(d.shape == np.asarray(out).shape and np.array_equal(d, out))
        except Exception as e:
            obs["same_as_direct"] = f"direct call raised {type(e).__name__}: {e}"
        return obs
    if case["t"] == "algebra":
        shp = case["shape"]
        masks = [np.array([b2f(b) for b in m], dtype=np.float64).reshape(shp) for m in case["masks"]]
        before = [m.copy() for m in masks]
        lst = list(masks)
        out = getattr(cm, case["fn"])(lst)
        mutated = [i for i, (a, b) in enumerate(zip(masks, before)) if not np.array_equal(a, b)]
        if len(lst) != len(masks) or any(x is not y for x, y in zip(lst, masks)):
            mutated.append("list")
        out = np.asarray(out)
        return dict(shape=list(out.shape), dtype=str(out.dtype), out=[f2b(x) for x in out.astype(np.float64).ravel()], mutated=mutated,
                    aliases_input=bool(any(np.shares_memory(out, m) for m in masks)))
    raise ValueError(case["t"])


def requests(case, obs):
    if case["t"] == "shape":
        return [dict(op="shape", kind=case["kind"], box=case["box"], center=case.get("center"), radius=case.get("radius"), height=case.get("height"),
                     radii=case.get("radii"), thick=case["thick"], gauss=case["gauss"], outwards=case.get("outwards", True))]
    if case["t"] == "name":
        return [dict(op="generate", kind=case["kind"], specs=case["specs"], mask_size=case["mask_size"], expansion=case["expansion"])]
    return [dict(op="algebra", fn=case["fn"], masks=case["masks"])]


def _first_diff(a, b, skip=None):
    d = a != b
    if skip is not None:
        d &= ~skip
    idx = np.argwhere(d)
    return (None, 0) if len(idx) == 0 else (tuple(int(x) for x in idx[0]), len(idx))


def _judge_hard(case, obs, model, out, label):
    """case: a shape case (gauss 0); obs: observation of a hard mask"""
    box = case["box"]
    exp, ties = _expected(case, blurred=False)
    if obs["shape"] != list(box):
        out.append(dict(kind="spec", clause=f"{label}-box", detail=f"returned shape {obs['shape']}, requested box {box}"))
        return
    if obs.get("mask") is None:
        out.append(dict(kind="spec", clause=f"{label}-not-binary", detail=f"hard-edged mask holds values other than 0/1: min={obs.get('min')} max={obs.get('max')}"))
        return
    impl = _str2arr(obs["mask"], box)
    v, n = _first_diff(impl, exp, ties)
    if v is not None:
        c = _defaults(case)[1]
        out.append(dict(kind="spec", clause=f"{label}-membership",
                        detail=f"{n} voxel(s) differ from the analytic inequality; first {v}: code {int(impl[v])}, statement {int(exp[v])} "
                               f"(box {box}, centre {c}, radius {case.get('radius')}, height {case.get('height')}, radii {case.get('radii')}, thick {case.get('thick')})"))
    if "error" in model:
        out.append(dict(kind="corr", clause="model-rejects", detail=str(model)))
        return
    mm = _str2arr(model["mask"], box) if model["box"] == list(box) else None
    if mm is None:
        out.append(dict(kind="corr", clause="model-box", detail=f"model box {model['box']} vs {box}"))
        return
    mt = _str2arr(model["ties"], box).astype(bool) if model.get("ties") else np.zeros(box, dtype=bool)
    v, n = _first_diff(impl, mm, mt)
    if v is not None:
        out.append(dict(kind="corr", clause=f"{label}-vs-model", detail=f"{n} voxel(s) differ from the Lean model; first {v}: code {int(impl[v])}, model {int(mm[v])}"))
    v, n = _first_diff(mm, exp, ties | mt)
    if v is not None:
        out.append(dict(kind="corr", clause="model-vs-statement", detail=f"Lean model and the independent evaluation differ at {v} ({n} voxels)"))


def judge(case, obs, resps):
    out = []
    if "error" in obs:
        model = resps[0] if resps else {}
        if "error" in model and str(model["error"]).startswith("reject"):
            return out      # both refuse (outside the property's quantifier)
        return [dict(kind="spec", clause="raises", detail=obs["error"] + " @" + obs.get("where", ""))]
    model = resps[0]
    if case["t"] == "algebra":
        return _judge_algebra(case, obs, model)
    if case["t"] == "name":
        direct = _name_to_shape(case)
        want = [case["kind"], list(case["specs"])]
        if obs["parsed"] != want:
            out.append(dict(kind="spec", clause="parse-shape-string", detail=f"{_name_string(case)} parsed as {obs['parsed']}"))
        if obs["same_as_direct"] is not True:
            out.append(dict(kind="spec", clause="generator-same-shape",
                            detail=f"generate_mask('{_name_string(case)}', {case['mask_size']}, expansion {case['expansion']}) differs from the direct constructor call "
                                   f"on box {direct['box']}: {obs['same_as_direct']} (returned shape {obs['shape']})"))
        _judge_hard(direct, obs, model, out, "generator")
        return out
    soft = case["gauss"][0] != 0
    if not soft:
        _judge_hard(case, obs, model, out, case["kind"])
        return out
    # ---- soft-edged mask
    box = case["box"]
    if obs["shape"] != list(box):
        return [dict(kind="spec", clause="soft-box", detail=f"returned shape {obs['shape']}, requested {box}")]
    a = _dec_soft(obs["soft"], box)
    if obs["nan"] or obs["min"] < -SOFT_TOL or obs["max"] > 1 + SOFT_TOL:
        out.append(dict(kind="spec", clause="soft-range", detail=f"soft mask leaves [0,1]: min={obs['min']!r} max={obs['max']!r} nan={obs['nan']}"))
    if case.get("outwards", True) and case["kind"] in ("sphere", "cylinder", "ellipsoid"):
        core_exp, _ = _expected(case, blurred=False)
        sel = core_exp == 1
        if sel.any():
            dev = float(np.max(1.0 - a[sel]))
            if not dev <= CORE_TOL:
                v = tuple(int(x) for x in np.argwhere(sel & (1.0 - a > CORE_TOL))[0])
                out.append(dict(kind="spec", clause="soft-core", detail=f"outwards blur sigma={_val(case['gauss'])}: core voxel {v} has value {a[v]!r} (1 - value = {1 - a[v]:.3g} > 1e-3)"))
    if "error" in model:
        out.append(dict(kind="corr", clause="model-rejects", detail=str(model)))
        return out
    from skimage import filters
    pre = _str2arr(model["mask"], box)
    pre_in = pre.astype(bool) if case["kind"] in ("ellipsoid", "e_shell") else pre.astype(np.float64)
    ref = filters.gaussian(pre_in, sigma=_val(case["gauss"]))
    ties = _str2arr(model["ties"], box).astype(bool) if model.get("ties") else None
    dev = np.abs(ref - a)
    if ties is not None and ties.any():
        # a tie voxel may fall either way in floating point; ignore its footprint
        from scipy import ndimage
        rad = int(4 * _val(case["gauss"]) + 0.5)
        foot = ndimage.maximum_filter(ties.astype(np.uint8), size=2 * rad + 1, mode="constant") > 0
        dev = np.where(foot, 0.0, dev)
    if float(dev.max()) > SOFT_TOL:
        v = tuple(int(x) for x in np.argwhere(dev > SOFT_TOL)[0])
        out.append(dict(kind="corr", clause="soft-vs-model", detail=f"soft mask differs from gaussian(model pre-blur mask) by {float(dev.max()):.3g} at {v}"))
    pre_exp, t2 = _expected(case, blurred=True)
    v, n = _first_diff(pre, pre_exp, t2 | (ties if ties is not None else False))
    if v is not None:
        out.append(dict(kind="corr", clause="model-vs-statement", detail=f"pre-blur model mask and documented extension ceil(r+5*sigma) differ at {v} ({n} voxels)"))
    return out


def _judge_algebra(case, obs, model):
    out = []
    shp = case["shape"]
    masks = [np.array([b2f(b) for b in m], dtype=np.float64).reshape(shp) for m in case["masks"]]
    res = np.array([b2f(b) for b in obs["out"]], dtype=np.float64)
    fn = case["fn"]
    if obs["shape"] != list(shp):
        return [dict(kind="spec", clause=f"{fn}-shape", detail=f"result shape {obs['shape']} for inputs {shp}")]
    res = res.reshape(shp)
    if obs["mutated"]:
        out.append(dict(kind="spec", clause=f"{fn}-modifies-input", detail=f"input mask(s) {obs['mutated']} changed by the call"))
    if np.isnan(res).any() or res.min() < 0.0 or res.max() > 1.0:
        out.append(dict(kind="spec", clause=f"{fn}-range", detail=f"result leaves [0,1]: min={res.min()!r} max={res.max()!r}"))
    if case["flavour"] == "binary":
        bs = [m == 1.0 for m in masks]
        any_, all_ = np.logical_or.reduce(bs), np.logical_and.reduce(bs)
        want = {"union": any_, "intersection": all_,
                "subtraction": bs[0] & ~(np.logical_or.reduce(bs[1:]) if len(bs) > 1 else np.zeros(shp, dtype=bool)),
                "difference": (bs[0] ^ bs[1]) if len(bs) == 2 else (any_ & ~all_)}[fn].astype(np.float64)
        v, n = _first_diff(res, want)
        if v is not None:
            out.append(dict(kind="spec", clause=f"{fn}-voxelwise",
                            detail=f"{n} voxel(s) differ from the Boolean combination; first {v}: inputs {[float(m[v]) for m in masks]}, code {float(res[v])}, statement {float(want[v])}"))
    if "error" in model:
        out.append(dict(kind="corr", clause="model-rejects", detail=str(model)))
    elif model["out"] != obs["out"]:
        i = next(i for i, (x, y) in enumerate(zip(model["out"], obs["out"])) if x != y)
        out.append(dict(kind="corr", clause=f"{fn}-vs-model", detail=f"flat voxel {i}: code {b2f(obs['out'][i])!r}, model {b2f(model['out'][i])!r}"))
    return out


# ------------------------------------------------------------------ evidence
def nontrivial(case, obs):
    if "error" in obs:
        return False
    if case["t"] == "algebra":
        vals = set(obs["out"])
        return len(case["masks"]) >= 2 and f2b(0.0) in vals and f2b(1.0) in vals
    if case["t"] == "name":
        return obs.get("mask") is not None and "0" in obs["mask"] and "1" in obs["mask"]
    if case["gauss"][0] != 0:
        return obs["max"] > 0.5 and obs["min"] < 0.5
    m = obs.get("mask") or ""
    if not ("0" in m and "1" in m):
        return False
    box = case["box"]
    a = _str2arr(m, box)
    clipped = bool(a[0].any() or a[-1].any() or a[:, 0].any() or a[:, -1].any() or a[:, :, 0].any() or a[:, :, -1].any())
    return clipped or case.get("center") is not None


def _bucket(n):
    return "6-10" if n <= 10 else ("11-16" if n <= 16 else ("17-28" if n <= 28 else "29-48"))


def stats(case, obs, resps):
    st = {"type": case["t"]}
    if case["t"] == "algebra":
        st.update(fn=case["fn"], n_masks=len(case["masks"]), flavour=case["flavour"])
        return st
    st["kind"] = case["kind"]
    if case["t"] == "name":
        st["name_mask_size"] = "default" if case["mask_size"] is None else "given"
        st["name_expansion"] = case["expansion"]
        return st
    box = case["box"]
    st["box_max"] = _bucket(max(box))
    st["box_form"] = "cubic" if len(set(box)) == 1 else "non-cubic"
    c = case.get("center")
    st["centre"] = "default" if c is None else ("on-face" if any(x == 0 or x == b - 1 for x, b in zip(c, box)) else "interior")
    st["gauss"] = str(_val(case["gauss"]))
    if case["gauss"][0] != 0:
        st["edge_mode"] = "outwards" if case.get("outwards", True) else "centred"
    if case["kind"] in ("sphere", "cylinder") and case.get("radius") is not None:
        r = _fr(case["radius"])
        st["radius_vs_box"] = "beyond" if r >= max(box) else ("> half of min" if 2 * r > min(box) else "inside")
        st["radius_grid"] = "integer" if case["radius"][1] == 1 else "fractional"
    if case["kind"] == "cylinder" and case.get("height") is not None:
        cz = c[2] if c is not None else box[2] // 2
        h = case["height"] // 2
        st["cyl_slab"] = ("clip-lo" if cz - h < 0 else "") + ("clip-hi" if cz + h + 1 > box[2] else "") or "inside"
        st["cyl_height_parity"] = "odd" if case["height"] % 2 else "even"
    if resps and isinstance(resps[0], dict) and resps[0].get("ties"):
        st["ellipsoid_tie_voxels"] = "0" if "1" not in resps[0]["ties"] else ("1-6" if resps[0]["ties"].count("1") <= 6 else ">6")
    if "error" in obs:
        st["impl_error"] = obs["error"][:60]
    return st


def sample_view(case):
    if case["t"] == "algebra":
        return dict(t="algebra", fn=case["fn"], shape=case["shape"], n_masks=len(case["masks"]), flavour=case["flavour"],
                    first_values=[b2f(b) for b in case["masks"][0][:8]])
    return case


def probes(rng):
    """the recorded assumptions about skimage.filters.gaussian, probed on an impulse"""
    from skimage import filters
    out = []
    for sigma in (0.5, 1.0, 2.5, 3.0):
        n = 2 * int(4 * sigma + 0.5) + 9
        imp = np.zeros((n, n, n)); imp[n // 2, n // 2, n // 2] = 1.0
        k = filters.gaussian(imp, sigma=sigma)
        rad = int(4 * sigma + 0.5)
        line = k[:, n // 2, n // 2]
        support = np.nonzero(line)[0]
        ok = (k.min() >= 0 and abs(k.sum() - 1) < 1e-12 and support.min() == n // 2 - rad and support.max() == n // 2 + rad
              and np.allclose(k, k[::-1, ::-1, ::-1], atol=1e-18))
        edge = np.ones((5, 5, 5))
        ok = ok and np.abs(filters.gaussian(edge, sigma=sigma) - 1).max() < 1e-12      # mode='nearest': a full box stays 1
        out.append(dict(name=f"gaussian-kernel-sigma-{sigma}", ok=bool(ok), detail=f"min={k.min():.3g} sum-1={k.sum()-1:.3g} support={support.min()-n//2}..{support.max()-n//2}"))
    return out


def classify(case, obs, finding):
    return None


LEVEL_TEXT = ("Lean 4 theorems about an executable model of cryomask's hard-edged constructors and mask algebra: exact voxel membership of spheres "
              "(distance <= r, also stated with Real.sqrt), cylinders (planar distance <= r and |k-cz| <= floor(h/2), clipped to the box), ellipsoids on even "
              "boxes (sum((i-c)/r)^2 <= 1), shells = outer and not inner, generate_mask = the direct constructor on the documented box size, for all box "
              "sizes, centres and radii; union/intersection/subtraction/difference of any number of {0,1} masks = OR / AND / AND-NOT / (OR and not AND; XOR "
              "for two), results in [0,1] for arbitrary real inputs; convolution with a non-negative unit-sum kernel stays in [0,1] and loses at most the "
              "kernel weight falling outside the solid; the outwards extension contains every point within 5*sigma of the core. Tied to the source by "
              "re-extracted statements of cryomask.py and by a per-voxel differential run of the real functions against the model.")
LEVEL_NOTE = ("the Gaussian filter (skimage) is an external service: [0,1] and the 1e-3 core bound of soft masks are validated per case, their proof is "
              "relative to the kernel being non-negative with unit sum and tail < 1e-3 beyond 5 sigma (probed); 'never modify their inputs' is validated at "
              "run time only; numpy float comparisons are assumed exact on the integer/dyadic grids generated; ellipsoid voxels exactly on the surface "
              "(>= 2 non-zero terms) are excluded as ties")
TECHNIQUE = "Lean 4 proof (order/field reasoning, list induction) + re-extracted source statements + per-voxel differential correspondence"
DESIGN_REF = "DESIGN.md section 4, C13"
