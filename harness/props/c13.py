"""C13 — Masks: analytic shapes and voxel-wise set algebra (DESIGN.md section 4, C13)."""
import ast, re, math, base64, zlib, os, json, random, traceback
from fractions import Fraction
import numpy as np
import core
from core import f2b, b2f

PROP = "C13"
COUNT = {"quick": 500, "thorough": 2000, "search": 900}
PARALLEL = True
REL = "cryocat/cryomask.py"
KINDS = ["sphere", "cylinder", "ellipsoid", "s_shell", "e_shell"]
FNS = ["union", "intersection", "subtraction", "difference"]
BIN_DTYPES = ["float64", "float32", "bool", "uint8", "int8"]
# Tolerances (H4: each follows the conditioning of what is compared; worst legitimate input = box 48^3, sigma = 3, kernel 25^3).
# SOFT_TOL: the real output against skimage.filters.gaussian(model's pre-blur mask, same sigma) - the SAME library routine on identical input,
#   so the expected difference is 0; for the range check a weighted mean with float weights (|sum - 1| <= 3 passes * 25 terms * 2^-53 ~ 1e-14)
#   of values in [0,1] can exceed [0,1] by that much.  1e-12 leaves two orders of magnitude.
# KERNEL_TOL: the real output (three separable passes, float64) against the Lean model (one direct sum of <= 25^3 = 15625 non-negative products of
#   values <= 1): both sums have relative error <= n * 2^-53 <= 15625 * 1.1e-16 = 1.7e-12, the normalisation sums add 2 * 25 * 2^-53; masks are
#   float64 or bool (bool -> float64 exactly), never float32.  1e-10 leaves a factor 50.
# CORE_TOL: the bound 1e-3 named by the statement, compared as written.
SOFT_TOL = 1e-12      # float noise allowed around [0,1] and between impl and gaussian(model pre-blur mask)
KERNEL_TOL = 1e-10    # impl vs the Lean kernel model (direct 3-D sum vs three separable passes)
CORE_TOL = 1e-3       # the property's bound for the core of an outwards-blurred mask (Lean: coreTol)

RULE = ("shape cases: constructor calls (spherical/cylindrical/ellipsoid/_shell masks) on non-cubic boxes 6..16 (quick; plus one hard and one soft box "
        "with sizes up to 48 in every run) / 6..48 (thorough) per axis "
        "(even sizes for ellipsoids), centre default or any integer voxel of the box incl. faces, radii/heights from 1 to beyond the box (heights also as "
        "floats: 6.0, np.float64, h + 0.5; spheres also "
        "quarter/half-integer radii; dedicated streams: radius >= max(box) with a corner centre, heights = 3 mod 4, outward blurs of small ellipsoids "
        "with sigma >= 1.5), Gaussian width 0, {0.5,..,3} or a decimal with 1-3 places in (0,3] with both edge modes; ~30 % of the keywords whose value "
        "is the default are omitted; arguments written as lists, tuples, numpy arrays, scalars (cubic boxes, equal radii) or numpy scalars, angles "
        "explicitly None / zero; every voxel is compared. name cases: parse_shape_string + generate_mask (leading zeros, given/default size and expansion). algebra cases: "
        "union/intersection/subtraction/difference of 1..5 binary masks of dtype float64/float32/bool/uint8/int8 (also mixed, also given as PATHS of MRC "
        "files .mrc/.rec/.st/.ali/.mrc.N written with mrcfile, also built by the "
        "library's constructors) or soft float64/float32 masks. session cases: several calls in ONE process that share caller-owned objects "
        "(the same list and ndarrays through all four functions, rewritten in place between calls; the same shape name for different box sizes; "
        "the same mask_size/center/radii arrays for several constructors). non-trivial = hard mask holding both values with a non-default centre or "
        "clipped by the box, or a soft mask, or an algebra call on >=2 masks whose result holds both 0 and 1, or a session of >= 2 calls; "
        "distinct = distinct case content")
ASSUMPTIONS = [
    "centres are integer voxel coordinates: the docstrings of spherical_mask / cylindrical_mask say `center : array-like ... Type int` and every "
    "constructor gives the example (32, 32, 32); 'centres anywhere in the box' is read as every voxel of the box.  A fractional centre is outside the "
    "quantifier and is not generated (observation, audit 3: get_correct_format cuts it with .astype(int), e.g. center=[3.5]*3 gives the mask of "
    "(3,3,3) - the mechanism of C13-K3)",
    "numpy float64 evaluation of sqrt(d2) > r and of the slab bounds equals exact rational evaluation on integer voxel coordinates and dyadic radii; "
    "for ellipsoids only the voxels exactly on the surface (rational sum == 1) whose float64 sum (z+y)+x of correctly rounded quotients exceeds 1 are "
    "excluded as ties (computed per case, counted in the histograms)",
    "skimage.filters.gaussian is an external service: soft masks are compared (a) with gaussian(model's pre-blur mask) computed by the same library and "
    "(b) at sampled voxels with the Lean kernel model gaussW (radius int(4 sigma + 0.5), weights exp(-0.5/sigma^2 t^2)/sum, mode nearest; Float.exp in the "
    "driver, Real.exp in the theorems); the library's kernel is probed each run on the half-integer widths and on three random decimal widths: non-negative, "
    "unit sum, support, symmetry, product of the model's 1-D weights. The weight beyond 5 sigma <= 1e-3 is PROVED for the model kernel and every width in (0,3] "
    "(gaussian_kernel_tail); the probe of the same quantity on the library's kernel is a cross-check, no longer a hypothesis",
    "numpy float64 +,*,- and np.clip are IEEE-754 and equal Lean Float (compared bit for bit on every algebra case); bool/uint8/int8/float32 inputs "
    "convert exactly to float64",
    "'never modify their inputs' is a runtime aliasing fact: validated on every algebra call by comparing values, dtype and list identity before/after, "
    "not proved; a result sharing memory with an input is reported as a correspondence finding (the model returns a fresh array)",
]
TRUSTED = ["props/c13.py _expected()/_bool_spec(): independent integer/Boolean evaluation of the analytic inequalities and of OR/AND/AND-NOT/XOR (numpy)"]
DOC_BLUR = "5"
DOC_EXPANSION = 4

DOC_SIG = {'parse_shape_string': ['shape_string'],
 'generate_mask': ['mask_shape', 'mask_size=None', 'mask_expansion=4'],
 'add_gaussian': ['input_mask', 'sigma'],
 'rotate': ['input_mask', 'angles'],
 'postprocess': ['input_mask', 'gaussian', 'angles', 'output_name'],
 'union': ['mask_list', 'output_name=None'],
 'intersection': ['mask_list', 'output_name=None'],
 'subtraction': ['mask_list', 'output_name=None'],
 'difference': ['mask_list', 'output_name=None'],
 'spherical_shell_mask': ['mask_size', 'shell_thickness', 'radius=None', 'center=None', 'gaussian=0.0', 'output_name=None'],
 'spherical_mask': ['mask_size', 'radius=None', 'center=None', 'gaussian=0.0', 'gaussian_outwards=True', 'output_name=None'],
 'cylindrical_mask': ['mask_size',
                      'radius=None',
                      'height=None',
                      'center=None',
                      'gaussian=0',
                      'gaussian_outwards=True',
                      'angles=None',
                      'output_name=None'],
 'get_correct_format': ['input_value', 'reference_size=None'],
 'ellipsoid_shell_mask': ['mask_size', 'shell_thickness', 'radii', 'center=None', 'gaussian=0.0', 'angles=None', 'output_name=None'],
 'ellipsoid_mask': ['mask_size', 'radii=None', 'center=None', 'gaussian=0', 'output_name=None', 'angles=None', 'gaussian_outwards=True'],
 'preprocess_params': ['radius', 'gaussian', 'gaussian_outwards'],
 'cryomap_read': ['input_map', 'transpose=True', 'data_type=None'],
 'write_out': ['input_mask', 'output_name'],
 'cryomap_rotate': ['input_map',
                    'rotation=None',
                    'rotation_angles=None',
                    "coord_space='zxz'",
                    'transpose_rotation=False',
                    'degrees=True',
                    'spline_order=3',
                    'output_name=None']}
DOC_BODY = {'parse_shape_string': ["v0={'sphere':'^sphere_r(\\\\d+)$','cylinder':'^cylinder_r(\\\\d+)_h(\\\\d+)$','s_shell':'^s_shell_r(\\\\d+)_s(\\\\d+)$','ellipsoid':'^ellipsoid_rx(\\\\d+)_ry(\\\\d+)_rz(\\\\d+)$','e_shell':'^e_shell_rx(\\\\d+)_ry(\\\\d+)_rz(\\\\d+)_s(\\\\d+)$'}",
                        'for:(v1,v2):v0.items()',
                        'v3=re.match(v2,shape_string)',
                        'if:v3',
                        'v4=[int(v5)forv5inv3.groups()]',
                        'return(v1,v4)',
                        'end',
                        'end',
                        'raiseValueError'],
 'generate_mask': ['v0,v1=parse_shape_string(mask_shape)',
                   'if:mask_sizeisNone',
                   'mask_size=2*np.max(v1)+mask_expansion',
                   'mask_size=math.ceil(mask_size/2)*2',
                   'end',
                   "if:v0=='sphere'",
                   'v2=spherical_mask(mask_size=mask_size,radius=v1[0])',
                   'else:',
                   "if:v0=='cylinder'",
                   'v2=cylindrical_mask(mask_size=mask_size,radius=v1[0],height=v1[1])',
                   'else:',
                   "if:v0=='s_shell'",
                   'mask_size=math.ceil((mask_size+v1[1])/2)*2',
                   'v2=spherical_shell_mask(mask_size=mask_size,shell_thickness=v1[1],radius=v1[0])',
                   'else:',
                   "if:v0=='ellipsoid'",
                   'v2=ellipsoid_mask(mask_size=mask_size,radii=v1)',
                   'else:',
                   "if:v0=='e_shell'",
                   'v2=ellipsoid_shell_mask(mask_size=mask_size,shell_thickness=v1[3],radii=v1[0:3])',
                   'end',
                   'end',
                   'end',
                   'end',
                   'end',
                   'returnv2'],
 'add_gaussian': ['if:sigma==0', 'returninput_mask', 'else:', 'returnfilters.gaussian(input_mask,sigma=sigma)', 'end'],
 'rotate': ['if:anglesisNoneornotnp.any(angles)', 'returninput_mask', 'else:', 'returncryomap.rotate(input_mask,rotation_angles=angles)', 'end'],
 'postprocess': ['v0=add_gaussian(input_mask,gaussian)', 'v0=rotate(v0,angles)', 'write_out(v0,output_name)', 'returnv0'],
 'union': ['v0=np.zeros(cryomap.read(mask_list[0]).shape)',
           'for:v1:mask_list',
           'v2=cryomap.read(v1)',
           'v0+=v2',
           'end',
           'v0=np.clip(v0,0.0,1.0)',
           'write_out(v0,output_name)',
           'returnv0'],
 'intersection': ['v0=np.ones(cryomap.read(mask_list[0]).shape)',
                  'for:v1:mask_list',
                  'v2=cryomap.read(v1)',
                  'v0*=v2',
                  'end',
                  'v0=np.clip(v0,0.0,1.0)',
                  'write_out(v0,output_name)',
                  'returnv0'],
 'subtraction': ['v0=cryomap.read(mask_list[0]).astype(float)',
                 'for:v1:mask_list[1:]',
                 'v2=cryomap.read(v1)',
                 'v0-=v2',
                 'end',
                 'v0=np.clip(v0,0.0,1.0)',
                 'write_out(v0,output_name)',
                 'returnv0'],
 'difference': ['v0=union(mask_list)', 'v1=intersection(mask_list)', 'v2=v0-v1', 'v2=np.clip(v2,0.0,1.0)', 'write_out(v2,output_name)', 'returnv2'],
 'spherical_shell_mask': ['mask_size=get_correct_format(mask_size)',
                          'center=get_correct_format(center,reference_size=mask_size)',
                          'if:radiusisNone',
                          'radius=np.amin(mask_size)//2',
                          'end',
                          'shell_thickness=shell_thickness/2',
                          'v0=spherical_mask(mask_size,radius=radius+shell_thickness,center=center)',
                          'v1=spherical_mask(mask_size,radius=radius-shell_thickness,center=center)',
                          'v2=v0-v1',
                          'v2=postprocess(v2,gaussian,np.asarray([0,0,0]),output_name)',
                          'returnv2'],
 'spherical_mask': ['mask_size=get_correct_format(mask_size)',
                    'center=get_correct_format(center,reference_size=mask_size)',
                    'if:radiusisNone',
                    'radius=np.amin(mask_size)//2',
                    'end',
                    'radius=preprocess_params(radius,gaussian,gaussian_outwards)',
                    'v0,v1,v2=np.mgrid[0:mask_size[0]:1,0:mask_size[1]:1,0:mask_size[2]:1]',
                    'v3=np.sqrt((v0-center[0])**2+(v1-center[1])**2+(v2-center[2])**2)',
                    'v3[v3>radius]=0',
                    'v3[v3>0]=1',
                    'v3[center[0],center[1],center[2]]=1',
                    'v3=postprocess(v3,gaussian,np.asarray([0,0,0]),output_name)',
                    'returnv3'],
 'cylindrical_mask': ['mask_size=get_correct_format(mask_size)',
                      'center=get_correct_format(center,reference_size=mask_size)',
                      'if:radiusisNone',
                      'radius=np.amin(mask_size[:2])//2',
                      'end',
                      'if:heightisNone',
                      'height=mask_size[2]',
                      'end',
                      'height=int(height//2)',
                      'radius=preprocess_params(radius,gaussian,gaussian_outwards)',
                      'height=preprocess_params(height,gaussian,gaussian_outwards)',
                      'v0,v1=np.mgrid[0:mask_size[0]:1,0:mask_size[1]:1]',
                      'v2=np.sqrt((v0-center[0])**2+(v1-center[1])**2)',
                      'v2[v2>radius]=0',
                      'v2[v2>0]=1',
                      'v2[center[0],center[1]]=1',
                      'v3=np.zeros(mask_size)',
                      'v4=max(center[2]-height,0)',
                      'v5=min(center[2]+height+1,mask_size[2])',
                      'if:v5>v4',
                      'v3[:,:,v4:v5]=np.tile(v2[:,:,None],(1,1,v5-v4))',
                      'end',
                      'v3=postprocess(v3,gaussian,angles,output_name)',
                      'returnv3'],
 'get_correct_format': ['def:v0(v1)',
                        'if:isinstance(v1,(tuple,list,np.ndarray))',
                        'if:len(v1)==3',
                        'returnnp.asarray(v1).astype(int)',
                        'else:',
                        'if:len(v1)==1',
                        'returnnp.full((3,),v1).astype(int)',
                        'else:',
                        'raiseValueError',
                        'end',
                        'end',
                        'else:',
                        'if:isinstance(v1,(float,int,np.integer,np.floating))',
                        'returnnp.full((3,),v1).astype(int)',
                        'end',
                        'end',
                        'end',
                        'if:input_valueisnotNone',
                        'v2=v0(input_value)',
                        'else:',
                        'if:reference_sizeisnotNone',
                        'v3=v0(reference_size)',
                        'v2=v3//2',
                        'else:',
                        'raiseValueError',
                        'end',
                        'end',
                        'returnv2'],
 'ellipsoid_shell_mask': ['mask_size=get_correct_format(mask_size)',
                          'center=get_correct_format(center,reference_size=mask_size)',
                          'radii=get_correct_format(radii,reference_size=mask_size)',
                          'shell_thickness=shell_thickness/2',
                          'v0=ellipsoid_mask(mask_size,radii=radii+shell_thickness,center=center)',
                          'v1=ellipsoid_mask(mask_size,radii=radii-shell_thickness,center=center)',
                          'v2=v0&~v1',
                          'v2=postprocess(v2,gaussian,angles,output_name)',
                          'returnv2'],
 'ellipsoid_mask': ['v0=get_correct_format(mask_size)',
                    'center=get_correct_format(center,reference_size=v0)',
                    'radii=get_correct_format(radii,reference_size=v0)',
                    'radii=preprocess_params(radii,gaussian,gaussian_outwards)',
                    'v1=tuple((np.linspace(1,v2,v2)-np.floor(0.5*v2)forv2inv0))',
                    "v1=np.meshgrid(*v1,indexing='ij')",
                    'v3=np.array(v1).reshape(3,-1)[::-1]',
                    'v4=0.5*v0-center',
                    'v4=np.tile(v4.reshape(3,1),(1,v3.shape[1]))',
                    'v3=v3[:,::-1]',
                    'v4=v4[::-1]',
                    'radii=radii[::-1]',
                    'radii=np.tile(radii.reshape(3,1),(1,v3.shape[1]))',
                    'v5=(v3-v4)**2',
                    'v5=v5/radii**2',
                    'v6=np.sum(v5,axis=0).reshape(v0)',
                    'v7=v6<=1',
                    'v7=postprocess(v7,gaussian,angles,output_name)',
                    'returnv7'],
 'preprocess_params': ['v0=5.0',
                       'if:gaussian!=0.0andgaussian_outwards',
                       'v1=np.ceil(radius+gaussian*v0).astype(int)',
                       'else:',
                       'v1=radius',
                       'end',
                       'returnv1'],
 'cryomap_read': ['if:isinstance(input_map,str)',
                  'def:v0(v1)',
                  "v2='\\\\.(mrc|ali|rec|st)(\\\\.\\\\d+)?$'",
                  'returnbool(re.search(v2,v1))',
                  'end',
                  'if:v0(input_map)',
                  'v3=mrcfile.open(input_map).data',
                  'else:',
                  "if:input_map.endswith('.em')",
                  'v3=emfile.read(input_map)[1]',
                  'else:',
                  'raiseValueError',
                  'end',
                  'end',
                  'if:transpose',
                  'v3=v3.transpose(2,1,0)',
                  'end',
                  'else:',
                  'if:isinstance(input_map,np.ndarray)',
                  'v3=np.array(input_map)',
                  'else:',
                  'raiseValueError',
                  'end',
                  'end',
                  'v3=np.array(v3,copy=True)',
                  'if:data_typeisnotNone',
                  'v3=v3.astype(data_type)',
                  'end',
                  'returnv3'],
 'write_out': ['if:output_nameisnotNone', 'cryomap.write(input_mask,output_name,data_type=np.single)', 'end'],
 'cryomap_rotate': ['input_map=read(input_map)',
                    'v0=np.eye(4)',
                    'v1=np.asarray(input_map.shape)//2',
                    'v0[:3,-1]=v1',
                    'v2=np.eye(4)',
                    'if:rotationisnotNone',
                    'if:transpose_rotation',
                    'v2[0:3,0:3]=rotation.as_matrix().T',
                    'else:',
                    'v2[0:3,0:3]=rotation.as_matrix()',
                    'end',
                    'else:',
                    'if:rotation_anglesisnotNone',
                    'v3=srot.from_euler(coord_space,rotation_angles,degrees=degrees)',
                    'v2[0:3,0:3]=v3.as_matrix().T',
                    'else:',
                    'raiseValueError',
                    'end',
                    'end',
                    'v4=v0@v2@np.linalg.inv(v0)',
                    'v5=np.empty(input_map.shape)',
                    'affine_transform(input=input_map,output=v5,matrix=v4,order=spline_order)',
                    'if:output_nameisnotNone',
                    'write(v5,output_name,data_type=np.single)',
                    'end',
                    'returnv5']}
DOC_PATTERNS = ['sphere',
 '^sphere_r(\\d+)$',
 'cylinder',
 '^cylinder_r(\\d+)_h(\\d+)$',
 's_shell',
 '^s_shell_r(\\d+)_s(\\d+)$',
 'ellipsoid',
 '^ellipsoid_rx(\\d+)_ry(\\d+)_rz(\\d+)$',
 'e_shell',
 '^e_shell_rx(\\d+)_ry(\\d+)_rz(\\d+)_s(\\d+)$']
# ------------------------------------------------------------------ translator
FUNCS = [  # (key used in Gen/C13.lean, file, function)
    ("parse_shape_string", REL, "parse_shape_string"), ("generate_mask", REL, "generate_mask"), ("add_gaussian", REL, "add_gaussian"),
    ("rotate", REL, "rotate"), ("postprocess", REL, "postprocess"), ("union", REL, "union"), ("intersection", REL, "intersection"),
    ("subtraction", REL, "subtraction"), ("difference", REL, "difference"), ("spherical_shell_mask", REL, "spherical_shell_mask"),
    ("spherical_mask", REL, "spherical_mask"), ("cylindrical_mask", REL, "cylindrical_mask"), ("get_correct_format", REL, "get_correct_format"),
    ("ellipsoid_shell_mask", REL, "ellipsoid_shell_mask"), ("ellipsoid_mask", REL, "ellipsoid_mask"), ("preprocess_params", REL, "preprocess_params"),
    ("cryomap_read", "cryocat/cryomap.py", "read"),
    # reached by every constructor / algebra call through postprocess (work list 5): write_out must stay a no-op for output_name=None;
    # cryomap.rotate is called by cryomask.rotate for non-zero angles only (outside the quantifier) - looked up so that the binding
    # discipline (one definition, no wrapper/decorator) covers it, body kept as an anchor like cryomap.read
    ("write_out", REL, "write_out"), ("cryomap_rotate", "cryocat/cryomap.py", "rotate"),
]


def _ordered(node):
    """pre-order walk in source order"""
    yield node
    for ch in ast.iter_child_nodes(node):
        yield from _ordered(ch)


LOG_ROOTS = ("print", "warnings", "logging", "logger", "log")


def _strip(fn):
    """H1: drop what a harmless edit may change - type annotations (`x: T = v` becomes `x = v`, a bare `x: T` disappears),
    docstrings, the text of messages: `raise E(<anything>) [from e]` keeps only the exception TYPE, `assert c, msg` loses msg,
    print/warnings/logging calls used as statements lose their arguments."""
    class T(ast.NodeTransformer):
        def visit_arg(self, n):
            n.annotation = None
            return n

        def _fn(self, n):
            n.returns = None
            self.generic_visit(n)
            if n.body and isinstance(n.body[0], ast.Expr) and isinstance(n.body[0].value, ast.Constant) and isinstance(n.body[0].value.value, str):
                n.body = n.body[1:] or [ast.Pass()]
            return n
        visit_FunctionDef = visit_AsyncFunctionDef = _fn

        def visit_AnnAssign(self, n):
            self.generic_visit(n)
            if n.value is None:
                return None
            return ast.copy_location(ast.Assign(targets=[n.target], value=n.value), n)

        def visit_Raise(self, n):
            e = n.exc
            if isinstance(e, ast.Call):
                e = e.func
            return ast.copy_location(ast.Raise(exc=e, cause=None), n)

        def visit_Assert(self, n):
            self.generic_visit(n)
            n.msg = None
            return n

        def visit_Expr(self, n):
            self.generic_visit(n)
            v = n.value
            if isinstance(v, ast.Call):
                root = v.func
                while isinstance(root, ast.Attribute):
                    root = root.value
                if isinstance(root, ast.Name) and root.id in LOG_ROOTS:
                    n.value = ast.Call(func=v.func, args=[], keywords=[])
            return n
    fn = T().visit(fn)
    ast.fix_missing_locations(fn)
    return fn


def _canon(fn, back=None):
    """(signature, body) of a function as lists of strings.  Parameters keep their names (callers use them as
    keywords); every other name bound inside the function (assignment / loop / comprehension targets, inner
    functions and their parameters) is replaced by v0, v1, ... in the order of its first BINDING occurrence, so renaming
    a local variable changes nothing; a name that is bound but never read (`_`, `unused`, ...) is a discard: every such
    occurrence is written `_` and takes no number (H2).  Annotations, docstrings and message texts are stripped first
    (`_strip`, H1).  The body is the complete statement list: `if:`/`else:`/`end`, `for:` ... mark the structure.
    `back` (optional dict) receives canonical name -> original identifier, for diagnostics."""
    import copy
    fn = _strip(copy.deepcopy(fn))
    a = fn.args
    params = [x.arg for x in a.posonlyargs + a.args + a.kwonlyargs] + ([a.vararg.arg] if a.vararg else []) + ([a.kwarg.arg] if a.kwarg else [])
    pos = a.posonlyargs + a.args
    dflt = [None] * (len(pos) - len(a.defaults)) + list(a.defaults)
    sig = [p.arg + ("" if d is None else "=" + core.norm_expr(d)) for p, d in zip(pos, dflt)]
    sig += ["*" + a.vararg.arg] if a.vararg else []
    sig += [p.arg + ("" if d is None else "=" + core.norm_expr(d)) for p, d in zip(a.kwonlyargs, a.kw_defaults)]
    sig += ["**" + a.kwarg.arg] if a.kwarg else []
    loaded = set()
    for st in fn.body:
        for n in _ordered(st):
            if isinstance(n, ast.Name) and isinstance(n.ctx, ast.Load):
                loaded.add(n.id)
            elif isinstance(n, ast.AugAssign) and isinstance(n.target, ast.Name):      # `a += b` reads a
                loaded.add(n.target.id)
            elif isinstance(n, (ast.Global, ast.Nonlocal)):
                loaded.update(n.names)
    names = {}

    def bind(n):
        if n not in params and n not in names:
            if n in loaded:
                names[n] = f"v{sum(1 for v in names.values() if v != '_')}"
            else:
                names[n] = "_"

    for st in fn.body:
        for n in _ordered(st):
            if isinstance(n, ast.Name) and isinstance(n.ctx, (ast.Store, ast.Del)):
                bind(n.id)
            elif isinstance(n, (ast.FunctionDef, ast.AsyncFunctionDef, ast.ClassDef)):
                bind(n.name)
            elif isinstance(n, ast.arg):
                bind(n.arg)
            elif isinstance(n, ast.ExceptHandler) and n.name:
                bind(n.name)
    if back is not None:
        back.update({v: k for k, v in names.items() if v != "_"})
    for st in fn.body:
        for n in _ordered(st):
            if isinstance(n, ast.Name) and n.id in names:
                n.id = names[n.id]
            elif isinstance(n, (ast.FunctionDef, ast.AsyncFunctionDef, ast.ClassDef)) and n.name in names:
                n.name = names[n.name]
            elif isinstance(n, ast.arg) and n.arg in names:
                n.arg = names[n.arg]
            elif isinstance(n, ast.ExceptHandler) and n.name in names:
                n.name = names[n.name]
    lines, cur = [], [getattr(fn, "lineno", 0)]

    class _Rec(list):      # every canonical statement remembers the source line it came from (diagnostics only)
        def append(self, x):
            list.append(self, x)
            lines.append(cur[0])
    out = _Rec()

    def walk(body):
        for st in body:
            cur[0] = getattr(st, "lineno", cur[0])
            if isinstance(st, ast.Expr) and isinstance(st.value, ast.Constant) and isinstance(st.value.value, str):
                continue
            if isinstance(st, (ast.FunctionDef, ast.AsyncFunctionDef)):
                out.append("def:" + st.name + "(" + ",".join(x.arg for x in st.args.args) + ")")
                walk(st.body); out.append("end")
            elif isinstance(st, ast.If):
                out.append("if:" + core.norm_expr(st.test))
                walk(st.body)
                if st.orelse:
                    out.append("else:"); walk(st.orelse)
                out.append("end")
            elif isinstance(st, (ast.For, ast.AsyncFor)):
                out.append("for:" + core.norm_expr(st.target) + ":" + core.norm_expr(st.iter))
                walk(st.body)
                if st.orelse:
                    out.append("else:"); walk(st.orelse)
                out.append("end")
            elif isinstance(st, ast.While):
                out.append("while:" + core.norm_expr(st.test))
                walk(st.body)
                if st.orelse:
                    out.append("else:"); walk(st.orelse)
                out.append("end")
            elif isinstance(st, (ast.With, ast.AsyncWith)):
                out.append("with:" + ",".join(core.norm_expr(i) for i in st.items))
                walk(st.body); out.append("end")
            elif isinstance(st, ast.Try):
                out.append("try:"); walk(st.body)
                for h in st.handlers:
                    out.append("except:" + (core.norm_expr(h.type) if h.type else "") + (":" + h.name if h.name else ""))
                    walk(h.body)
                if st.orelse:
                    out.append("else:"); walk(st.orelse)
                if st.finalbody:
                    out.append("finally:"); walk(st.finalbody)
                out.append("end")
            else:
                out.append(core.norm_expr(st).replace("\n", ""))
    walk(fn.body)
    if back is not None:
        back["__lines__"] = lines
    return sig, list(out)


def _explain(src, rel, fn, key, sig, body, back):
    """first-hand diagnostic for a broken `..._source_documented` obligation: the first canonical statement that differs from the documented
    one, mapped back to the source line (file:line and its text) and to the original identifiers"""
    def orig(t):
        return re.sub(r"\bv\d+\b", lambda m: str(back.get(m.group(0), m.group(0))), t)
    if sig != DOC_SIG[key]:
        raise core.AnchorMissing(f"{rel}: signature of {fn} is now ({', '.join(sig)}), documented ({', '.join(DOC_SIG[key])})")
    doc = DOC_BODY[key]
    i = next((i for i, (x, y) in enumerate(zip(body, doc)) if x != y), min(len(body), len(doc)))
    lines = back.get("__lines__") or []
    ln = lines[i] if i < len(lines) else (lines[-1] if lines else 0)
    try:
        text = src.text(rel).splitlines()[ln - 1].strip() if ln else ""
    except Exception:
        text = ""
    now = orig(body[i]) if i < len(body) else "<end of function>"
    was = doc[i] if i < len(doc) else "<end of function>"
    raise core.AnchorMissing(f"{rel}:{ln}: `{text}` - canonical statement {i + 1} of {fn} is now `{now}`, documented `{was}` "
                             f"({len(body)} statements now, {len(doc)} documented)")


def _blur_factor(body, back=None):
    """structural: the multiplier X of np.ceil(radius + gaussian * X); a literal, or a local bound to a literal.
    `back`: canonical -> original identifier (H2: messages quote what the source says)"""
    back = back or {}
    for s in body:
        m = re.search(r"np\.ceil\(radius\+gaussian\*([\w.]+)\)", s)
        if m:
            x = m.group(1)
            if re.fullmatch(r"v\d+", x):
                for t in body:
                    mm = re.fullmatch(re.escape(x) + r"=([-+\d.eE]+)", t)
                    if mm:
                        x = mm.group(1); break
                else:
                    bound = [t for t in body if t.startswith(x + "=")]
                    raise core.AnchorMissing(f"preprocess_params: `{back.get(x, x)}` (the multiplier of gaussian in np.ceil(radius + gaussian * ...)) is not bound to "
                                             f"a numeric literal" + (f"; found `{bound[0].replace(x, back.get(x, x), 1)}`" if bound else ""))
            try:
                return Fraction(x)
            except Exception:
                raise core.AnchorMissing(f"preprocess_params: multiplier `{back.get(x, x)}` in np.ceil(radius + gaussian * ...) is not a number")
    raise core.AnchorMissing("preprocess_params: the statement `np.ceil(radius + gaussian * <factor>)` was not found; body now reads: "
                             + " | ".join(body)[:300])


def _patterns(src):
    node = src.find(REL, "parse_shape_string")
    for st in node.body:
        if isinstance(st, ast.Assign) and isinstance(st.value, ast.Dict):
            d = src.literal(st.value)
            if isinstance(d, dict) and d and all(isinstance(k, str) and isinstance(v, str) for k, v in d.items()):
                return [x for kv in d.items() for x in kv]
    raise core.AnchorMissing("parse_shape_string: <name> = {str: str literal}")


def _labels(flat):
    """compile `^lit(\\d+)lit(\\d+)...$` into its literal pieces"""
    out = []
    for name, pat in zip(flat[0::2], flat[1::2]):
        if not (pat.startswith("^") and pat.endswith("$")):
            raise core.AnchorMissing(f"pattern {pat!r} is not anchored ^...$")
        pieces = pat[1:-1].split(r"(\d+)")
        if pieces[-1] != "" or len(pieces) < 2 or not all(re.fullmatch(r"[a-z_]+", p) for p in pieces[:-1]):
            raise core.AnchorMissing(f"pattern {pat!r} is not of the form ^label(\\d+)...(\\d+)$")
        out.append((name, pieces[:-1]))
    return out


def _lean_labels(labels):
    def chars(s):
        return "[" + ", ".join("'" + c + "'" for c in s) + "]"
    return "[" + ", ".join("(" + core.lean_str(n) + ", [" + ", ".join(chars(p) for p in ps) + "])" for n, ps in labels) + "]"


def translate(src):
    sigs, bodies, backs = {}, {}, {}
    for key, rel, fn in FUNCS:
        backs[key] = {}
        v = src.anchor(f"{fn}:signature+body" if key != "cryomap_rotate" else "cryomap.rotate:signature+body", lambda: _canon(src.find(rel, fn), backs[key]))
        if isinstance(v, tuple):
            sigs[key], bodies[key] = v
        else:
            sigs[key], bodies[key] = DOC_SIG[key], DOC_BODY[key]      # documented value, the anchor is recorded as missing
    for key, rel, fn in FUNCS:      # work list round 7, item 5: say WHERE a body left its documented form (only when it did)
        if key in backs and (bodies[key] != DOC_BODY[key] or sigs[key] != DOC_SIG[key]):
            src.anchor(f"{fn if key != 'cryomap_rotate' else 'cryomap.rotate'}:as-documented",
                       lambda key=key, rel=rel, fn=fn: _explain(src, rel, fn, key, sigs[key], bodies[key], backs[key]))
    bf = src.anchor("preprocess_params:blur_factor", lambda: str(_blur_factor(bodies["preprocess_params"], backs["preprocess_params"])))
    fr = Fraction(bf) if bf is not None else Fraction(DOC_BLUR)

    def expansion():
        for s in sigs["generate_mask"]:
            m = re.fullmatch(r"mask_expansion=(\d+)", s)
            if m:
                return int(m.group(1))
        raise core.AnchorMissing("generate_mask(..., mask_expansion=<int>)")

    exp = src.anchor("generate_mask:mask_expansion-default", expansion)
    pp = src.anchor("parse_shape_string:patterns", lambda: _patterns(src))
    pp = pp if isinstance(pp, list) else DOC_PATTERNS
    lab = src.anchor("parse_shape_string:labels", lambda: [[n] + ps for n, ps in _labels(pp)])
    labels = [(x[0], x[1:]) for x in lab] if isinstance(lab, list) else _labels(DOC_PATTERNS)
    lines = [f"-- GENERATED by harness/props/c13.py from {REL}; do not edit",
             "namespace CryoCat.Gen.C13",
             f"def anchorsOk : Bool := {'true' if src.ok else 'false'}",
             f"def blurFactorNum : Int := {fr.numerator}",
             f"def blurFactorDen : Nat := {fr.denominator}",
             f"def maskExpansionDefault : Nat := {exp if isinstance(exp, int) and exp >= 0 else DOC_EXPANSION}",
             f"def parsePatterns : List String := {core.lean_str_list(pp)}",
             f"def shapeLabels : List (String × List (List Char)) := {_lean_labels(labels)}"]
    for key, _, _ in FUNCS:
        lines.append(f"def sig_{key} : List String := {core.lean_str_list(sigs[key])}")
        lines.append(f"def body_{key} : List String := {core.lean_str_list(bodies[key])}")
    lines.append("end CryoCat.Gen.C13")
    return "\n".join(lines) + "\n"


# ------------------------------------------------------------------ helpers
def _val(nd):
    """[num, den] -> python number as a user would pass it (int when integral)"""
    if nd is None:
        return None
    n, d = nd
    return int(n // d) if n % d == 0 else n / d


def _fr(nd):
    return Fraction(nd[0], nd[1])


def _enc_soft(a):
    return base64.b64encode(zlib.compress(np.ascontiguousarray(a, dtype=np.float64).tobytes(), 1)).decode()


def _dec_soft(s, shape):
    return np.frombuffer(zlib.decompress(base64.b64decode(s)), dtype=np.float64).reshape(shape)


def _enc_hard(a):
    """0/1/-1 array -> string; None if other values occur"""
    v = np.asarray(a)
    if v.dtype == bool:
        v = v.astype(np.int8)
    flat = v.ravel()
    ok = np.isin(flat, (0, 1, -1)).all()
    if not ok:
        return None
    lut = np.array(list("m01"))
    return "".join(lut[(flat.astype(np.int64) + 1)])


def _str2arr(s, shape):
    a = np.frombuffer(s.encode(), dtype=np.uint8)
    out = np.where(a == ord("1"), 1, np.where(a == ord("0"), 0, np.where(a == ord("m"), -1, 9))).astype(np.int8)
    return out.reshape(shape)


def _where(e):
    """innermost traceback frame inside the library ('' when the exception never passed through /cryocat/)"""
    for fr in reversed(traceback.extract_tb(e.__traceback__)):
        if "/cryocat/" in fr.filename:
            return f"{os.path.basename(fr.filename)}:{fr.lineno}"
    return ""


def _err(e):
    return {"error": f"{type(e).__name__}: {str(e)[:300]}", "where": _where(e)}


def _raised(obs, model, outside_quantifier=False):
    """findings for an observation that is an exception (G4: only a frame inside /cryocat/ makes it the library's)"""
    if not obs.get("where"):
        return [dict(kind="corr", clause="harness-or-library-raised", detail=f"{obs['error']} (no traceback frame inside /cryocat/)")]
    if isinstance(model, dict) and str(model.get("error", "")).startswith("reject"):
        return []      # the model says the real code raises here (outside the property's quantifier)
    if outside_quantifier:
        return [dict(kind="corr", clause="raises-where-model-does-not", detail=obs["error"] + " @" + obs["where"])]
    return [dict(kind="spec", clause="raises", detail=obs["error"] + " @" + obs["where"])]


# ------------------------------------------------------------------ the statement, evaluated independently (integers)
def _sphere(box, c, r):
    """voxels with distance <= r (r a Fraction >= 0)"""
    i, j, k = np.indices(box, dtype=np.int64)
    d2 = (i - c[0]) ** 2 + (j - c[1]) ** 2 + (k - c[2]) ** 2
    if r < 0:
        return np.zeros(box, dtype=bool)
    return d2 * r.denominator ** 2 <= r.numerator ** 2


def _cylinder(box, c, r, height):
    i, j, k = np.indices(box, dtype=np.int64)
    d2 = (i - c[0]) ** 2 + (j - c[1]) ** 2
    disc = (d2 * r.denominator ** 2 <= r.numerator ** 2) if r >= 0 else np.zeros(box, dtype=bool)
    return disc & (np.abs(k - c[2]) <= height // 2)


def _ellipsoid(box, c, radii):
    """(inside, tie): sum((i-c)/r)^2 <= 1 decided in integers on even boxes, for radii > 0 that are integers or half-integers (ints or
    Fractions).  tie = voxels exactly on the surface where the outcome may depend on rounding: for integer radii those whose IEEE double
    evaluation of the same sum (correctly rounded quotients, added z, y, x) lands above 1; for fractional radii every surface voxel"""
    i, j, k = np.indices(box, dtype=np.int64)
    fr = [Fraction(r) for r in radii]
    assert all(r > 0 and r.denominator <= 2 for r in fr), radii
    (px, qx), (py, qy), (pz, qz) = [(r.numerator, r.denominator) for r in fr]
    a, b, cc = (i - c[0]) ** 2 * (qx * qx), (j - c[1]) ** 2 * (qy * qy), (k - c[2]) ** 2 * (qz * qz)
    lhs = a * (py * py * pz * pz) + b * (px * px * pz * pz) + cc * (px * px * py * py)
    rhs = px * px * py * py * pz * pz
    on = lhs == rhs
    if on.any() and qx == qy == qz == 1:
        fl = (cc.astype(np.float64) / float(pz * pz) + b.astype(np.float64) / float(py * py)) + a.astype(np.float64) / float(px * px)
        tie = on & ~(fl <= 1.0)
    else:
        tie = on
    return lhs <= rhs, tie


def _defaults(case):
    box = case["box"]
    c = case["center"] if case.get("center") is not None else [b // 2 for b in box]
    return box, c


def _grow(r, g, outwards):
    """documented radius extension of an outwards blur: ceil(r + 5*sigma)"""
    if g != 0 and outwards:
        return Fraction(math.ceil(r + 5 * g))
    return r


def _frac_radii(case):
    """does the call ask for an ellipsoid with a non-integer radius?  (ellipsoid_mask with fractional radii; ellipsoid_shell_mask with an odd
    thickness: radii r +- t/2)"""
    if case["kind"] == "ellipsoid":
        return case.get("radii") is not None and any(_fr(x).denominator != 1 for x in case["radii"])
    if case["kind"] == "e_shell":
        return (_fr(case["thick"]) / 2).denominator != 1
    return False


def _expected(case, blurred, doc=False):
    """(mask int8 array, ties bool array).  doc=False, blurred=False: the solid demanded by the STATEMENT (analytic inequality with the
    requested radii).  blurred=True: the extended (pre-blur) solid of the documented construction.  doc=True: the documented construction of
    the code where it differs from the statement - ellipsoid radii are cut to integers by get_correct_format (`.astype(int)`), see C13-K3"""
    box, c = _defaults(case)
    kind = case["kind"]
    g = _fr(case["gauss"]) if blurred else Fraction(0)
    ow = case.get("outwards", True)
    no_ties = np.zeros(box, dtype=bool)
    cut = doc or blurred
    if kind == "sphere":
        r = _fr(case["radius"]) if case.get("radius") is not None else Fraction(min(box) // 2)
        return _sphere(box, c, _grow(r, g, ow)).astype(np.int8), no_ties
    if kind == "cylinder":
        r = _fr(case["radius"]) if case.get("radius") is not None else Fraction(min(box[:2]) // 2)
        h = case["height"] if case.get("height") is not None else box[2]
        half = _grow(Fraction(h // 2), g, ow)
        return _cylinder(box, c, _grow(r, g, ow), 2 * int(half)).astype(np.int8), no_ties
    if kind == "ellipsoid":
        rr = [_fr(x) for x in case["radii"]] if case.get("radii") is not None else [Fraction(b // 2) for b in box]
        if cut:
            rr = [_grow(Fraction(int(x)), g, ow) for x in rr]
        m, t = _ellipsoid(box, c, rr)
        return m.astype(np.int8), t
    if kind == "s_shell":
        r = _fr(case["radius"]) if case.get("radius") is not None else Fraction(min(box) // 2)
        t = _fr(case["thick"]) / 2
        return (_sphere(box, c, r + t).astype(np.int8) - _sphere(box, c, r - t).astype(np.int8)), no_ties
    if kind == "e_shell":
        rr = [Fraction(int(_fr(x))) for x in case["radii"]] if case.get("radii") is not None else [Fraction(b // 2) for b in box]
        t = _fr(case["thick"]) / 2
        mo, to = _ellipsoid(box, c, [Fraction(int(x + t)) if cut else x + t for x in rr])
        mi, ti = _ellipsoid(box, c, [Fraction(int(x - t)) if cut else x - t for x in rr])
        return (mo & ~mi).astype(np.int8), to | ti
    raise ValueError(kind)


def _name_to_shape(case):
    """the constructor call the shape string stands for, with the documented box-size arithmetic"""
    specs, kind = case["specs"], case["kind"]
    s = case["mask_size"]
    if s is None:
        s = 2 * max(specs) + case["expansion"]
        s = -(-s // 2) * 2
    out = dict(t="shape", kind=kind, center=None, radius=None, height=None, radii=None, thick=[0, 1], gauss=[0, 1], outwards=True)
    if kind == "sphere":
        out.update(radius=[specs[0], 1])
    elif kind == "cylinder":
        out.update(radius=[specs[0], 1], height=specs[1])
    elif kind == "s_shell":
        s = -(-(s + specs[1]) // 2) * 2
        out.update(radius=[specs[0], 1], thick=[specs[1], 1])
    elif kind == "ellipsoid":
        out.update(radii=[[x, 1] for x in specs])
    elif kind == "e_shell":
        out.update(radii=[[x, 1] for x in specs[:3]], thick=[specs[3], 1])
    out["box"] = [s, s, s]
    return out


def _name_string(case):
    k, s = case["kind"], case["specs"]
    pad = case.get("zeros") or [0] * len(s)
    txt = ["0" * z + str(v) for v, z in zip(s, pad)]
    return {"sphere": "sphere_r{}", "cylinder": "cylinder_r{}_h{}", "s_shell": "s_shell_r{}_s{}", "ellipsoid": "ellipsoid_rx{}_ry{}_rz{}",
            "e_shell": "e_shell_rx{}_ry{}_rz{}_s{}"}[k].format(*txt) + ("\n" if case.get("newline") else "")


def _bool_spec(fn, bs):
    """the statement: OR, AND, AND-NOT, XOR (of all the masks: parity) voxel by voxel; dtype-free (Boolean arrays in, Boolean array out)"""
    if fn == "union":
        return np.logical_or.reduce(bs)
    if fn == "intersection":
        return np.logical_and.reduce(bs)
    if fn == "subtraction":
        return bs[0] & ~(np.logical_or.reduce(bs[1:]) if len(bs) > 1 else np.zeros(bs[0].shape, dtype=bool))
    if fn == "difference":
        return np.logical_xor.reduce(bs)
    raise ValueError(fn)


# ------------------------------------------------------------------ generators
def _box(rng, tier, even, soft=False):
    hi = {"quick": 16, "thorough": 48, "search": 14}[tier]
    if tier == "thorough" and (soft or rng.random() < 0.6):
        k = rng.random()
        hi = 28 if k < 0.8 else (36 if k < 0.96 or not soft else 48)
    if rng.random() < 0.12:
        n = rng.randint(6, hi)
        dims = [n, n, n]
    else:
        dims = [rng.randint(6, hi) for _ in range(3)]
    if even:
        dims = [d + (d % 2) if d < hi else d - (d % 2) for d in dims]
    return dims


def _radius(rng, box, frac=False):
    m = max(box)
    k = rng.random()
    if k < 0.25:
        r = rng.randint(1, 3)
    elif k < 0.75:
        r = rng.randint(1, max(2, min(box) // 2 + 1))
    elif k < 0.9:
        r = rng.randint(min(box) // 2, m)
    else:
        r = rng.randint(m, m + m // 2 + 3)   # beyond the box
    if frac and rng.random() < 0.25:
        return [4 * r + rng.choice([1, 2, 3]), 4]
    return [r, 1]


def _centre(rng, box):
    k = rng.random()
    if k < 0.3:
        return None
    if k < 0.45:   # on faces / corners
        return [rng.choice([0, b - 1, rng.randrange(b)]) for b in box]
    if k < 0.6:    # near the middle
        return [min(b - 1, max(0, b // 2 + rng.randint(-2, 2))) for b in box]
    return [rng.randrange(b) for b in box]


def _gauss(rng):
    """width 0 (62 %), the half-integer grid 0.5..3, or a decimal with 1-3 places in (0, 3] (H3: off the dyadic grid)"""
    if rng.random() < 0.62:
        return [0, 1], True
    if rng.random() < 0.5:
        return [rng.choice([1, 2, 3, 4, 5, 6]), 2], rng.random() < 0.6
    n, d = rng.choice([(rng.randint(1, 30), 10), (rng.randint(1, 60), 20), (rng.randint(5, 300), 100), (rng.randint(50, 3000), 1000)])
    return [n, d], rng.random() < 0.6


def _grown_values(case):
    """the numbers handed to preprocess_params by the constructor (radius / half height / radii), as Fractions"""
    box = case["box"]
    kind = case["kind"]
    if kind == "sphere":
        return [_fr(case["radius"]) if case.get("radius") is not None else Fraction(min(box) // 2)]
    if kind == "cylinder":
        r = _fr(case["radius"]) if case.get("radius") is not None else Fraction(min(box[:2]) // 2)
        h = case["height"] if case.get("height") is not None else box[2]
        return [r, Fraction(h // 2)]
    if kind == "ellipsoid":
        return [Fraction(int(_fr(x))) for x in case["radii"]] if case.get("radii") is not None else [Fraction(b // 2) for b in box]
    return []


def _ceil_is_stable(case):
    """np.ceil(radius + gaussian * 5.0) in float64 equals the exact ceil(r + 5 sigma) of the decimal width the case names (it can differ
    only when r + 5 sigma is an integer and the float product lands just above it: such a tie depends on rounding and is not generated)"""
    g = case["gauss"]
    if g[0] == 0 or not case.get("outwards", True):
        return True
    gf, gq = g[0] / g[1], _fr(g)
    return all(math.ceil(float(r) + gf * 5.0) == math.ceil(r + 5 * gq) for r in _grown_values(case))


FORM_KEYS = ("mask_size", "center", "radii", "radius", "height", "gaussian", "angles")


def _forms(rng, case):
    """H3: how the caller writes the arguments - tuples / numpy arrays / scalars (cubic boxes, equal radii) / numpy scalars instead of
    lists and Python numbers; `angles` explicitly None / zero (list or array) where the constructor has the keyword.  A key that is
    absent means: list / Python number / keyword omitted."""
    f = {}
    box, kind = case["box"], case["kind"]
    if rng.random() < 0.45:
        opts = ["tuple", "array"] + (["scalar", "scalar", "list1", "npint", "array1"] if len(set(box)) == 1 else [])
        f["mask_size"] = rng.choice(opts)
    if case.get("center") is not None and rng.random() < 0.4:
        f["center"] = rng.choice(["tuple", "array"])
    if case.get("radii") is not None and rng.random() < 0.45:
        rr = [tuple(x) for x in case["radii"]]
        f["radii"] = rng.choice(["tuple", "array"] + (["scalar", "npint"] if len(set(rr)) == 1 and rr[0][1] == 1 else []))
    if case.get("radius") is not None and rng.random() < 0.25:
        f["radius"] = "np"
    if case.get("height") is not None and rng.random() < 0.45:
        f["height"] = rng.choice(["np", "float", "float", "npfloat", "half"])
    if case["gauss"][0] != 0 and rng.random() < 0.3:
        f["gaussian"] = "int" if case["gauss"][0] % case["gauss"][1] == 0 and rng.random() < 0.5 else "np"
    if kind in ("cylinder", "ellipsoid", "e_shell") and rng.random() < 0.3:
        f["angles"] = rng.choice(["none", "zeros", "list"])
    return f



def _omit(rng, case):
    """G1: a keyword whose value is the signature default is left out of the call in ~30 % of the cases"""
    kind = case["kind"]
    el = []
    if case.get("center") is None:
        el.append("center")
    if kind in ("sphere", "cylinder", "s_shell") and case.get("radius") is None:
        el.append("radius")
    if kind == "cylinder" and case.get("height") is None:
        el.append("height")
    if kind == "ellipsoid" and case.get("radii") is None:
        el.append("radii")
    if case["gauss"][0] == 0:
        el.append("gaussian")
    if kind in ("sphere", "cylinder", "ellipsoid") and case.get("outwards", True):
        el.append("gaussian_outwards")
    return sorted(k for k in el if rng.random() < 0.3)


def _blank(kind, box, g=(0, 1), ow=True):
    return dict(t="shape", kind=kind, box=list(box), center=None, radius=None, height=None, radii=None, thick=[0, 1], gauss=list(g), outwards=ow)


def _shape_case(rng, tier, hard=False, box=None, kinds=None):
    k = rng.random()
    if box is None and kinds is None and not hard:
        if k < 0.04:
            return _oversize_case(rng, tier)
        if k < 0.08:
            return _cyl34_case(rng, tier)
        if k < 0.13:
            return _ell_out_case(rng, tier)
        if k < 0.15:
            return _offbox_centre_case(rng, tier)
    kind = rng.choices(KINDS, weights=[26, 26, 22, 13, 13])[0] if kinds is None else rng.choice(kinds)
    g, ow = ([0, 1], True) if hard else _gauss(rng)
    soft = g[0] != 0
    if box is None:
        box = _box(rng, tier, even=kind in ("ellipsoid", "e_shell"), soft=soft)
    case = _blank(kind, box, g, ow)
    case["center"] = _centre(rng, box)
    if kind == "sphere":
        case["radius"] = None if rng.random() < 0.08 else _radius(rng, box, frac=True)
    elif kind == "cylinder":
        case["radius"] = None if rng.random() < 0.08 else _radius(rng, box, frac=True)
        k = rng.random()
        case["height"] = None if k < 0.08 else (rng.randint(1, 5) if k < 0.3 else (rng.randint(1, box[2] + 8) if k < 0.85 else rng.randint(box[2], 2 * box[2] + 6)))
    elif kind == "ellipsoid":
        case["radii"] = None if rng.random() < 0.08 else [_radius(rng, box) for _ in range(3)]
        if case["radii"] is not None and not soft and rng.random() < 0.15:      # H3: radii off the integer grid (half-integers)
            case["radii"] = [[2 * r[0] + 1, 2] if rng.random() < 0.6 else r for r in case["radii"]]
    elif kind == "s_shell":
        r = None if rng.random() < 0.08 else _radius(rng, box)
        case["radius"] = r
        r0 = r[0] if r is not None else min(box) // 2
        t = rng.randint(1, max(1, min(2 * r0, 8)))     # inner radius r - t/2 >= 0
        case["thick"] = [t, 1]
        case["outwards"] = True
    elif kind == "e_shell":
        rr = [[max(2, _radius(rng, box)[0]), 1] for _ in range(3)]
        case["radii"] = rr
        t = rng.randint(1, max(1, min(2 * min(x[0] for x in rr) - 2, 8)))   # inner radii int(r - t/2) >= 1
        case["thick"] = [t, 1]
        case["outwards"] = True
    for _ in range(20):
        if _ceil_is_stable(case):
            break
        case["gauss"] = _gauss(rng)[0] if not hard else [0, 1]
        if case["gauss"][0] == 0:
            case["gauss"] = [1, 2]
    else:
        case["gauss"] = [1, 2]
    case["omit"] = _omit(rng, case)
    if kinds is None:
        case["forms"] = _forms(rng, case)
    return case


def _big_case(rng, soft):
    """work list 5: one box with sizes up to the quantifier's bound 48 in every run (also in quick)"""
    kind = rng.choice(KINDS if not soft else ["sphere", "cylinder", "ellipsoid"])
    even = kind in ("ellipsoid", "e_shell")
    box = [rng.choice([48, 48, rng.randint(40, 48), rng.randint(20, 48)]) for _ in range(3)]
    if even:
        box = [b - b % 2 for b in box]
    case = _shape_case(rng, "thorough", hard=not soft, box=box, kinds=[kind])
    if soft:
        case["gauss"], case["outwards"] = [rng.choice([2, 3, 5, 6]), 2] if rng.random() < 0.5 else [rng.randint(30, 300), 100], rng.random() < 0.7
        if kind == "ellipsoid" and case.get("radii") is not None:      # keep it off the open finding K2 (elongated cores)
            m = max(4, min(x[0] for x in case["radii"]))
            case["radii"] = [[min(x[0], 2 * m), 1] for x in case["radii"]]
        if not _ceil_is_stable(case):
            case["gauss"] = [3, 2]
    case["omit"] = _omit(rng, case)
    case["forms"] = _forms(rng, case)
    return case


def _oversize_case(rng, tier):
    """radius at least the largest box dimension, centre near a corner: some corner of the box is still farther away"""
    kind = "sphere" if rng.random() < 0.7 else "s_shell"
    box = _box(rng, tier, even=False)
    c = [rng.choice([0, 1, b - 1, b - 2]) for b in box]
    far = math.isqrt(sum(max(x, b - 1 - x) ** 2 for x, b in zip(c, box)))
    m = max(box)
    r = rng.randint(m, max(m, far))
    case = _blank(kind, box)
    case["center"] = c
    if kind == "sphere":
        case["radius"] = [r, 1] if rng.random() < 0.8 else [4 * r + rng.choice([1, 2, 3]), 4]
    else:
        t = rng.choice([2, 4, 6])
        case["radius"] = [max(1, r - t // 2), 1]      # outer radius = r
        case["thick"] = [t, 1]
    case["omit"] = _omit(rng, case)
    case["forms"] = _forms(rng, case)
    return case


def _cyl34_case(rng, tier):
    """heights 3, 7, 11, 15, ... (h/2 = x.5 with x odd) with both end slices inside the box"""
    box = _box(rng, tier, even=False)
    hs = [h for h in range(3, box[2] - 1, 4)] or [3]
    h = rng.choice(hs)
    lo, hi = h // 2 + 1, box[2] - h // 2 - 2
    case = _blank("cylinder", box)
    case["height"] = h
    case["radius"] = _radius(rng, box, frac=True)
    c = _centre(rng, box)
    if c is not None and lo <= hi:
        c[2] = rng.randint(lo, hi)
    case["center"] = c
    case["omit"] = _omit(rng, case)
    case["forms"] = _forms(rng, case)
    return case


def _ell_out_case(rng, tier):
    """small ellipsoid, blurred outwards with a wide Gaussian, in a box that leaves room for the extension"""
    hi = {"quick": 16, "thorough": 36, "search": 14}[tier]
    box = [rng.choice([hi - 2, hi]) if rng.random() < 0.7 else 2 * rng.randint(4, hi // 2) for _ in range(3)]
    case = _blank("ellipsoid", box, [rng.choice([3, 4, 5, 6]), 2] if rng.random() < 0.6 else [rng.randint(150, 300), 100], True)
    case["radii"] = [[rng.randint(1, 3), 1] for _ in range(3)]
    if not _ceil_is_stable(case):
        case["gauss"] = [3, 2]
    case["center"] = None if rng.random() < 0.5 else [b // 2 + rng.randint(-1, 1) for b in box]
    case["omit"] = _omit(rng, case)
    case["forms"] = _forms(rng, case)
    return case


def _offbox_centre_case(rng, tier):
    """OUTSIDE the quantifier (centres in the box): negative centre indices wrap in numpy, indices beyond the box raise;
    judged against the model only"""
    kind = rng.choice(["sphere", "cylinder", "s_shell"])
    box = _box(rng, "quick" if tier != "search" else tier, even=False)
    c = [rng.randrange(b) for b in box]
    ax = rng.randrange(3 if kind != "cylinder" else 2)
    c[ax] = rng.choice([-1, -2, -box[ax], -box[ax] - 1, box[ax], box[ax] + 3, -rng.randint(1, box[ax])])
    case = _blank(kind, box)
    case["center"] = c
    case["radius"] = [rng.randint(1, max(box)), 1]
    if kind == "cylinder":
        case["height"] = rng.randint(1, box[2] + 4)
    if kind == "s_shell":
        case["thick"] = [rng.randint(1, min(2 * case["radius"][0], 6)), 1]
    case["extra"] = "centre-outside-box"
    case["omit"] = []
    return case


def _name_case(rng, tier, kind=None, specs=None):
    kind = kind or rng.choice(KINDS)
    hi = {"quick": 6, "thorough": 20, "search": 5}[tier]
    n = {"sphere": 1, "cylinder": 2, "s_shell": 2, "ellipsoid": 3, "e_shell": 4}[kind]
    if specs is None:
        specs = [rng.randint(1, hi) for _ in range(n)]
        if kind == "cylinder" and rng.random() < 0.3:
            specs[1] = rng.choice([3, 7, 11, 15])
        if kind == "s_shell":
            specs[1] = rng.randint(1, max(1, min(2 * specs[0], 8)))
        if kind == "e_shell":
            specs = [max(2, s) for s in specs[:3]] + [rng.randint(1, max(1, min(2 * min(max(2, s) for s in specs[:3]) - 2, 8)))]
    ms = None
    if rng.random() < 0.4:
        ms = rng.randint(6, {"quick": 16, "thorough": 40, "search": 14}[tier])
        if kind in ("ellipsoid", "e_shell"):
            ms += ms % 2
    e = rng.choice([4, 4, 4, 0, 1, 3, 6])
    omit = sorted(k for k, isdef in (("mask_size", ms is None), ("mask_expansion", e == 4)) if isdef and rng.random() < 0.5)
    case = dict(t="name", kind=kind, specs=list(specs), mask_size=ms, expansion=e, omit=omit)
    if rng.random() < 0.1:
        case["zeros"] = [rng.choice([0, 1, 2]) for _ in specs]
    if rng.random() < 0.03:
        case["newline"] = True
    return case


def _vals(rng, n, flavour, dtype, prev):
    """n float64 bit patterns of values exactly representable in `dtype`"""
    if flavour == "binary":
        style = rng.random()
        if style < 0.1 and prev:
            v = [b2f(b) for b in prev[rng.randrange(len(prev))]]
        elif style < 0.2 and prev:
            v = [1.0 - b2f(b) for b in prev[rng.randrange(len(prev))]]
        elif style < 0.27:
            v = [rng.choice([0.0, 1.0])] * n
        else:
            p = rng.choice([0.15, 0.5, 0.85])
            v = [1.0 if rng.random() < p else 0.0 for _ in range(n)]
    else:
        if rng.random() < 0.5:
            v = [rng.choice([0.0, 1.0, rng.random(), rng.randint(0, 16) / 16.0]) for _ in range(n)]
        else:
            v = [rng.random() for _ in range(n)]
        if dtype == "float32":
            v = [float(np.float32(x)) for x in v]
    return [f2b(x) for x in v]


def _pool(rng, shape, k, flavour):
    n = int(np.prod(shape))
    if flavour == "soft":
        dts = [rng.choice(["float64", "float64", "float32"]) for _ in range(k)]
    elif rng.random() < 0.5:
        dts = [rng.choice(BIN_DTYPES)] * k
    else:
        dts = [rng.choice(BIN_DTYPES) for _ in range(k)]
    masks, prev = [], []
    for m in range(k):
        if flavour == "soft" and prev and rng.random() < 0.15:
            bits = _vals(rng, n, "binary", dts[m], [])
        else:
            bits = _vals(rng, n, flavour if flavour != "ctor" else "binary", dts[m], prev if flavour != "soft" else [])
        prev.append(bits)
        masks.append(dict(dtype=dts[m], bits=bits))
    return masks


def _algebra_case(rng, tier):
    hi = {"quick": 8, "thorough": 12, "search": 6}[tier]
    k = rng.choice([1, 2, 2, 2, 3, 3, 4, 5])
    f = rng.random()
    flavour = "binary" if f < 0.5 else ("soft" if f < 0.75 else "ctor")
    if rng.random() < 0.01:
        return dict(t="algebra", fn=rng.choice(FNS), shape=[2, 2, 2], flavour="binary", masks=[], explicit_none=False, extra="empty-list")
    if flavour == "ctor":
        shape = [2 * rng.randint(3, max(3, hi // 2)) for _ in range(3)]
        masks = _pool(rng, shape, k, "ctor")
        for i in range(k):
            if rng.random() < 0.7 or i == 0:
                masks[i] = dict(ctor=_shape_case(rng, tier, hard=True, box=shape, kinds=KINDS))
    else:
        shape = [rng.randint(2, hi) for _ in range(3)]
        masks = _pool(rng, shape, k, flavour)
    for m in masks:
        if "bits" in m and rng.random() < 0.2:
            m["layout"] = rng.choice(["F", "view"])
    if flavour != "ctor" and rng.random() < 0.18:      # audit 3: mask operands given as PATHS of MRC files (float32 / int8 are the dtypes MRC stores)
        for m in masks:
            if rng.random() < 0.6:
                m["dtype"] = "float32" if flavour == "soft" or rng.random() < 0.6 else "int8"
                m["bits"] = [f2b(float(np.float32(b2f(b)))) for b in m["bits"]]
                m.pop("layout", None)
                m["path"] = rng.choice(PATH_EXTS)
    return dict(t="algebra", fn=rng.choice(FNS), shape=shape, flavour=flavour, masks=masks, explicit_none=rng.random() < 0.3,
                container="tuple" if rng.random() < 0.2 else "list")


def _session_case(rng, tier):
    tier = "quick" if tier == "thorough" else tier      # sessions are about state carried between calls, not about size
    k = rng.random()
    if k < 0.4:      # one list of arrays through several functions, rewritten in place between the calls
        hi = {"quick": 6, "thorough": 10, "search": 5}[tier]
        shape = [rng.randint(2, hi) for _ in range(3)]
        flavour = "binary" if rng.random() < 0.7 else "soft"
        pool = _pool(rng, shape, rng.choice([2, 2, 3, 4]), flavour)
        steps = []
        for s in range(rng.choice([2, 3, 3, 4])):
            st = dict(fn=rng.choice(FNS))
            if s > 0 and rng.random() < 0.5:
                i = rng.randrange(len(pool))
                st["rewrite"] = dict(i=i, bits=_vals(rng, int(np.prod(shape)), flavour, pool[i]["dtype"], []))
            steps.append(st)
        return dict(t="session", mode="algebra", shape=shape, flavour=flavour, masks=pool, steps=steps)
    if k < 0.75:     # the same shape name for different boxes
        first = _name_case(rng, tier)
        steps = [first]
        sizes = [first["mask_size"]]
        for _ in range(rng.choice([1, 2, 2, 3])):
            nxt = _name_case(rng, tier, kind=first["kind"], specs=first["specs"])
            if nxt["mask_size"] in sizes and nxt["expansion"] == first["expansion"]:
                nxt["mask_size"] = (max(s or 0 for s in sizes) or 10) + 2 * rng.randint(1, 3)
                nxt["omit"] = [o for o in nxt["omit"] if o != "mask_size"]
            sizes.append(nxt["mask_size"])
            steps.append(nxt)
            if rng.random() < 0.25:
                steps.append(_name_case(rng, tier))
        return dict(t="session", mode="name", steps=steps)
    # the same mask_size / center arrays for several constructors
    even = rng.random() < 0.5
    box = _box(rng, "quick" if tier != "search" else tier, even=even)
    kinds = KINDS if even else ["sphere", "cylinder", "s_shell"]
    centre = _centre(rng, box)
    steps = []
    for _ in range(rng.choice([2, 2, 3])):
        st = _shape_case(rng, tier, hard=rng.random() < 0.8, box=box, kinds=kinds)
        if st["gauss"][0] != 0 and max(box) > 16:
            st["gauss"] = [0, 1]
        st["center"] = centre
        st["omit"] = [o for o in _omit(rng, st)]
        steps.append(st)
    return dict(t="session", mode="shape", box=box, center=centre, steps=steps)


def generate(rng, tier, n):
    for i in range(n):
        if i < 2 and tier != "search":
            yield _big_case(rng, soft=bool(i))
            continue
        k = rng.random()
        if k < 0.56:
            yield _shape_case(rng, tier)
        elif k < 0.66:
            yield _name_case(rng, tier)
        elif k < 0.88:
            yield _algebra_case(rng, tier)
        else:
            yield _session_case(rng, tier)


def search_cases(rng, broken, anchors):
    """inputs derived from what broke: for every constructor / function named by a broken obligation or a missing anchor a systematic sweep of
    small boxes (every centre class, radii / heights from 1 to beyond the box, both edge modes), plus the shape names and all four set operations"""
    names = " ".join([str(o.get("name", "")) + " " + str(o.get("detail", "")) for o in (broken or [])] +
                     [str(a.get("name", "")) for a in (anchors or []) if not a.get("ok", True)]).lower()
    kinds = [k for k, key in (("sphere", "spher"), ("cylinder", "cylind"), ("ellipsoid", "ellips"), ("s_shell", "shell"), ("e_shell", "shell")) if key in names]
    if any(w in names for w in ("format", "preprocess", "postprocess", "gaussian", "write_out", "rotate", "defaults", "anchors_ok", "blur")) or not kinds:
        kinds = list(KINDS)
    for kind in kinds:
        for _ in range(60):
            yield _shape_case(rng, "search", box=_box(rng, "search", even=kind in ("ellipsoid", "e_shell")), kinds=[kind])
        for _ in range(25):
            c = _shape_case(rng, "search", box=_box(rng, "search", even=kind in ("ellipsoid", "e_shell")), kinds=[kind])
            c["forms"] = _forms(rng, c)
            yield c
    if any(w in names for w in ("generat", "parse", "label", "pattern", "expansion")) or kinds == list(KINDS):
        for kind in KINDS:
            for _ in range(12):
                yield _name_case(rng, "search", kind=kind)
    if any(w in names for w in ("algebra", "union", "intersection", "subtraction", "difference", "read", "specvox")) or kinds == list(KINDS):
        for _ in range(80):
            yield _algebra_case(rng, "search")


def shrink(case):
    if case["t"] == "session":
        # a session is kept a session of >= 2 calls (module-level state left behind by EARLIER cases of the same run must not
        # make a single call look failing: the stored replay has to fail in a fresh process)
        st = case["steps"]

        def ok(steps):
            if len(steps) < 2:
                return False
            if case["mode"] == "name":      # still the same name for two different boxes
                f = steps[0]
                return len({(s["mask_size"], s["expansion"]) for s in steps if s["kind"] == f["kind"] and s["specs"] == f["specs"]}) >= 2
            return True
        cands = [st[:-1], [st[0], st[-1]]]
        if case["mode"] != "algebra" or not (len(st) > 1 and st[1].get("rewrite")):
            cands.append(st[1:])
        for c in cands:
            if len(c) < len(st) and ok(c):
                yield dict(case, steps=c)
        return
    if case["t"] == "algebra":
        ms = case["masks"]
        if len(ms) > 1:
            for i in range(len(ms)):
                if not (case["fn"] == "subtraction" and i == 0 and len(ms) == 2):
                    yield dict(case, masks=ms[:i] + ms[i + 1:])
        if any("ctor" in m for m in ms):
            return
        shp = case["shape"]
        for ax in range(3):
            if shp[ax] > 1:
                new = list(shp); new[ax] = shp[ax] // 2 if shp[ax] > 3 else shp[ax] - 1
                def cut(m):
                    a = np.array(m["bits"], dtype=np.uint64).reshape(shp)
                    sl = [slice(None)] * 3; sl[ax] = slice(0, new[ax])
                    return dict(m, bits=[int(x) for x in a[tuple(sl)].ravel()])
                yield dict(case, shape=new, masks=[cut(m) for m in ms])
        if case.get("container") == "tuple":
            yield dict(case, container="list")
        if any(m.get("path") for m in ms):
            yield dict(case, masks=[{k: v for k, v in m.items() if k != "path"} for m in ms])
        if any(m.get("layout") for m in ms):
            yield dict(case, masks=[{k: v for k, v in m.items() if k != "layout"} for m in ms])
        for i, m in enumerate(ms):
            if m["dtype"] != "float64" and not m.get("path"):
                yield dict(case, masks=ms[:i] + [dict(m, dtype="float64")] + ms[i + 1:])
        return
    if case["t"] == "name":
        if case["mask_size"] is not None:
            yield dict(case, mask_size=None)
        if case["expansion"] != 4:
            yield dict(case, expansion=4)
        if case.get("zeros"):
            yield dict(case, zeros=None)
        if case.get("omit"):
            yield dict(case, omit=[])
        for i, s in enumerate(case["specs"]):
            if s > 2:
                sp = list(case["specs"]); sp[i] = max(2, s // 2)
                yield dict(case, specs=sp)
        return
    even = case["kind"] in ("ellipsoid", "e_shell")
    box = case["box"]
    if case.get("forms"):
        yield dict(case, forms={})
        for k in case["forms"]:
            yield dict(case, forms={k: case["forms"][k]})
    if case["gauss"][0] != 0:
        yield dict(case, gauss=[0, 1], omit=[])
        if case["gauss"][1] not in (1, 2):
            yield dict(case, gauss=[max(1, round(2 * case["gauss"][0] / case["gauss"][1])), 2])
    if case.get("omit"):
        yield dict(case, omit=[])
    for ax in range(3):
        for nb in (6, box[ax] // 2, box[ax] - (2 if even else 1)):
            nb += nb % 2 if even else 0
            if 6 <= nb < box[ax]:
                new = list(box); new[ax] = nb
                c = case.get("center")
                if c is not None:
                    c = list(c); c[ax] = min(c[ax], nb - 1)
                fm = {k: v for k, v in (case.get("forms") or {}).items() if k != "mask_size" or v in ("tuple", "array")}
                yield dict(case, box=new, center=c, forms=fm)
    if case.get("center") is not None and not case.get("extra"):
        yield dict(case, center=None)
    if case.get("radius") is not None and case["radius"][0] > case["radius"][1]:
        r = case["radius"]
        yield dict(case, radius=[max(1, (r[0] // r[1]) // 2), 1])
        if r[1] != 1:
            yield dict(case, radius=[r[0] // r[1], 1])
    if case.get("height") is not None and case["height"] > 1:
        yield dict(case, height=max(1, case["height"] // 2))
        yield dict(case, height=case["height"] - 1)
    if case.get("radii") is not None and case["kind"] == "ellipsoid":
        for i in range(3):
            if case["radii"][i][0] > 1:
                rr = [list(x) for x in case["radii"]]; rr[i] = [max(1, rr[i][0] // 2), 1]
                yield dict(case, radii=rr, forms={k: v for k, v in (case.get("forms") or {}).items() if k != "radii" or v in ("tuple", "array")})


# ------------------------------------------------------------------ implementation
def _as_form(v, form):
    """a 3-vector the way the caller writes it"""
    if v is None:
        return None
    if form == "tuple":
        return tuple(v)
    if form == "array":
        return np.array(v)
    if form == "scalar":
        return v[0]
    if form == "npint":
        return np.int64(v[0])
    if form == "list1":
        return [v[0]]
    if form == "array1":
        return np.array([v[0]])
    return list(v)


def _num_form(x, form):
    if x is None or form is None:
        return x
    if form == "np":
        return np.int64(x) if isinstance(x, int) else np.float64(x)
    if form == "int":
        return int(x)
    if form == "float":                  # H3 / audit 3: a height written 6.0 or computed as 0.5 * box
        return float(x)
    if form == "npfloat":
        return np.float64(x)
    if form == "half":                   # a non-integer height h + 0.5: the statement's floor(h/2) is unchanged, floor((h + 1/2)/2) = floor(h/2)
        return float(x) + 0.5            # (Lean: half_height_of_fractional)
    return x


def _call_shape(cm, case, box_arg=None, centre_arg=None):
    kind, box = case["kind"], case["box"]
    forms = case.get("forms") or {}
    g = _val(case["gauss"])
    if g != 0 and forms.get("gaussian") != "int":
        g = float(g)
    g = _num_form(g, forms.get("gaussian"))
    ow = case.get("outwards", True)
    omit = set(case.get("omit") or [])
    size = _as_form(list(box), forms.get("mask_size")) if box_arg is None else box_arg
    c = case.get("center")
    kw = dict(center=_as_form(c, forms.get("center")) if centre_arg is None else centre_arg, gaussian=g)
    default = dict(center=None, gaussian=0, gaussian_outwards=True, radius=None, height=None, radii=None)
    radius = _num_form(_val(case.get("radius")), forms.get("radius"))
    height = _num_form(case.get("height"), forms.get("height"))
    radii = _as_form([_val(x) for x in case["radii"]], forms.get("radii")) if case.get("radii") is not None else None
    if kind == "sphere":
        fn, args = cm.spherical_mask, (size,)
        kw.update(radius=radius, gaussian_outwards=ow)
    elif kind == "cylinder":
        fn, args = cm.cylindrical_mask, (size,)
        kw.update(radius=radius, height=height, gaussian_outwards=ow)
    elif kind == "ellipsoid":
        fn, args = cm.ellipsoid_mask, (size,)
        kw.update(radii=radii, gaussian_outwards=ow)
    elif kind == "s_shell":
        fn, args = cm.spherical_shell_mask, (size, _val(case["thick"]))
        kw.update(radius=radius)
    elif kind == "e_shell":
        fn, args = cm.ellipsoid_shell_mask, (size, _val(case["thick"]), radii)
    else:
        raise ValueError(kind)
    if forms.get("angles") and kind in ("cylinder", "ellipsoid", "e_shell"):
        kw["angles"] = {"none": None, "zeros": np.zeros(3), "list": [0, 0, 0]}[forms["angles"]]
    for k in omit:
        if k in kw:
            if not (kw[k] is None if default[k] is None else kw[k] == default[k]):
                raise RuntimeError(f"harness: keyword {k} omitted although its value {kw[k]!r} is not the default")
            del kw[k]
    return fn(*args, **kw)


def _observe(out, soft):
    arr = np.asarray(out)
    obs = dict(shape=list(arr.shape), dtype=str(arr.dtype), pytype=type(out).__name__)
    if arr.dtype.kind not in "biuf":      # G3: a mask must come back numeric
        obs["nonnumeric"] = repr(arr.ravel()[:3].tolist())[:120]
        return obs
    if soft:
        a = arr.astype(np.float64)
        obs.update(soft=_enc_soft(a), min=float(a.min()), max=float(a.max()), nan=bool(np.isnan(a).any()))
    else:
        obs["mask"] = _enc_hard(arr)
        if obs["mask"] is None:
            a = arr.astype(np.float64)
            obs.update(min=float(a.min()), max=float(a.max()))
    return obs


def _run_name(cm, case):
    name = _name_string(case)
    omit = set(case.get("omit") or [])
    kw = {}
    if "mask_size" not in omit or case["mask_size"] is not None:
        kw["mask_size"] = case["mask_size"]
    if "mask_expansion" not in omit or case["expansion"] != 4:
        kw["mask_expansion"] = case["expansion"]
    parsed = cm.parse_shape_string(name)
    out = cm.generate_mask(name, **kw)
    obs = _observe(out, False)
    try:
        obs["parsed"] = [parsed[0], [x if isinstance(x, (int, str, float)) and not isinstance(x, bool) else (int(x) if isinstance(x, np.integer) else repr(x)) for x in parsed[1]]]
        obs["parsed_types"] = [type(parsed).__name__, type(parsed[0]).__name__, type(parsed[1]).__name__] + [type(x).__name__ for x in parsed[1]]
    except Exception as e:
        obs["parsed"] = repr(parsed)[:200]
        obs["parsed_types"] = [type(parsed).__name__]
    direct = _name_to_shape(case)
    try:
        d = np.asarray(_call_shape(cm, direct))
        obs["same_as_direct"] = bool(d.shape == np.asarray(out).shape and np.array_equal(d, out))
    except Exception as e:
        obs["same_as_direct"] = f"direct call raised {type(e).__name__}: {e}"
    return obs


def _build_mask(cm, m, shape):
    if "ctor" in m:
        return np.asarray(_call_shape(cm, m["ctor"]))
    a = np.array([b2f(b) for b in m["bits"]], dtype=np.float64).reshape(shape).astype(m["dtype"])
    lay = m.get("layout")
    if lay == "F":                       # H3: a transposed / Fortran-ordered volume
        a = np.asfortranarray(a)
    elif lay == "view":                  # a strided view into a larger volume (every second slice of the caller's array)
        big = np.zeros((2 * shape[0], shape[1], shape[2]), dtype=a.dtype)
        big[::2] = a
        a = big[::2]
    return a


def _bits(a):
    return [f2b(x) for x in np.asarray(a, dtype=np.float64).ravel()]


PATH_EXTS = [".mrc", ".mrc", ".rec", ".st", ".ali", ".mrc.2"]      # the suffixes cryomap.read sends to mrcfile


def _operands(masks, specs):
    """the operands as the caller passes them: arrays, or (spec field "path" = file suffix) the PATH of an MRC file holding the mask - the
    documented second form of a mask operand (cryomap.read: str -> mrcfile.open(...).data transposed (2,1,0)).  The file is written with
    mrcfile directly (not with the library), data transposed so that reading gives the intended array back."""
    tmp, ops = None, []
    for i, (a, m) in enumerate(zip(masks, specs)):
        if m.get("path"):
            import tempfile, mrcfile
            if tmp is None:
                tmp = tempfile.mkdtemp(prefix="c13_")
            p = os.path.join(tmp, f"mask{i}{m['path']}")
            with mrcfile.new(p, overwrite=True) as f:
                f.set_data(np.ascontiguousarray(a.transpose(2, 1, 0)))
            ops.append(p)
        else:
            ops.append(a)
    return ops, tmp


def _files_changed(ops, masks):
    """'never modify their inputs' for file operands: the file still holds the mask"""
    out = []
    for i, (o, a) in enumerate(zip(ops, masks)):
        if isinstance(o, str):
            try:
                import mrcfile
                with mrcfile.open(o, permissive=True) as f:
                    ok = np.array_equal(np.asarray(f.data).transpose(2, 1, 0), a)
            except Exception:
                ok = False
            if not ok:
                out.append(f"file{i}")
    return out


def _call_algebra(cm, fn, lst, masks, explicit_none=False):
    """one call; caller-owned list and arrays are compared before/after"""
    before = [m.copy() for m in masks]
    ids = [id(x) for x in lst]
    pre = dict(inputs=[_bits(m) for m in masks], in_dtypes=[str(m.dtype) for m in masks])
    try:
        out = getattr(cm, fn)(lst, output_name=None) if explicit_none else getattr(cm, fn)(lst)
    except Exception as e:
        obs = _err(e)
        obs.update(pre)
        obs["mutated"] = _mutated(masks, before, lst, ids)
        return obs, None
    arr = np.asarray(out)
    obs = dict(shape=list(arr.shape), dtype=str(arr.dtype), pytype=type(out).__name__, **pre)
    if arr.dtype.kind not in "biuf":
        obs["nonnumeric"] = repr(arr.ravel()[:3].tolist())[:120]
    else:
        obs["out"] = _bits(arr)
    obs["mutated"] = _mutated(masks, before, lst, ids)
    obs["aliases_input"] = bool(any(np.shares_memory(arr, m) for m in masks))
    obs["same_object"] = bool(any(out is m for m in masks))
    return obs, arr


def _mutated(masks, before, lst, ids):
    mut = [i for i, (a, b) in enumerate(zip(masks, before)) if a.dtype != b.dtype or a.shape != b.shape or not np.array_equal(a, b, equal_nan=a.dtype.kind == "f")]
    if len(lst) != len(ids) or any(id(x) != y for x, y in zip(lst, ids)):
        mut.append("list")
    return mut


def _run_session(cm, case):
    steps = []
    if case["mode"] == "name":
        for st in case["steps"]:
            try:
                steps.append(_run_name(cm, st))
            except Exception as e:
                steps.append(_err(e))
        return dict(steps=steps)
    if case["mode"] == "shape":
        box = np.array(case["box"], dtype=np.int64)
        centre = np.array(case["center"], dtype=np.int64) if case.get("center") is not None else None
        for st in case["steps"]:
            b0, c0 = box.copy(), (None if centre is None else centre.copy())
            try:
                o = _observe(_call_shape(cm, st, box_arg=box, centre_arg=centre), st["gauss"][0] != 0)
            except Exception as e:
                o = _err(e)
            o["args_changed"] = [n for n, a, b in (("mask_size", box, b0), ("center", centre, c0)) if a is not None and not np.array_equal(a, b)]
            steps.append(o)
            box[...] = b0
            if centre is not None:
                centre[...] = c0
        return dict(steps=steps)
    shape = case["shape"]
    masks = [_build_mask(cm, m, shape) for m in case["masks"]]
    lst = list(masks)
    outs = []
    for st in case["steps"]:
        if st.get("rewrite"):      # the caller legitimately rewrites one of ITS arrays in place
            rw = st["rewrite"]
            masks[rw["i"]][...] = np.array([b2f(b) for b in rw["bits"]], dtype=np.float64).reshape(shape).astype(masks[rw["i"]].dtype)
        o, arr = _call_algebra(cm, st["fn"], lst, masks)
        if arr is not None:
            o["aliases_earlier_result"] = bool(any(np.shares_memory(arr, p) for p, _ in outs))
            outs.append((arr, arr.copy()))
        o["earlier_result_changed"] = [i for i, (p, q) in enumerate(outs[:-1] if arr is not None else outs) if not np.array_equal(p, q, equal_nan=True)]
        steps.append(o)
    return dict(steps=steps)


def run_impl(case):
    import warnings
    warnings.filterwarnings("ignore")
    from cryocat import cryomask as cm
    if case["t"] == "shape":
        return _observe(_call_shape(cm, case), case["gauss"][0] != 0)
    if case["t"] == "name":
        return _run_name(cm, case)
    if case["t"] == "algebra":
        shp = case["shape"]
        masks = [_build_mask(cm, m, shp) for m in case["masks"]]
        ops, tmp = _operands(masks, case["masks"])
        try:
            obs = _call_algebra(cm, case["fn"], tuple(ops) if case.get("container") == "tuple" else list(ops), masks, case.get("explicit_none", False))[0]
            changed = _files_changed(ops, masks)
            if changed:
                obs["mutated"] = list(obs.get("mutated") or []) + changed
            return obs
        finally:
            if tmp is not None:
                import shutil
                shutil.rmtree(tmp, ignore_errors=True)
    if case["t"] == "session":
        return _run_session(cm, case)
    raise ValueError(case["t"])


# ------------------------------------------------------------------ model requests
def _probe_voxels(case):
    """voxels at which the Lean kernel model is evaluated: core voxels (the outermost ones first), faces/corners, random ones"""
    box, c = _defaults(case)
    rnd = random.Random(json.dumps(case, sort_keys=True, default=str))
    vox = set()
    try:
        core_exp, _ = _expected(case, blurred=False)
        idx = np.argwhere(core_exp == 1)
        if len(idx):
            d = ((idx - np.array(c)) ** 2).sum(axis=1)
            for t in np.argsort(-d)[:6]:
                vox.add(tuple(int(x) for x in idx[t]))
            for _ in range(4):
                vox.add(tuple(int(x) for x in idx[rnd.randrange(len(idx))]))
    except Exception:
        pass
    for _ in range(4):
        vox.add(tuple(rnd.choice([0, b - 1]) for b in box))
    for _ in range(10):
        vox.add(tuple(rnd.randrange(b) for b in box))
    return sorted(vox)


def _req_shape(case):
    r = dict(op="shape", kind=case["kind"], box=case["box"], center=case.get("center"), radius=case.get("radius"), height=case.get("height"),
             radii=case.get("radii"), thick=case["thick"], gauss=case["gauss"], outwards=case.get("outwards", True))
    if case["gauss"][0] != 0:
        r["probe"] = [list(v) for v in _probe_voxels(case)]
    return r


def _req_name(case):
    return [dict(op="generate", kind=case["kind"], specs=case["specs"], mask_size=case["mask_size"], expansion=case["expansion"]),
            dict(op="parse", name=_name_string(case))]


def _req_algebra(fn, masks_spec, obs):
    if isinstance(obs, dict) and "inputs" in obs:
        ins = obs["inputs"]
    elif all("bits" in m for m in masks_spec):
        ins = [m["bits"] for m in masks_spec]
    else:
        ins = None
    return [dict(op="algebra", fn=fn, masks=ins)] if ins is not None else [dict(op="algebra", fn="none", masks=[])]


def requests(case, obs):
    if case["t"] == "shape":
        return [_req_shape(case)]
    if case["t"] == "name":
        return _req_name(case)
    if case["t"] == "algebra":
        return _req_algebra(case["fn"], case["masks"], obs)
    out = []
    sobs = obs.get("steps") if isinstance(obs, dict) else None
    for i, st in enumerate(case["steps"]):
        o = sobs[i] if sobs and i < len(sobs) else None
        if case["mode"] == "name":
            out += _req_name(st)
        elif case["mode"] == "shape":
            out.append(_req_shape(st))
        else:
            out += _req_algebra(st["fn"], [dict(nobits=1)], o)
    return out


# ------------------------------------------------------------------ judgement
def _first_diff(a, b, skip=None):
    d = a != b
    if skip is not None:
        d &= ~skip
    idx = np.argwhere(d)
    return (None, 0) if len(idx) == 0 else (tuple(int(x) for x in idx[0]), len(idx))


def _numeric(obs, out, label):
    if "nonnumeric" in obs:
        out.append(dict(kind="spec", clause=f"{label}-not-numeric", detail=f"returned array of dtype {obs['dtype']} ({obs['nonnumeric']}): a mask must hold numbers"))
        return False
    return True


def _judge_hard(case, obs, model, out, label, spec_ok=True):
    """case: a shape case (gauss 0); obs: observation of a hard mask.  spec_ok=False: outside the quantifier, model comparison only"""
    box = case["box"]
    if not _numeric(obs, out, label):
        return
    if obs["shape"] != list(box):
        out.append(dict(kind="spec", clause=f"{label}-box", detail=f"returned shape {obs['shape']}, requested box {box}"))
        return
    if obs.get("mask") is None:
        out.append(dict(kind="spec", clause=f"{label}-not-binary", detail=f"hard-edged mask holds values other than 0/1: min={obs.get('min')} max={obs.get('max')}"))
        return
    impl = _str2arr(obs["mask"], box)
    exp, ties = _expected(case, blurred=False)
    frac = _frac_radii(case)
    dexp, dties = _expected(case, blurred=False, doc=True) if frac else (exp, ties)
    if spec_ok:
        v, n = _first_diff(impl, exp, ties)
        if v is not None:
            c = _defaults(case)[1]
            det = (f"{n} voxel(s) differ from the analytic inequality; first {v}: code {int(impl[v])}, statement {int(exp[v])} "
                   f"(box {box}, centre {c}, radius {case.get('radius')}, height {case.get('height')}, radii {case.get('radii')}, thick {case.get('thick')})")
            if frac and _first_diff(impl, dexp, dties)[0] is None:
                # exactly the solid with every radius cut to its integer part: the open finding C13-K3 (and nothing else)
                out.append(dict(kind="spec", clause="ellipsoid-radii-truncated", known="C13-K3",
                                detail="non-integer ellipsoid radii are cut to their integer part (get_correct_format .astype(int)): " + det))
            else:
                out.append(dict(kind="spec", clause=f"{label}-membership", detail=det))
    if "error" in model:
        out.append(dict(kind="corr", clause="model-rejects", detail=str(model)))
        return
    mm = _str2arr(model["mask"], box) if model["box"] == list(box) else None
    if mm is None:
        out.append(dict(kind="corr", clause="model-box", detail=f"model box {model['box']} vs {box}"))
        return
    mt = _str2arr(model["ties"], box).astype(bool) if model.get("ties") else np.zeros(box, dtype=bool)
    if (dties & ~mt).any():
        out.append(dict(kind="corr", clause="tie-sets", detail="a voxel where float and exact evaluation differ is not on the model's exact surface"))
    v, n = _first_diff(impl, mm, dties)
    if v is not None:
        out.append(dict(kind="corr", clause=f"{label}-vs-model", detail=f"{n} voxel(s) differ from the Lean model; first {v}: code {int(impl[v])}, model {int(mm[v])}"))
    if spec_ok:
        v, n = _first_diff(mm, dexp)
        if v is not None:
            out.append(dict(kind="corr", clause="model-vs-statement", detail=f"Lean model and the independent evaluation {'of the documented construction ' if frac else ''}differ at {v} ({n} voxels)"))


def _judge_name(case, obs, resps):
    out = []
    model = resps[0] if resps else {}
    pmodel = resps[1] if len(resps) > 1 else {}
    if "error" in obs:
        return _raised(obs, model)
    direct = _name_to_shape(case)
    name = _name_string(case)
    want = [case["kind"], list(case["specs"])]
    if obs["parsed"] != want:
        out.append(dict(kind="spec", clause="parse-shape-string", detail=f"{name!r} parsed as {obs['parsed']}, expected {want}"))
    elif obs["parsed_types"][:3] != ["tuple", "str", "list"] or any(t not in ("int", "int64", "int32") for t in obs["parsed_types"][3:]):
        out.append(dict(kind="spec", clause="parse-returns-non-integer", detail=f"{name!r}: returned types {obs['parsed_types']} (dimensions must be integers)"))
    if "error" in pmodel or [pmodel.get("kind"), pmodel.get("specs")] != (obs["parsed"] if isinstance(obs["parsed"], list) else None):
        out.append(dict(kind="corr", clause="parse-vs-model", detail=f"{name!r}: code {obs['parsed']}, Lean parser {pmodel}"))
    elif pmodel.get("format") != _name_string(dict(case, zeros=None, newline=False)):
        out.append(dict(kind="corr", clause="model-format", detail=f"Lean formatShape gives {pmodel.get('format')!r} for {want}"))
    if obs.get("same_as_direct") is not True:
        out.append(dict(kind="corr", clause="generator-vs-direct-constructor",
                        detail=f"generate_mask({name!r}, {case['mask_size']}, expansion {case['expansion']}) differs from the library's own direct constructor call "
                               f"on box {direct['box']}: {obs.get('same_as_direct')} (returned shape {obs['shape']})"))
    _judge_hard(direct, obs, model, out, "generator")
    return out


def _foot(ties, sigma):
    from scipy import ndimage
    rad = int(4 * sigma + 0.5)
    return ndimage.maximum_filter(ties.astype(np.uint8), size=2 * rad + 1, mode="constant") > 0


def _judge_shape(case, obs, model):
    out = []
    outside = bool(case.get("extra"))
    if "error" in obs:
        return _raised(obs, model, outside_quantifier=outside)
    if outside and "error" in model:
        return [dict(kind="corr", clause="model-rejects-where-code-returns", detail=f"{model} but the code returned an array of shape {obs.get('shape')}")]
    soft = case["gauss"][0] != 0
    if not soft:
        _judge_hard(case, obs, model, out, case["kind"], spec_ok=not outside)
        return out
    # ---- soft-edged mask
    box = case["box"]
    if not _numeric(obs, out, "soft"):
        return out
    if obs["shape"] != list(box):
        return [dict(kind="spec", clause="soft-box", detail=f"returned shape {obs['shape']}, requested {box}")]
    sigma = _val(case["gauss"])
    a = _dec_soft(obs["soft"], box)
    if obs["nan"] or obs["min"] < -SOFT_TOL or obs["max"] > 1 + SOFT_TOL:
        out.append(dict(kind="spec", clause="soft-range", detail=f"soft mask leaves [0,1]: min={obs['min']!r} max={obs['max']!r} nan={obs['nan']}"))
    from skimage import filters
    core_finding = None
    if case.get("outwards", True) and case["kind"] in ("sphere", "cylinder", "ellipsoid"):
        core_exp, _ = _expected(case, blurred=False)
        sel = core_exp == 1
        if sel.any():
            dev = float(np.max(1.0 - a[sel]))
            if not dev <= CORE_TOL:
                v = tuple(int(x) for x in np.argwhere(sel & ~(1.0 - a <= CORE_TOL))[0])
                core_finding = dict(kind="spec", clause="soft-core", detail=f"{case['kind']} blurred outwards, sigma={sigma}: core voxel {v} has value {float(a[v])!r} "
                                    f"(1 - value = {1 - a[v]:.3g} > 1e-3; box {box}, radius {case.get('radius')}, height {case.get('height')}, radii {case.get('radii')})")
                out.append(core_finding)
    pre_exp, t2 = _expected(case, blurred=True, doc=True)
    if core_finding is not None and case["kind"] == "ellipsoid":
        # is this the documented construction (every radius enlarged to ceil(r + 5 sigma), then the library's Gaussian)?  Then it is
        # the open finding C13-K2: for elongated ellipsoids the enlarged ellipsoid does not contain the 5-sigma neighbourhood of the core
        ref = filters.gaussian(pre_exp.astype(bool), sigma=sigma)
        d = np.abs(ref - a)
        if t2.any():
            d = np.where(_foot(t2, sigma), 0.0, d)
        if float(d.max()) <= 1e-9:
            core_finding["known"] = "C13-K2"
    if "error" in model:
        out.append(dict(kind="corr", clause="model-rejects", detail=str(model)))
        return out
    pre = _str2arr(model["mask"], box)
    pre_in = pre.astype(bool) if case["kind"] in ("ellipsoid", "e_shell") else pre.astype(np.float64)
    ref = filters.gaussian(pre_in, sigma=sigma)
    foot = _foot(t2, sigma) if t2.any() else None
    dev = np.abs(ref - a)
    if foot is not None:
        dev = np.where(foot, 0.0, dev)      # a tie voxel falls the other way in floating point; ignore its footprint
    if float(dev.max()) > SOFT_TOL:
        v = tuple(int(x) for x in np.argwhere(dev > SOFT_TOL)[0])
        out.append(dict(kind="corr", clause="soft-vs-model", detail=f"soft mask differs from gaussian(model pre-blur mask) by {float(dev.max()):.3g} at {v}"))
    if model.get("blur") is not None:
        vox = _probe_voxels(case)
        if model.get("kernel_radius") != int(4 * sigma + 0.5):
            out.append(dict(kind="corr", clause="kernel-radius", detail=f"Lean kernelRadius {model.get('kernel_radius')} vs int(4*sigma+0.5) = {int(4 * sigma + 0.5)}"))
        worst, at = 0.0, None
        for v, b in zip(vox, model["blur"]):
            if foot is not None and foot[v]:
                continue
            e = abs(b2f(b) - float(a[v]))
            if not e <= worst:
                worst, at = e, v
        if not worst <= KERNEL_TOL:
            out.append(dict(kind="corr", clause="soft-vs-kernel-model", detail=f"voxel {at}: code {float(a[at])!r}, Lean blurAt (Gaussian weights, radius int(4 sigma+0.5), nearest) differs by {worst:.3g}"))
    v, n = _first_diff(pre, pre_exp, t2)
    if v is not None:
        out.append(dict(kind="corr", clause="model-vs-statement", detail=f"pre-blur model mask and documented extension ceil(r+5*sigma) differ at {v} ({n} voxels)"))
    return out


def _judge_algebra(fn, shp, masks_spec, obs, model, extra=None):
    out = []
    if "error" in obs:
        f = _raised(obs, model, outside_quantifier=bool(extra))
        if obs.get("mutated"):
            f.append(dict(kind="spec", clause=f"{fn}-modifies-input", detail=f"input mask(s) {obs['mutated']} changed by the (failing) call"))
        return f
    if extra:
        return [dict(kind="corr", clause="returns-where-model-rejects", detail=f"{extra}: code returned shape {obs.get('shape')}, model {model}")] if "error" in model else []
    ins = [np.array([b2f(b) for b in m], dtype=np.float64).reshape(shp) for m in obs["inputs"]]
    for i, m in enumerate(masks_spec or []):
        if "bits" in m and (obs["inputs"][i] != m["bits"] or obs["in_dtypes"][i] != m["dtype"]):
            out.append(dict(kind="corr", clause="harness-or-library-raised", detail=f"harness: input {i} was not built as the case says"))
        if "ctor" in m:
            exp, ties = _expected(m["ctor"], blurred=False)
            v, n = _first_diff(ins[i], exp.astype(np.float64), ties)
            if v is not None and _frac_radii(m["ctor"]):      # C13-K3 is reported by the shape cases; here only other deviations count
                dexp, dties = _expected(m["ctor"], blurred=False, doc=True)
                v, n = _first_diff(ins[i], dexp.astype(np.float64), dties)
            if v is not None:
                out.append(dict(kind="spec", clause=f"{m['ctor']['kind']}-membership", detail=f"input {i} built by the library's constructor differs from the analytic shape at {v} ({n} voxels)"))
    if obs["mutated"]:
        out.append(dict(kind="spec", clause=f"{fn}-modifies-input", detail=f"input mask(s) {obs['mutated']} (dtypes {obs['in_dtypes']}) changed by the call"))
    if not _numeric(obs, out, fn):
        return out
    if obs["shape"] != list(shp):
        out.append(dict(kind="spec", clause=f"{fn}-shape", detail=f"result shape {obs['shape']} for inputs {shp}"))
        return out
    res = np.array([b2f(b) for b in obs["out"]], dtype=np.float64).reshape(shp)
    if np.isnan(res).any() or res.min() < 0.0 or res.max() > 1.0:
        out.append(dict(kind="spec", clause=f"{fn}-range", detail=f"result leaves [0,1]: min={res.min()!r} max={res.max()!r} (input dtypes {obs['in_dtypes']})"))
    if all(np.isin(m, (0.0, 1.0)).all() for m in ins):
        bs = [m == 1.0 for m in ins]
        want = _bool_spec(fn, bs)
        v, n = _first_diff(res, want.astype(np.float64))
        if v is not None:
            det = (f"{n} voxel(s) differ from the Boolean combination; first {v}: inputs {[float(m[v]) for m in ins]} (dtypes {obs['in_dtypes']}), "
                   f"code {float(res[v])}, statement {float(want[v])}")
            umi = np.logical_or.reduce(bs) & ~np.logical_and.reduce(bs)
            if fn == "difference" and len(bs) != 2 and np.array_equal(res, umi.astype(np.float64)):
                # exactly the documented union-minus-intersection: the open finding C13-K1 (and nothing else)
                out.append(dict(kind="spec", clause="difference-xor-n-masks", known="C13-K1",
                                detail=f"difference of {len(bs)} mask(s) is union minus intersection, not their XOR: " + det))
            elif fn == "difference" and len(bs) != 2:
                v2, n2 = _first_diff(res, umi.astype(np.float64))
                out.append(dict(kind="spec", clause="difference-voxelwise", detail=f"difference of {len(bs)} mask(s) is neither their XOR nor union minus intersection "
                                f"({n2} voxel(s) differ from the latter, first {v2}: code {float(res[v2])}); vs XOR: " + det))
            else:
                out.append(dict(kind="spec", clause=f"{fn}-voxelwise", detail=det))
        ms = model.get("spec")
        if ms is not None and ms != "".join("1" if x else "0" for x in want.ravel()):
            out.append(dict(kind="corr", clause="spec-evaluators-differ", detail="Lean specVox and the numpy Boolean evaluation of the statement differ"))
    if "error" in model:
        out.append(dict(kind="corr", clause="model-rejects", detail=str(model)))
    elif model["out"] != obs["out"]:
        i = next((i for i, (x, y) in enumerate(zip(model["out"], obs["out"])) if x != y), None)
        out.append(dict(kind="corr", clause=f"{fn}-vs-model", detail=f"flat voxel {i}: code {b2f(obs['out'][i]) if i is not None else None!r}, model {b2f(model['out'][i]) if i is not None else None!r}"))
    if obs["dtype"] != "float64":
        out.append(dict(kind="corr", clause="result-dtype", detail=f"result dtype {obs['dtype']} (the model accumulates in float64) for input dtypes {obs['in_dtypes']}"))
    if obs.get("aliases_input") or obs.get("same_object"):
        out.append(dict(kind="corr", clause="result-aliases-input", detail=f"the result shares memory with an input (same object: {obs.get('same_object')}): the model returns a fresh array"))
    if obs.get("aliases_earlier_result") or obs.get("earlier_result_changed"):
        out.append(dict(kind="corr", clause="result-aliases-earlier-result", detail=f"shares memory with an earlier result: {obs.get('aliases_earlier_result')}; earlier results changed: {obs.get('earlier_result_changed')}"))
    return out


def judge(case, obs, resps):
    if case["t"] == "shape":
        return _judge_shape(case, obs, resps[0] if resps else {})
    if case["t"] == "name":
        return _judge_name(case, obs, resps)
    if case["t"] == "algebra":
        return _judge_algebra(case["fn"], case["shape"], case["masks"], obs, resps[0] if resps else {}, case.get("extra"))
    if "error" in obs:
        return _raised(obs, {})
    out = []
    per = 2 if case["mode"] == "name" else 1
    for i, (st, o) in enumerate(zip(case["steps"], obs["steps"])):
        rs = resps[i * per:(i + 1) * per]
        if case["mode"] == "name":
            fs = _judge_name(st, o, rs)
        elif case["mode"] == "shape":
            fs = _judge_shape(st, o, rs[0] if rs else {})
            if o.get("args_changed"):
                fs.append(dict(kind="corr", clause="constructor-modifies-argument", detail=f"{st['kind']}: caller's {o['args_changed']} array changed by the call"))
        else:
            fs = _judge_algebra(st["fn"], case["shape"], case["masks"] if i == 0 else None, o, rs[0] if rs else {})
        for f in fs:
            f["detail"] = f"call {i + 1} of {len(case['steps'])} in one process ({st.get('fn') or st.get('kind')}): " + f["detail"]
        out += fs
    return out


def classify(case, obs, finding):
    """open known findings: C13-K1 (difference of n != 2 masks is union minus intersection, not XOR),
    C13-K2 (outwards-blurred elongated ellipsoid built exactly as documented loses more than 1e-3 in its core),
    C13-K3 (proposed: non-integer ellipsoid radii - also r +- t/2 of a shell of odd thickness - are cut to their integer part); each rule
    is an equality with the documented construction, set where the finding is made"""
    return finding.get("known")


# ------------------------------------------------------------------ evidence
def _nontrivial_one(case, obs):
    if not isinstance(obs, dict) or "error" in obs or "nonnumeric" in obs:
        return False
    if case["t"] == "algebra":
        vals = set(obs.get("out") or [])
        return len(case["masks"]) >= 2 and f2b(0.0) in vals and f2b(1.0) in vals
    if case["t"] == "name":
        return obs.get("mask") is not None and "0" in obs["mask"] and "1" in obs["mask"]
    if case["gauss"][0] != 0:
        return obs["max"] > 0.5 and obs["min"] < 0.5
    m = obs.get("mask") or ""
    if not ("0" in m and "1" in m):
        return False
    box = case["box"]
    a = _str2arr(m, box)
    clipped = bool(a[0].any() or a[-1].any() or a[:, 0].any() or a[:, -1].any() or a[:, :, 0].any() or a[:, :, -1].any())
    return clipped or case.get("center") is not None


def nontrivial(case, obs):
    if case["t"] == "session":
        return "steps" in obs and len(obs["steps"]) >= 2 and not any("error" in o for o in obs["steps"])
    return _nontrivial_one(case, obs)


def _bucket(n):
    return "6-10" if n <= 10 else ("11-16" if n <= 16 else ("17-28" if n <= 28 else ("29-39" if n <= 39 else "40-48")))


def _stats_shape(case, obs, resp):
    st = {"kind": case["kind"]}
    box = case["box"]
    st["box_max"] = _bucket(max(box))
    st["box_form"] = "cubic" if len(set(box)) == 1 else "non-cubic"
    c = case.get("center")
    st["centre"] = "default" if c is None else ("outside-box" if case.get("extra") else ("on-face" if any(x == 0 or x == b - 1 for x, b in zip(c, box)) else "interior"))
    st["gauss"] = str(_val(case["gauss"]))
    st["omitted_keywords"] = list(case.get("omit") or []) or ["none"]
    st["argument_forms"] = [f"{k}:{v}" for k, v in sorted((case.get("forms") or {}).items())] or ["lists / Python numbers"]
    if case["gauss"][0] != 0:
        st["gauss_grid"] = "half-integer" if case["gauss"][1] in (1, 2) else "decimal"
    if case["gauss"][0] != 0:
        st["edge_mode"] = ("outwards" if case.get("outwards", True) else "centred") + ("(default)" if "gaussian_outwards" in (case.get("omit") or []) else "")
    if case["kind"] in ("sphere", "cylinder") and case.get("radius") is not None:
        r = _fr(case["radius"])
        st["radius_vs_box"] = "beyond" if r >= max(box) else ("> half of min" if 2 * r > min(box) else "inside")
        st["radius_grid"] = "integer" if case["radius"][1] == 1 else "fractional"
    if case["kind"] in ("ellipsoid", "e_shell"):
        st["ellipsoid_radii_grid"] = "non-integer" if _frac_radii(case) else "integer"
        if case["kind"] == "sphere" and r >= max(box) and c is not None:
            far2 = sum(max(x, b - 1 - x) ** 2 for x, b in zip(c, box))
            st["oversize_sphere"] = "some corner outside" if r * r < far2 else "whole box inside"
    if case["kind"] == "cylinder" and case.get("height") is not None and not case.get("extra"):
        cz = c[2] if c is not None else box[2] // 2
        h = case["height"] // 2
        st["cyl_slab"] = ("clip-lo" if cz - h < 0 else "") + ("clip-hi" if cz + h + 1 > box[2] else "") or "inside"
        st["cyl_height_mod4"] = case["height"] % 4
    if case["kind"] in ("ellipsoid", "e_shell") and not case.get("extra"):
        try:
            n = int(_expected(case, blurred=case["gauss"][0] != 0)[1].sum())
            st["ellipsoid_float_tie_voxels"] = "0" if n == 0 else ("1-6" if n <= 6 else ">6")
        except Exception:
            pass
        if isinstance(resp, dict) and resp.get("ties"):
            st["ellipsoid_exact_surface_voxels"] = "0" if "1" not in resp["ties"] else ("1-6" if resp["ties"].count("1") <= 6 else ">6")
    if isinstance(obs, dict):
        if "error" in obs:
            st["impl_error"] = obs["error"][:60]
        elif "dtype" in obs:
            st["returned_dtype"] = f"{case['kind']}:{obs['dtype']}"
    return st


def _stats_algebra(fn, masks, obs):
    st = dict(fn=fn, n_masks=len(masks))
    if isinstance(obs, dict):
        if obs.get("in_dtypes"):
            st["input_dtype"] = sorted(set(obs["in_dtypes"]))
            st["dtype_mix"] = "mixed" if len(set(obs["in_dtypes"])) > 1 else "uniform"
            st["first_operand_dtype"] = f"{fn}:{obs['in_dtypes'][0]}"
        if "dtype" in obs:
            st["result_dtype"] = obs["dtype"]
        if "error" in obs:
            st["impl_error"] = obs["error"][:60]
    return st


def stats(case, obs, resps):
    st = {"type": case["t"] if case["t"] != "session" else "session-" + case["mode"]}
    if case["t"] == "algebra":
        st.update(_stats_algebra(case["fn"], case["masks"], obs))
        st["flavour"] = case["flavour"]
        st["masks_from_constructors"] = sum(1 for m in case["masks"] if "ctor" in m)
        st["output_name"] = "explicit None" if case.get("explicit_none") else "omitted"
        st["mask_list_container"] = case.get("container", "list")
        st["mask_operand_kind"] = sorted({("path " + m["path"]) if m.get("path") else "array" for m in case["masks"]}) or ["none"]
        st["mask_memory_layout"] = sorted({m.get("layout", "C") for m in case["masks"] if "bits" in m}) or ["constructor"]
        return st
    if case["t"] == "name":
        st["kind"] = case["kind"]
        st["name_mask_size"] = ("default" if case["mask_size"] is None else "given") + ("(omitted)" if "mask_size" in (case.get("omit") or []) else "")
        st["name_expansion"] = str(case["expansion"]) + ("(omitted)" if "mask_expansion" in (case.get("omit") or []) else "")
        st["name_form"] = "leading-zeros" if case.get("zeros") and any(case["zeros"]) else ("trailing-newline" if case.get("newline") else "canonical")
        if isinstance(obs, dict) and obs.get("parsed_types"):
            st["parsed_types"] = ",".join(sorted(set(obs["parsed_types"][3:])))
        return st
    if case["t"] == "session":
        st["session_calls"] = len(case["steps"])
        if case["mode"] == "algebra":
            st["session_rewrites"] = sum(1 for s in case["steps"] if s.get("rewrite"))
            st["session_fns"] = [s["fn"] for s in case["steps"]]
        elif case["mode"] == "name":
            first = case["steps"][0]
            st["same_name_distinct_boxes"] = len({(_name_to_shape(s)["box"][0]) for s in case["steps"] if s["kind"] == first["kind"] and s["specs"] == first["specs"]})
        else:
            st["session_kinds"] = [s["kind"] for s in case["steps"]]
        return st
    st.update(_stats_shape(case, obs, resps[0] if resps else None))
    return st


def sample_view(case):
    def mview(m):
        return dict(ctor=m["ctor"]) if "ctor" in m else dict(dtype=m["dtype"], first_values=[b2f(b) for b in m["bits"][:6]])
    if case["t"] == "algebra":
        return dict(t="algebra", fn=case["fn"], shape=case["shape"], flavour=case["flavour"], masks=[mview(m) for m in case["masks"]])
    if case["t"] == "session" and case["mode"] == "algebra":
        return dict(t="session", mode="algebra", shape=case["shape"], masks=[mview(m) for m in case["masks"]],
                    steps=[dict(fn=s["fn"], rewrites=(s["rewrite"]["i"] if s.get("rewrite") else None)) for s in case["steps"]])
    return case


def probes(rng):
    """the recorded assumptions about skimage.filters.gaussian, probed on an impulse (half-integer widths and three random decimal ones):
    the library's kernel is the model's kernel.  The weight beyond 5 sigma is proved for the model kernel (gaussian_kernel_tail);
    measuring it on the library's kernel is a cross-check"""
    from skimage import filters
    out = []
    extra = sorted({rng.randint(13, 299) / 100 for _ in range(3)} - {0.5, 1.0, 1.5, 2.0, 2.5, 3.0})
    for sigma in (0.5, 1.0, 1.5, 2.0, 2.5, 3.0) + tuple(extra):
        rad = int(4 * sigma + 0.5)
        n = 2 * rad + 9
        imp = np.zeros((n, n, n)); imp[n // 2, n // 2, n // 2] = 1.0
        k = filters.gaussian(imp, sigma=sigma)
        line = k[:, n // 2, n // 2]
        support = np.nonzero(line)[0]
        ok = (k.min() >= 0 and abs(k.sum() - 1) < 1e-12 and support.min() == n // 2 - rad and support.max() == n // 2 + rad
              and np.allclose(k, k[::-1, ::-1, ::-1], atol=1e-18))
        t = np.arange(-rad, rad + 1, dtype=np.float64)
        w1 = np.exp(-0.5 / (sigma * sigma) * t * t); w1 /= w1.sum()
        sep = np.abs(k[n // 2 - rad:n // 2 + rad + 1, n // 2 - rad:n // 2 + rad + 1, n // 2 - rad:n // 2 + rad + 1]
                     - w1[:, None, None] * w1[None, :, None] * w1[None, None, :]).max()
        ok = ok and sep < 1e-15      # the kernel is the product of the 1-D weights of the Lean model
        edge = np.ones((5, 5, 5))
        ok = ok and np.abs(filters.gaussian(edge, sigma=sigma) - 1).max() < 1e-12      # mode='nearest': a full box stays 1
        out.append(dict(name=f"gaussian-kernel-sigma-{sigma}", ok=bool(ok), detail=f"min={k.min():.3g} sum-1={k.sum()-1:.3g} support={support.min()-n//2}..{support.max()-n//2} |k - w1*w1*w1|={sep:.2g}"))
        i, j, l = np.indices(k.shape)
        d2 = (i - n // 2) ** 2 + (j - n // 2) ** 2 + (l - n // 2) ** 2
        tail = float(k[d2 > (5 * sigma) ** 2].sum())
        out.append(dict(name=f"gaussian-tail-beyond-5-sigma-{sigma}", ok=bool(tail < CORE_TOL), detail=f"kernel weight at offsets farther than 5*sigma = {tail:.3g} (proved <= 1e-3 for the model kernel)"))
    return out


LEVEL_TEXT = ("Lean 4 theorems about an executable model of cryomask's hard-edged constructors and mask algebra: exact voxel membership of spheres "
              "(distance <= r, also stated with Real.sqrt), cylinders (planar distance <= r and |k-cz| <= floor(h/2), clipped to the box), ellipsoids on even "
              "boxes (sum((i-c)/r)^2 <= 1), shells = outer and not inner; parse_shape_string(format(kind, specs)) = (kind, specs) and generate_mask = the "
              "analytic shape on the documented box size for every shape name; union/intersection/subtraction/difference of any number of {0,1} masks = "
              "OR / AND / AND-NOT / (OR and not AND); the latter is XOR exactly for two masks (proved: it is NOT the XOR of one or of three masks), results "
              "in [0,1] for arbitrary real inputs. Soft edges: the model's Gaussian kernel (exp(-0.5/sigma^2 t^2)/sum over |t| <= int(4 sigma + 0.5), real "
              "exponential, nearest-voxel boundary) has non-negative weights of total 1 and, for EVERY width 0 < sigma <= 3, at most 1e-3 of its weight beyond "
              "5 sigma (gaussian_kernel_tail); hence the model's pre-blur sphere / cylinder of an outwards blur, filtered with that kernel, stays in [0,1] and "
              "leaves every voxel of the requested core within 1e-3 of 1 (soft_sphere_core_gaussian, soft_cylinder_core_gaussian: no hypothesis about the "
              "kernel left). For ellipsoids the inclusion behind this is refuted and a concrete core voxel is proved to lose MORE than 1e-3 "
              "(ellipsoid_outwards_core_deficit: the open finding C13-K2, about the model). Tied to the source by the complete normalised bodies and "
              "signatures of 19 functions (annotations, docstrings and message texts stripped) and by a per-voxel differential run of the real functions "
              "against the model.")
LEVEL_NOTE = ("the Gaussian filter (skimage) is an external service: that its kernel IS the model's kernel (product of the 1-D weights, support, unit sum) "
              "is probed each run and compared at sampled voxels with the Lean kernel model evaluated with Float.exp; the theorems use Real.exp; 'never modify "
              "their inputs' is validated at run time only; numpy float comparisons are assumed exact on the integer/dyadic grids generated (decimal Gaussian "
              "widths: np.ceil(r + 5 sigma) is generated only where float64 and exact arithmetic agree); ellipsoid voxels exactly on the surface where double "
              "rounding decides are excluded as ties. OPEN: C13-K1 (difference of n != 2 masks is union minus intersection, not XOR; Lean: "
              "difference_xor_reading_fails), C13-K2 (outwards-blurred elongated ellipsoids lose more than 1e-3 in the core; Lean: inclusion refuted in "
              "ellipsoid_outwards_not_dilation, deficit > 1e-3 proved for the witness in ellipsoid_outwards_core_deficit)")
TECHNIQUE = "Lean 4 proof (order/field reasoning, list induction) + re-extracted source statements + per-voxel differential correspondence"
DESIGN_REF = "DESIGN.md section 4, C13"
