"""C13 — Masks: analytic shapes and voxel-wise set algebra (DESIGN.md section 4, C13)."""
import ast, re, math, base64, zlib, os, json, random, traceback
from fractions import Fraction
import numpy as np
import core
from core import f2b, b2f

PROP = "C13"
COUNT = {"quick": 500, "thorough": 2000, "search": 900}
PARALLEL = True
REL = "cryocat/cryomask.py"
KINDS = ["sphere", "cylinder", "ellipsoid", "s_shell", "e_shell"]
FNS = ["union", "intersection", "subtraction", "difference"]
BIN_DTYPES = ["float64", "float32", "bool", "uint8", "int8"]
SOFT_TOL = 1e-12      # float noise allowed around [0,1] and between impl and gaussian(model pre-blur mask)
KERNEL_TOL = 1e-10    # impl vs the Lean kernel model (direct 3-D sum vs three separable passes)
CORE_TOL = 1e-3       # the property's bound for the core of an outwards-blurred mask (Lean: coreTol)

RULE = ("shape cases: constructor calls (spherical/cylindrical/ellipsoid/_shell masks) on non-cubic boxes 6..16 (quick) / 6..48 (thorough) per axis "
        "(even sizes for ellipsoids), centre default or anywhere in the box incl. faces, radii/heights from 1 to beyond the box (spheres also "
        "quarter/half-integer radii; dedicated streams: radius >= max(box) with a corner centre, heights = 3 mod 4, outward blurs of small ellipsoids "
        "with sigma >= 1.5), Gaussian width 0 or {0.5,..,3} with both edge modes; ~30 % of the keywords whose value is the default are omitted; every "
        "voxel is compared. name cases: parse_shape_string + generate_mask (leading zeros, given/default size and expansion). algebra cases: "
        "union/intersection/subtraction/difference of 1..5 binary masks of dtype float64/float32/bool/uint8/int8 (also mixed, also built by the "
        "library's constructors) or soft float64/float32 masks. session cases: several calls in ONE process that share caller-owned objects "
        "(the same list and ndarrays through all four functions, rewritten in place between calls; the same shape name for different box sizes; "
        "the same mask_size/center/radii arrays for several constructors). non-trivial = hard mask holding both values with a non-default centre or "
        "clipped by the box, or a soft mask, or an algebra call on >=2 masks whose result holds both 0 and 1, or a session of >= 2 calls; "
        "distinct = distinct case content")
ASSUMPTIONS = [
    "numpy float64 evaluation of sqrt(d2) > r and of the slab bounds equals exact rational evaluation on integer voxel coordinates and dyadic radii; "
    "for ellipsoids only the voxels exactly on the surface (rational sum == 1) whose float64 sum (z+y)+x of correctly rounded quotients exceeds 1 are "
    "excluded as ties (computed per case, counted in the histograms)",
    "skimage.filters.gaussian is an external service: soft masks are compared (a) with gaussian(model's pre-blur mask) computed by the same library and "
    "(b) at sampled voxels with the Lean kernel model (radius int(4 sigma + 0.5), weights exp(-t^2/2 sigma^2)/sum, mode nearest); the kernel is probed "
    "each run: non-negative, unit sum, support, symmetry, and weight beyond 5 sigma < 1e-3 (the hypothesis of soft_sphere_core_within_tol)",
    "numpy float64 +,*,- and np.clip are IEEE-754 and equal Lean Float (compared bit for bit on every algebra case); bool/uint8/int8/float32 inputs "
    "convert exactly to float64",
    "'never modify their inputs' is a runtime aliasing fact: validated on every algebra call by comparing values, dtype and list identity before/after, "
    "not proved; a result sharing memory with an input is reported as a correspondence finding (the model returns a fresh array)",
]
TRUSTED = ["props/c13.py _expected()/_bool_spec(): independent integer/Boolean evaluation of the analytic inequalities and of OR/AND/AND-NOT/XOR (numpy)"]
DOC_BLUR = "5"
DOC_EXPANSION = 4

DOC_SIG = {'parse_shape_string': ['shape_string'],
 'generate_mask': ['mask_shape', 'mask_size=None', 'mask_expansion=4'],
 'add_gaussian': ['input_mask', 'sigma'],
 'rotate': ['input_mask', 'angles'],
 'postprocess': ['input_mask', 'gaussian', 'angles', 'output_name'],
 'union': ['mask_list', 'output_name=None'],
 'intersection': ['mask_list', 'output_name=None'],
 'subtraction': ['mask_list', 'output_name=None'],
 'difference': ['mask_list', 'output_name=None'],
 'spherical_shell_mask': ['mask_size', 'shell_thickness', 'radius=None', 'center=None', 'gaussian=0.0', 'output_name=None'],
 'spherical_mask': ['mask_size', 'radius=None', 'center=None', 'gaussian=0.0', 'gaussian_outwards=True', 'output_name=None'],
 'cylindrical_mask': ['mask_size',
                      'radius=None',
                      'height=None',
                      'center=None',
                      'gaussian=0',
                      'gaussian_outwards=True',
                      'angles=None',
                      'output_name=None'],
 'get_correct_format': ['input_value', 'reference_size=None'],
 'ellipsoid_shell_mask': ['mask_size', 'shell_thickness', 'radii', 'center=None', 'gaussian=0.0', 'angles=None', 'output_name=None'],
 'ellipsoid_mask': ['mask_size', 'radii=None', 'center=None', 'gaussian=0', 'output_name=None', 'angles=None', 'gaussian_outwards=True'],
 'preprocess_params': ['radius', 'gaussian', 'gaussian_outwards'],
 'cryomap_read': ['input_map', 'transpose=True', 'data_type=None']}
DOC_BODY = {'parse_shape_string': ["v0={'sphere':'^sphere_r(\\\\d+)$','cylinder':'^cylinder_r(\\\\d+)_h(\\\\d+)$','s_shell':'^s_shell_r(\\\\d+)_s(\\\\d+)$','ellipsoid':'^ellipsoid_rx(\\\\d+)_ry(\\\\d+)_rz(\\\\d+)$','e_shell':'^e_shell_rx(\\\\d+)_ry(\\\\d+)_rz(\\\\d+)_s(\\\\d+)$'}",
                        'for:(v1,v2):v0.items()',
                        'v3=re.match(v2,shape_string)',
                        'if:v3',
                        'v4=[int(v5)forv5inv3.groups()]',
                        'return(v1,v4)',
                        'end',
                        'end',
                        'raiseValueError(f"String\'{shape_string}\'doesnotmatchanyknownshapepattern.")'],
 'generate_mask': ['v0,v1=parse_shape_string(mask_shape)',
                   'if:mask_sizeisNone',
                   'mask_size=2*np.max(v1)+mask_expansion',
                   'mask_size=math.ceil(mask_size/2)*2',
                   'end',
                   "if:v0=='sphere'",
                   'v2=spherical_mask(mask_size=mask_size,radius=v1[0])',
                   'else:',
                   "if:v0=='cylinder'",
                   'v2=cylindrical_mask(mask_size=mask_size,radius=v1[0],height=v1[1])',
                   'else:',
                   "if:v0=='s_shell'",
                   'mask_size=math.ceil((mask_size+v1[1])/2)*2',
                   'v2=spherical_shell_mask(mask_size=mask_size,shell_thickness=v1[1],radius=v1[0])',
                   'else:',
                   "if:v0=='ellipsoid'",
                   'v2=ellipsoid_mask(mask_size=mask_size,radii=v1)',
                   'else:',
                   "if:v0=='e_shell'",
                   'v2=ellipsoid_shell_mask(mask_size=mask_size,shell_thickness=v1[3],radii=v1[0:3])',
                   'end',
                   'end',
                   'end',
                   'end',
                   'end',
                   'returnv2'],
 'add_gaussian': ['if:sigma==0', 'returninput_mask', 'else:', 'returnfilters.gaussian(input_mask,sigma=sigma)', 'end'],
 'rotate': ['if:anglesisNoneornotnp.any(angles)', 'returninput_mask', 'else:', 'returncryomap.rotate(input_mask,rotation_angles=angles)', 'end'],
 'postprocess': ['v0=add_gaussian(input_mask,gaussian)', 'v0=rotate(v0,angles)', 'write_out(v0,output_name)', 'returnv0'],
 'union': ['v0=np.zeros(cryomap.read(mask_list[0]).shape)',
           'for:v1:mask_list',
           'v2=cryomap.read(v1)',
           'v0+=v2',
           'end',
           'v0=np.clip(v0,0.0,1.0)',
           'write_out(v0,output_name)',
           'returnv0'],
 'intersection': ['v0=np.ones(cryomap.read(mask_list[0]).shape)',
                  'for:v1:mask_list',
                  'v2=cryomap.read(v1)',
                  'v0*=v2',
                  'end',
                  'v0=np.clip(v0,0.0,1.0)',
                  'write_out(v0,output_name)',
                  'returnv0'],
 'subtraction': ['v0=cryomap.read(mask_list[0]).astype(float)',
                 'for:v1:mask_list[1:]',
                 'v2=cryomap.read(v1)',
                 'v0-=v2',
                 'end',
                 'v0=np.clip(v0,0.0,1.0)',
                 'write_out(v0,output_name)',
                 'returnv0'],
 'difference': ['v0=union(mask_list)', 'v1=intersection(mask_list)', 'v2=v0-v1', 'v2=np.clip(v2,0.0,1.0)', 'write_out(v2,output_name)', 'returnv2'],
 'spherical_shell_mask': ['mask_size=get_correct_format(mask_size)',
                          'center=get_correct_format(center,reference_size=mask_size)',
                          'if:radiusisNone',
                          'radius=np.amin(mask_size)//2',
                          'end',
                          'shell_thickness=shell_thickness/2',
                          'v0=spherical_mask(mask_size,radius=radius+shell_thickness,center=center)',
                          'v1=spherical_mask(mask_size,radius=radius-shell_thickness,center=center)',
                          'v2=v0-v1',
                          'v2=postprocess(v2,gaussian,np.asarray([0,0,0]),output_name)',
                          'returnv2'],
 'spherical_mask': ['mask_size=get_correct_format(mask_size)',
                    'center=get_correct_format(center,reference_size=mask_size)',
                    'if:radiusisNone',
                    'radius=np.amin(mask_size)//2',
                    'end',
                    'radius=preprocess_params(radius,gaussian,gaussian_outwards)',
                    'v0,v1,v2=np.mgrid[0:mask_size[0]:1,0:mask_size[1]:1,0:mask_size[2]:1]',
                    'v3=np.sqrt((v0-center[0])**2+(v1-center[1])**2+(v2-center[2])**2)',
                    'v3[v3>radius]=0',
                    'v3[v3>0]=1',
                    'v3[center[0],center[1],center[2]]=1',
                    'v3=postprocess(v3,gaussian,np.asarray([0,0,0]),output_name)',
                    'returnv3'],
 'cylindrical_mask': ['mask_size=get_correct_format(mask_size)',
                      'center=get_correct_format(center,reference_size=mask_size)',
                      'if:radiusisNone',
                      'radius=np.amin(mask_size[:2])//2',
                      'end',
                      'if:heightisNone',
                      'height=mask_size[2]',
                      'end',
                      'height=height//2',
                      'radius=preprocess_params(radius,gaussian,gaussian_outwards)',
                      'height=preprocess_params(height,gaussian,gaussian_outwards)',
                      'v0,v1=np.mgrid[0:mask_size[0]:1,0:mask_size[1]:1]',
                      'v2=np.sqrt((v0-center[0])**2+(v1-center[1])**2)',
                      'v2[v2>radius]=0',
                      'v2[v2>0]=1',
                      'v2[center[0],center[1]]=1',
                      'v3=np.zeros(mask_size)',
                      'v4=max(center[2]-height,0)',
                      'v5=min(center[2]+height+1,mask_size[2])',
                      'if:v5>v4',
                      'v3[:,:,v4:v5]=np.tile(v2[:,:,None],(1,1,v5-v4))',
                      'end',
                      'v3=postprocess(v3,gaussian,angles,output_name)',
                      'returnv3'],
 'get_correct_format': ['def:v0(v1)',
                        'if:isinstance(v1,(tuple,list,np.ndarray))',
                        'if:len(v1)==3',
                        'returnnp.asarray(v1).astype(int)',
                        'else:',
                        'if:len(v1)==1',
                        'returnnp.full((3,),v1).astype(int)',
                        'else:',
                        "raiseValueError('Thesizehavetobeasinglenumberorhavetohavelengthof3!')",
                        'end',
                        'end',
                        'else:',
                        'if:isinstance(v1,(float,int))',
                        'returnnp.full((3,),v1).astype(int)',
                        'end',
                        'end',
                        'end',
                        'if:input_valueisnotNone',
                        'v2=v0(input_value)',
                        'else:',
                        'if:reference_sizeisnotNone',
                        'v3=v0(reference_size)',
                        'v2=v3//2',
                        'else:',
                        "raiseValueError('Eitherinput_sizeorreferene_sizehavetobespecified')",
                        'end',
                        'end',
                        'returnv2'],
 'ellipsoid_shell_mask': ['mask_size=get_correct_format(mask_size)',
                          'center=get_correct_format(center,reference_size=mask_size)',
                          'radii=get_correct_format(radii,reference_size=mask_size)',
                          'shell_thickness=shell_thickness/2',
                          'v0=ellipsoid_mask(mask_size,radii=radii+shell_thickness,center=center)',
                          'v1=ellipsoid_mask(mask_size,radii=radii-shell_thickness,center=center)',
                          'v2=v0&~v1',
                          'v2=postprocess(v2,gaussian,angles,output_name)',
                          'returnv2'],
 'ellipsoid_mask': ['v0=get_correct_format(mask_size)',
                    'center=get_correct_format(center,reference_size=v0)',
                    'radii=get_correct_format(radii,reference_size=v0)',
                    'radii=preprocess_params(radii,gaussian,gaussian_outwards)',
                    'v1=tuple((np.linspace(1,v2,v2)-np.floor(0.5*v2)forv2inv0))',
                    "v1=np.meshgrid(*v1,indexing='ij')",
                    'v3=np.array(v1).reshape(3,-1)[::-1]',
                    'v4=0.5*v0-center',
                    'v4=np.tile(v4.reshape(3,1),(1,v3.shape[1]))',
                    'v3=v3[:,::-1]',
                    'v4=v4[::-1]',
                    'radii=radii[::-1]',
                    'radii=np.tile(radii.reshape(3,1),(1,v3.shape[1]))',
                    'v5=(v3-v4)**2',
                    'v5=v5/radii**2',
                    'v6=np.sum(v5,axis=0).reshape(v0)',
                    'v7=v6<=1',
                    'v7=postprocess(v7,gaussian,angles,output_name)',
                    'returnv7'],
 'preprocess_params': ['v0=5.0',
                       'if:gaussian!=0.0andgaussian_outwards',
                       'v1=np.ceil(radius+gaussian*v0).astype(int)',
                       'else:',
                       'v1=radius',
                       'end',
                       'returnv1'],
 'cryomap_read': ['if:isinstance(input_map,str)',
                  'def:v0(v1)',
                  "v2='\\\\.(mrc|ali|rec|st)(\\\\.\\\\d+)?$'",
                  'returnbool(re.search(v2,v1))',
                  'end',
                  'if:v0(input_map)',
                  'v3=mrcfile.open(input_map).data',
                  'else:',
                  "if:input_map.endswith('.em')",
                  'v3=emfile.read(input_map)[1]',
                  'else:',
                  "raiseValueError('Theinputmapfilename',input_map,'isneitheremormrcfile!')",
                  'end',
                  'end',
                  'if:transpose',
                  'v3=v3.transpose(2,1,0)',
                  'end',
                  'else:',
                  'if:isinstance(input_map,np.ndarray)',
                  'v3=np.array(input_map)',
                  'else:',
                  "raiseValueError(f'Inputmapmustbepathtovalidfileornparray')",
                  'end',
                  'end',
                  'v3=np.array(v3,copy=True)',
                  'if:data_typeisnotNone',
                  'v3=v3.astype(data_type)',
                  'end',
                  'returnv3']}
DOC_PATTERNS = ['sphere',
 '^sphere_r(\\d+)$',
 'cylinder',
 '^cylinder_r(\\d+)_h(\\d+)$',
 's_shell',
 '^s_shell_r(\\d+)_s(\\d+)$',
 'ellipsoid',
 '^ellipsoid_rx(\\d+)_ry(\\d+)_rz(\\d+)$',
 'e_shell',
 '^e_shell_rx(\\d+)_ry(\\d+)_rz(\\d+)_s(\\d+)$']
# ------------------------------------------------------------------ translator
FUNCS = [  # (key used in Gen/C13.lean, file, function)
    ("parse_shape_string", REL, "parse_shape_string"), ("generate_mask", REL, "generate_mask"), ("add_gaussian", REL, "add_gaussian"),
    ("rotate", REL, "rotate"), ("postprocess", REL, "postprocess"), ("union", REL, "union"), ("intersection", REL, "intersection"),
    ("subtraction", REL, "subtraction"), ("difference", REL, "difference"), ("spherical_shell_mask", REL, "spherical_shell_mask"),
    ("spherical_mask", REL, "spherical_mask"), ("cylindrical_mask", REL, "cylindrical_mask"), ("get_correct_format", REL, "get_correct_format"),
    ("ellipsoid_shell_mask", REL, "ellipsoid_shell_mask"), ("ellipsoid_mask", REL, "ellipsoid_mask"), ("preprocess_params", REL, "preprocess_params"),
    ("cryomap_read", "cryocat/cryomap.py", "read"),
]


def _ordered(node):
    """pre-order walk in source order"""
    yield node
    for ch in ast.iter_child_nodes(node):
        yield from _ordered(ch)


def _canon(fn):
    """(signature, body) of a function as lists of strings.  Parameters keep their names (callers use them as
    keywords); every other name bound inside the function (assignment / loop / comprehension targets, inner
    functions and their parameters) is replaced by v0, v1, ... in order of first binding, so renaming a local
    variable changes nothing.  The body is the complete statement list: `if:`/`else:`/`end`, `for:` ... mark the
    structure, docstrings are dropped."""
    import copy
    fn = copy.deepcopy(fn)
    a = fn.args
    params = [x.arg for x in a.posonlyargs + a.args + a.kwonlyargs] + ([a.vararg.arg] if a.vararg else []) + ([a.kwarg.arg] if a.kwarg else [])
    pos = a.posonlyargs + a.args
    dflt = [None] * (len(pos) - len(a.defaults)) + list(a.defaults)
    sig = [p.arg + ("" if d is None else "=" + core.norm_expr(d)) for p, d in zip(pos, dflt)]
    sig += ["*" + a.vararg.arg] if a.vararg else []
    sig += [p.arg + ("" if d is None else "=" + core.norm_expr(d)) for p, d in zip(a.kwonlyargs, a.kw_defaults)]
    sig += ["**" + a.kwarg.arg] if a.kwarg else []
    names = {}

    def bind(n):
        if n not in params and n not in names:
            names[n] = f"v{len(names)}"

    for st in fn.body:
        for n in _ordered(st):
            if isinstance(n, ast.Name) and isinstance(n.ctx, (ast.Store, ast.Del)):
                bind(n.id)
            elif isinstance(n, (ast.FunctionDef, ast.AsyncFunctionDef, ast.ClassDef)):
                bind(n.name)
            elif isinstance(n, ast.arg):
                bind(n.arg)
            elif isinstance(n, ast.ExceptHandler) and n.name:
                bind(n.name)
    for st in fn.body:
        for n in _ordered(st):
            if isinstance(n, ast.Name) and n.id in names:
                n.id = names[n.id]
            elif isinstance(n, (ast.FunctionDef, ast.AsyncFunctionDef, ast.ClassDef)) and n.name in names:
                n.name = names[n.name]
            elif isinstance(n, ast.arg) and n.arg in names:
                n.arg = names[n.arg]
            elif isinstance(n, ast.ExceptHandler) and n.name in names:
                n.name = names[n.name]
    out = []

    def walk(body):
        for st in body:
            if isinstance(st, ast.Expr) and isinstance(st.value, ast.Constant) and isinstance(st.value.value, str):
                continue
            if isinstance(st, (ast.FunctionDef, ast.AsyncFunctionDef)):
                out.append("def:" + st.name + "(" + ",".join(x.arg for x in st.args.args) + ")")
                walk(st.body); out.append("end")
            elif isinstance(st, ast.If):
                out.append("if:" + core.norm_expr(st.test))
                walk(st.body)
                if st.orelse:
                    out.append("else:"); walk(st.orelse)
                out.append("end")
            elif isinstance(st, (ast.For, ast.AsyncFor)):
                out.append("for:" + core.norm_expr(st.target) + ":" + core.norm_expr(st.iter))
                walk(st.body)
                if st.orelse:
                    out.append("else:"); walk(st.orelse)
                out.append("end")
            elif isinstance(st, ast.While):
                out.append("while:" + core.norm_expr(st.test))
                walk(st.body)
                if st.orelse:
                    out.append("else:"); walk(st.orelse)
                out.append("end")
            elif isinstance(st, (ast.With, ast.AsyncWith)):
                out.append("with:" + ",".join(core.norm_expr(i) for i in st.items))
                walk(st.body); out.append("end")
            elif isinstance(st, ast.Try):
                out.append("try:"); walk(st.body)
                for h in st.handlers:
                    out.append("except:" + (core.norm_expr(h.type) if h.type else "") + (":" + h.name if h.name else ""))
                    walk(h.body)
                if st.orelse:
                    out.append("else:"); walk(st.orelse)
                if st.finalbody:
                    out.append("finally:"); walk(st.finalbody)
                out.append("end")
            else:
                out.append(core.norm_expr(st).replace("\n", ""))
    walk(fn.body)
    return sig, out


def _blur_factor(body):
    """structural: the multiplier X of np.ceil(radius + gaussian * X); a literal, or a local bound to a literal"""
    for s in body:
        m = re.search(r"np\.ceil\(radius\+gaussian\*([\w.]+)\)", s)
        if m:
            x = m.group(1)
            if re.fullmatch(r"v\d+", x):
                for t in body:
                    mm = re.fullmatch(re.escape(x) + r"=([-+\d.eE]+)", t)
                    if mm:
                        x = mm.group(1); break
                else:
                    raise core.AnchorMissing(f"preprocess_params: {x} is not bound to a literal")
            try:
                return Fraction(x)
            except Exception:
                raise core.AnchorMissing(f"preprocess_params: multiplier {x!r} is not a number")
    raise core.AnchorMissing("preprocess_params: no np.ceil(radius + gaussian * <factor>)")


def _patterns(src):
    node = src.find(REL, "parse_shape_string")
    for st in node.body:
        if isinstance(st, ast.Assign) and isinstance(st.value, ast.Dict):
            d = src.literal(st.value)
            if isinstance(d, dict) and d and all(isinstance(k, str) and isinstance(v, str) for k, v in d.items()):
                return [x for kv in d.items() for x in kv]
    raise core.AnchorMissing("parse_shape_string: <name> = {str: str literal}")


def _labels(flat):
    """compile `^lit(\\d+)lit(\\d+)...$` into its literal pieces"""
    out = []
    for name, pat in zip(flat[0::2], flat[1::2]):
        if not (pat.startswith("^") and pat.endswith("$")):
            raise core.AnchorMissing(f"pattern {pat!r} is not anchored ^...$")
        pieces = pat[1:-1].split(r"(\d+)")
        if pieces[-1] != "" or len(pieces) < 2 or not all(re.fullmatch(r"[a-z_]+", p) for p in pieces[:-1]):
            raise core.AnchorMissing(f"pattern {pat!r} is not of the form ^label(\\d+)...(\\d+)$")
        out.append((name, pieces[:-1]))
    return out


def _lean_labels(labels):
    def chars(s):
        return "[" + ", ".join("'" + c + "'" for c in s) + "]"
    return "[" + ", ".join("(" + core.lean_str(n) + ", [" + ", ".join(chars(p) for p in ps) + "])" for n, ps in labels) + "]"


def translate(src):
    sigs, bodies = {}, {}
    for key, rel, fn in FUNCS:
        v = src.anchor(f"{fn}:signature+body", lambda: _canon(src.find(rel, fn)))
        if isinstance(v, tuple):
            sigs[key], bodies[key] = v
        else:
            sigs[key], bodies[key] = DOC_SIG[key], DOC_BODY[key]      # documented value, the anchor is recorded as missing
    bf = src.anchor("preprocess_params:blur_factor", lambda: str(_blur_factor(bodies["preprocess_params"])))
    fr = Fraction(bf) if bf is not None else Fraction(DOC_BLUR)

    def expansion():
        for s in sigs["generate_mask"]:
            m = re.fullmatch(r"mask_expansion=(\d+)", s)
            if m:
                return int(m.group(1))
        raise core.AnchorMissing("generate_mask(..., mask_expansion=<int>)")

    exp = src.anchor("generate_mask:mask_expansion-default", expansion)
    pp = src.anchor("parse_shape_string:patterns", lambda: _patterns(src))
    pp = pp if isinstance(pp, list) else DOC_PATTERNS
    lab = src.anchor("parse_shape_string:labels", lambda: [[n] + ps for n, ps in _labels(pp)])
    labels = [(x[0], x[1:]) for x in lab] if isinstance(lab, list) else _labels(DOC_PATTERNS)
    lines = [f"-- GENERATED by harness/props/c13.py from {REL}; do not edit",
             "namespace CryoCat.Gen.C13",
             f"def anchorsOk : Bool := {'true' if src.ok else 'false'}",
             f"def blurFactorNum : Int := {fr.numerator}",
             f"def blurFactorDen : Nat := {fr.denominator}",
             f"def maskExpansionDefault : Nat := {exp if isinstance(exp, int) and exp >= 0 else DOC_EXPANSION}",
             f"def parsePatterns : List String := {core.lean_str_list(pp)}",
             f"def shapeLabels : List (String × List (List Char)) := {_lean_labels(labels)}"]
    for key, _, _ in FUNCS:
        lines.append(f"def sig_{key} : List String := {core.lean_str_list(sigs[key])}")
        lines.append(f"def body_{key} : List String := {core.lean_str_list(bodies[key])}")
    lines.append("end CryoCat.Gen.C13")
    return "\n".join(lines) + "\n"


# ------------------------------------------------------------------ helpers
def _val(nd):
    """[num, den] -> python number as a user would pass it (int when integral)"""
    if nd is None:
        return None
    n, d = nd
    return int(n // d) if n % d == 0 else n / d


def _fr(nd):
    return Fraction(nd[0], nd[1])


def _enc_soft(a):
    return base64.b64encode(zlib.compress(np.ascontiguousarray(a, dtype=np.float64).tobytes(), 1)).decode()


def _dec_soft(s, shape):
    return np.frombuffer(zlib.decompress(base64.b64decode(s)), dtype=np.float64).reshape(shape)


def _enc_hard(a):
    """0/1/-1 array -> string; None if other values occur"""
    v = np.asarray(a)
    if v.dtype == bool:
        v = v.astype(np.int8)
    flat = v.ravel()
    ok = np.isin(flat, (0, 1, -1)).all()
    if not ok:
        return None
    lut = np.array(list("m01"))
    return "".join(lut[(flat.astype(np.int64) + 1)])


def _str2arr(s, shape):
    a = np.frombuffer(s.encode(), dtype=np.uint8)
    out = np.where(a == ord("1"), 1, np.where(a == ord("0"), 0, np.where(a == ord("m"), -1, 9))).astype(np.int8)
    return out.reshape(shape)


def _where(e):
    """innermost traceback frame inside the library ('' when the exception never passed through /cryocat/)"""
    for fr in reversed(traceback.extract_tb(e.__traceback__)):
        if "/cryocat/" in fr.filename:
            return f"{os.path.basename(fr.filename)}:{fr.lineno}"
    return ""


def _err(e):
    return {"error": f"{type(e).__name__}: {str(e)[:300]}", "where": _where(e)}


def _raised(obs, model, outside_quantifier=False):
    """findings for an observation that is an exception (G4: only a frame inside /cryocat/ makes it the library's)"""
    if not obs.get("where"):
        return [dict(kind="corr", clause="harness-or-library-raised", detail=f"{obs['error']} (no traceback frame inside /cryocat/)")]
    if isinstance(model, dict) and str(model.get("error", "")).startswith("reject"):
        return []      # the model says the real code raises here (outside the property's quantifier)
    if outside_quantifier:
        return [dict(kind="corr", clause="raises-where-model-does-not", detail=obs["error"] + " @" + obs["where"])]
    return [dict(kind="spec", clause="raises", detail=obs["error"] + " @" + obs["where"])]


# ------------------------------------------------------------------ the statement, evaluated independently (integers)
def _sphere(box, c, r):
    """voxels with distance <= r (r a Fraction >= 0)"""
    i, j, k = np.indices(box, dtype=np.int64)
    d2 = (i - c[0]) ** 2 + (j - c[1]) ** 2 + (k - c[2]) ** 2
    if r < 0:
        return np.zeros(box, dtype=bool)
    return d2 * r.denominator ** 2 <= r.numerator ** 2


def _cylinder(box, c, r, height):
    i, j, k = np.indices(box, dtype=np.int64)
    d2 = (i - c[0]) ** 2 + (j - c[1]) ** 2
    disc = (d2 * r.denominator ** 2 <= r.numerator ** 2) if r >= 0 else np.zeros(box, dtype=bool)
    return disc & (np.abs(k - c[2]) <= height // 2)


def _ellipsoid(box, c, radii):
    """(inside, tie): sum((i-c)/r)^2 <= 1 decided in integers for integer radii > 0 on even boxes; tie = voxels exactly on
    the surface for which IEEE double evaluation of the same sum (correctly rounded quotients, added z, y, x) lands above 1:
    only there does the outcome depend on rounding"""
    i, j, k = np.indices(box, dtype=np.int64)
    rx, ry, rz = [int(r) for r in radii]
    a, b, cc = (i - c[0]) ** 2, (j - c[1]) ** 2, (k - c[2]) ** 2
    lhs = a * (ry * ry * rz * rz) + b * (rx * rx * rz * rz) + cc * (rx * rx * ry * ry)
    rhs = rx * rx * ry * ry * rz * rz
    on = lhs == rhs
    if on.any():
        fl = (cc.astype(np.float64) / float(rz * rz) + b.astype(np.float64) / float(ry * ry)) + a.astype(np.float64) / float(rx * rx)
        tie = on & ~(fl <= 1.0)
    else:
        tie = on
    return lhs <= rhs, tie


def _defaults(case):
    box = case["box"]
    c = case["center"] if case.get("center") is not None else [b // 2 for b in box]
    return box, c


def _grow(r, g, outwards):
    """documented radius extension of an outwards blur: ceil(r + 5*sigma)"""
    if g != 0 and outwards:
        return Fraction(math.ceil(r + 5 * g))
    return r


def _expected(case, blurred):
    """(mask int8 array, ties bool array) demanded by the statement; blurred=True -> the extended (pre-blur) solid"""
    box, c = _defaults(case)
    kind = case["kind"]
    g = _fr(case["gauss"]) if blurred else Fraction(0)
    ow = case.get("outwards", True)
    no_ties = np.zeros(box, dtype=bool)
    if kind == "sphere":
        r = _fr(case["radius"]) if case.get("radius") is not None else Fraction(min(box) // 2)
        return _sphere(box, c, _grow(r, g, ow)).astype(np.int8), no_ties
    if kind == "cylinder":
        r = _fr(case["radius"]) if case.get("radius") is not None else Fraction(min(box[:2]) // 2)
        h = case["height"] if case.get("height") is not None else box[2]
        half = _grow(Fraction(h // 2), g, ow)
        return _cylinder(box, c, _grow(r, g, ow), 2 * int(half)).astype(np.int8), no_ties
    if kind == "ellipsoid":
        rr = [int(_fr(x)) for x in case["radii"]] if case.get("radii") is not None else [b // 2 for b in box]
        rr = [int(_grow(Fraction(x), g, ow)) for x in rr]
        m, t = _ellipsoid(box, c, rr)
        return m.astype(np.int8), t
    if kind == "s_shell":
        r = _fr(case["radius"]) if case.get("radius") is not None else Fraction(min(box) // 2)
        t = _fr(case["thick"]) / 2
        return (_sphere(box, c, r + t).astype(np.int8) - _sphere(box, c, r - t).astype(np.int8)), no_ties
    if kind == "e_shell":
        rr = [int(_fr(x)) for x in case["radii"]] if case.get("radii") is not None else [b // 2 for b in box]
        t = _fr(case["thick"]) / 2
        mo, to = _ellipsoid(box, c, [int(x + t) for x in rr])
        mi, ti = _ellipsoid(box, c, [int(x - t) for x in rr])
        return (mo & ~mi).astype(np.int8), to | ti
    raise ValueError(kind)


def _name_to_shape(case):
    """the constructor call the shape string stands for, with the documented box-size arithmetic"""
    specs, kind = case["specs"], case["kind"]
    s = case["mask_size"]
    if s is None:
        s = 2 * max(specs) + case["expansion"]
        s = -(-s // 2) * 2
    out = dict(t="shape", kind=kind, center=None, radius=None, height=None, radii=None, thick=[0, 1], gauss=[0, 1], outwards=True)
    if kind == "sphere":
        out.update(radius=[specs[0], 1])
    elif kind == "cylinder":
        out.update(radius=[specs[0], 1], height=specs[1])
    elif kind == "s_shell":
        s = -(-(s + specs[1]) // 2) * 2
        out.update(radius=[specs[0], 1], thick=[specs[1], 1])
    elif kind == "ellipsoid":
        out.update(radii=[[x, 1] for x in specs])
    elif kind == "e_shell":
        out.update(radii=[[x, 1] for x in specs[:3]], thick=[specs[3], 1])
    out["box"] = [s, s, s]
    return out


def _name_string(case):
    k, s = case["kind"], case["specs"]
    pad = case.get("zeros") or [0] * len(s)
    txt = ["0" * z + str(v) for v, z in zip(s, pad)]
    return {"sphere": "sphere_r{}", "cylinder": "cylinder_r{}_h{}", "s_shell": "s_shell_r{}_s{}", "ellipsoid": "ellipsoid_rx{}_ry{}_rz{}",
            "e_shell": "e_shell_rx{}_ry{}_rz{}_s{}"}[k].format(*txt) + ("\n" if case.get("newline") else "")


def _bool_spec(fn, bs):
    """the statement: OR, AND, AND-NOT, XOR (of all the masks: parity) voxel by voxel; dtype-free (Boolean arrays in, Boolean array out)"""
    if fn == "union":
        return np.logical_or.reduce(bs)
    if fn == "intersection":
        return np.logical_and.reduce(bs)
    if fn == "subtraction":
        return bs[0] & ~(np.logical_or.reduce(bs[1:]) if len(bs) > 1 else np.zeros(bs[0].shape, dtype=bool))
    if fn == "difference":
        return np.logical_xor.reduce(bs)
    raise ValueError(fn)


# ------------------------------------------------------------------ generators
def _box(rng, tier, even, soft=False):
    hi = {"quick": 16, "thorough": 48, "search": 14}[tier]
    if tier == "thorough" and (soft or rng.random() < 0.6):
        hi = 28 if rng.random() < 0.8 else 36
    if rng.random() < 0.12:
        n = rng.randint(6, hi)
        dims = [n, n, n]
    else:
        dims = [rng.randint(6, hi) for _ in range(3)]
    if even:
        dims = [d + (d % 2) if d < hi else d - (d % 2) for d in dims]
    return dims


def _radius(rng, box, frac=False):
    m = max(box)
    k = rng.random()
    if k < 0.25:
        r = rng.randint(1, 3)
    elif k < 0.75:
        r = rng.randint(1, max(2, min(box) // 2 + 1))
    elif k < 0.9:
        r = rng.randint(min(box) // 2, m)
    else:
        r = rng.randint(m, m + m // 2 + 3)   # beyond the box
    if frac and rng.random() < 0.25:
        return [4 * r + rng.choice([1, 2, 3]), 4]
    return [r, 1]


def _centre(rng, box):
    k = rng.random()
    if k < 0.3:
        return None
    if k < 0.45:   # on faces / corners
        return [rng.choice([0, b - 1, rng.randrange(b)]) for b in box]
    if k < 0.6:    # near the middle
        return [min(b - 1, max(0, b // 2 + rng.randint(-2, 2))) for b in box]
    return [rng.randrange(b) for b in box]


def _gauss(rng):
    if rng.random() < 0.62:
        return [0, 1], True
    return [rng.choice([1, 2, 3, 4, 5, 6]), 2], rng.random() < 0.6


def _omit(rng, case):
    """G1: a keyword whose value is the signature default is left out of the call in ~30 % of the cases"""
    kind = case["kind"]
    el = []
    if case.get("center") is None:
        el.append("center")
    if kind in ("sphere", "cylinder", "s_shell") and case.get("radius") is None:
        el.append("radius")
    if kind == "cylinder" and case.get("height") is None:
        el.append("height")
    if kind == "ellipsoid" and case.get("radii") is None:
        el.append("radii")
    if case["gauss"][0] == 0:
        el.append("gaussian")
    if kind in ("sphere", "cylinder", "ellipsoid") and case.get("outwards", True):
        el.append("gaussian_outwards")
    return sorted(k for k in el if rng.random() < 0.3)


def _blank(kind, box, g=(0, 1), ow=True):
    return dict(t="shape", kind=kind, box=list(box), center=None, radius=None, height=None, radii=None, thick=[0, 1], gauss=list(g), outwards=ow)


def _shape_case(rng, tier, hard=False, box=None, kinds=None):
    k = rng.random()
    if box is None and kinds is None and not hard:
        if k < 0.04:
            return _oversize_case(rng, tier)
        if k < 0.08:
            return _cyl34_case(rng, tier)
        if k < 0.13:
            return _ell_out_case(rng, tier)
        if k < 0.15:
            return _offbox_centre_case(rng, tier)
    kind = rng.choices(KINDS, weights=[26, 26, 22, 13, 13])[0] if kinds is None else rng.choice(kinds)
    g, ow = ([0, 1], True) if hard else _gauss(rng)
    soft = g[0] != 0
    if box is None:
        box = _box(rng, tier, even=kind in ("ellipsoid", "e_shell"), soft=soft)
    case = _blank(kind, box, g, ow)
    case["center"] = _centre(rng, box)
    if kind == "sphere":
        case["radius"] = None if rng.random() < 0.08 else _radius(rng, box, frac=True)
    elif kind == "cylinder":
        case["radius"] = None if rng.random() < 0.08 else _radius(rng, box, frac=True)
        k = rng.random()
        case["height"] = None if k < 0.08 else (rng.randint(1, 5) if k < 0.3 else (rng.randint(1, box[2] + 8) if k < 0.85 else rng.randint(box[2], 2 * box[2] + 6)))
    elif kind == "ellipsoid":
        case["radii"] = None if rng.random() < 0.08 else [_radius(rng, box) for _ in range(3)]
    elif kind == "s_shell":
        r = None if rng.random() < 0.08 else _radius(rng, box)
        case["radius"] = r
        r0 = r[0] if r is not None else min(box) // 2
        t = rng.randint(1, max(1, min(2 * r0, 8)))     # inner radius r - t/2 >= 0
        case["thick"] = [t, 1]
        case["outwards"] = True
    elif kind == "e_shell":
        rr = [[max(2, _radius(rng, box)[0]), 1] for _ in range(3)]
        case["radii"] = rr
        t = rng.randint(1, max(1, min(2 * min(x[0] for x in rr) - 2, 8)))   # inner radii int(r - t/2) >= 1
        case["thick"] = [t, 1]
        case["outwards"] = True
    case["omit"] = _omit(rng, case)
    return case


def _oversize_case(rng, tier):
    """radius at least the largest box dimension, centre near a corner: some corner of the box is still farther away"""
    kind = "sphere" if rng.random() < 0.7 else "s_shell"
    box = _box(rng, tier, even=False)
    c = [rng.choice([0, 1, b - 1, b - 2]) for b in box]
    far = math.isqrt(sum(max(x, b - 1 - x) ** 2 for x, b in zip(c, box)))
    m = max(box)
    r = rng.randint(m, max(m, far))
    case = _blank(kind, box)
    case["center"] = c
    if kind == "sphere":
        case["radius"] = [r, 1] if rng.random() < 0.8 else [4 * r + rng.choice([1, 2, 3]), 4]
    else:
        t = rng.choice([2, 4, 6])
        case["radius"] = [max(1, r - t // 2), 1]      # outer radius = r
        case["thick"] = [t, 1]
    case["omit"] = _omit(rng, case)
    return case


def _cyl34_case(rng, tier):
    """heights 3, 7, 11, 15, ... (h/2 = x.5 with x odd) with both end slices inside the box"""
    box = _box(rng, tier, even=False)
    hs = [h for h in range(3, box[2] - 1, 4)] or [3]
    h = rng.choice(hs)
    lo, hi = h // 2 + 1, box[2] - h // 2 - 2
    case = _blank("cylinder", box)
    case["height"] = h
    case["radius"] = _radius(rng, box, frac=True)
    c = _centre(rng, box)
    if c is not None and lo <= hi:
        c[2] = rng.randint(lo, hi)
    case["center"] = c
    case["omit"] = _omit(rng, case)
    return case


def _ell_out_case(rng, tier):
    """small ellipsoid, blurred outwards with a wide Gaussian, in a box that leaves room for the extension"""
    hi = {"quick": 16, "thorough": 36, "search": 14}[tier]
    box = [rng.choice([hi - 2, hi]) if rng.random() < 0.7 else 2 * rng.randint(4, hi // 2) for _ in range(3)]
    case = _blank("ellipsoid", box, [rng.choice([3, 4, 5, 6]), 2], True)
    case["radii"] = [[rng.randint(1, 3), 1] for _ in range(3)]
    case["center"] = None if rng.random() < 0.5 else [b // 2 + rng.randint(-1, 1) for b in box]
    case["omit"] = _omit(rng, case)
    return case


def _offbox_centre_case(rng, tier):
    """OUTSIDE the quantifier (centres in the box): negative centre indices wrap in numpy, indices beyond the box raise;
    judged against the model only"""
    kind = rng.choice(["sphere", "cylinder", "s_shell"])
    box = _box(rng, "quick" if tier != "search" else tier, even=False)
    c = [rng.randrange(b) for b in box]
    ax = rng.randrange(3 if kind != "cylinder" else 2)
    c[ax] = rng.choice([-1, -2, -box[ax], -box[ax] - 1, box[ax], box[ax] + 3, -rng.randint(1, box[ax])])
    case = _blank(kind, box)
    case["center"] = c
    case["radius"] = [rng.randint(1, max(box)), 1]
    if kind == "cylinder":
        case["height"] = rng.randint(1, box[2] + 4)
    if kind == "s_shell":
        case["thick"] = [rng.randint(1, min(2 * case["radius"][0], 6)), 1]
    case["extra"] = "centre-outside-box"
    case["omit"] = []
    return case


def _name_case(rng, tier, kind=None, specs=None):
    kind = kind or rng.choice(KINDS)
    hi = {"quick": 6, "thorough": 20, "search": 5}[tier]
    n = {"sphere": 1, "cylinder": 2, "s_shell": 2, "ellipsoid": 3, "e_shell": 4}[kind]
    if specs is None:
        specs = [rng.randint(1, hi) for _ in range(n)]
        if kind == "cylinder" and rng.random() < 0.3:
            specs[1] = rng.choice([3, 7, 11, 15])
        if kind == "s_shell":
            specs[1] = rng.randint(1, max(1, min(2 * specs[0], 8)))
        if kind == "e_shell":
            specs = [max(2, s) for s in specs[:3]] + [rng.randint(1, max(1, min(2 * min(max(2, s) for s in specs[:3]) - 2, 8)))]
    ms = None
    if rng.random() < 0.4:
        ms = rng.randint(6, {"quick": 16, "thorough": 40, "search": 14}[tier])
        if kind in ("ellipsoid", "e_shell"):
            ms += ms % 2
    e = rng.choice([4, 4, 4, 0, 1, 3, 6])
    omit = sorted(k for k, isdef in (("mask_size", ms is None), ("mask_expansion", e == 4)) if isdef and rng.random() < 0.5)
    case = dict(t="name", kind=kind, specs=list(specs), mask_size=ms, expansion=e, omit=omit)
    if rng.random() < 0.1:
        case["zeros"] = [rng.choice([0, 1, 2]) for _ in specs]
    if rng.random() < 0.03:
        case["newline"] = True
    return case


def _vals(rng, n, flavour, dtype, prev):
    """n float64 bit patterns of values exactly representable in `dtype`"""
    if flavour == "binary":
        style = rng.random()
        if style < 0.1 and prev:
            v = [b2f(b) for b in prev[rng.randrange(len(prev))]]
        elif style < 0.2 and prev:
            v = [1.0 - b2f(b) for b in prev[rng.randrange(len(prev))]]
        elif style < 0.27:
            v = [rng.choice([0.0, 1.0])] * n
        else:
            p = rng.choice([0.15, 0.5, 0.85])
            v = [1.0 if rng.random() < p else 0.0 for _ in range(n)]
    else:
        if rng.random() < 0.5:
            v = [rng.choice([0.0, 1.0, rng.random(), rng.randint(0, 16) / 16.0]) for _ in range(n)]
        else:
            v = [rng.random() for _ in range(n)]
        if dtype == "float32":
            v = [float(np.float32(x)) for x in v]
    return [f2b(x) for x in v]


def _pool(rng, shape, k, flavour):
    n = int(np.prod(shape))
    if flavour == "soft":
        dts = [rng.choice(["float64", "float64", "float32"]) for _ in range(k)]
    elif rng.random() < 0.5:
        dts = [rng.choice(BIN_DTYPES)] * k
    else:
        dts = [rng.choice(BIN_DTYPES) for _ in range(k)]
    masks, prev = [], []
    for m in range(k):
        if flavour == "soft" and prev and rng.random() < 0.15:
            bits = _vals(rng, n, "binary", dts[m], [])
        else:
            bits = _vals(rng, n, flavour if flavour != "ctor" else "binary", dts[m], prev if flavour != "soft" else [])
        prev.append(bits)
        masks.append(dict(dtype=dts[m], bits=bits))
    return masks


def _algebra_case(rng, tier):
    hi = {"quick": 8, "thorough": 12, "search": 6}[tier]
    k = rng.choice([1, 2, 2, 2, 3, 3, 4, 5])
    f = rng.random()
    flavour = "binary" if f < 0.5 else ("soft" if f < 0.75 else "ctor")
    if rng.random() < 0.01:
        return dict(t="algebra", fn=rng.choice(FNS), shape=[2, 2, 2], flavour="binary", masks=[], explicit_none=False, extra="empty-list")
    if flavour == "ctor":
        shape = [2 * rng.randint(3, max(3, hi // 2)) for _ in range(3)]
        masks = _pool(rng, shape, k, "ctor")
        for i in range(k):
            if rng.random() < 0.7 or i == 0:
                masks[i] = dict(ctor=_shape_case(rng, tier, hard=True, box=shape, kinds=KINDS))
    else:
        shape = [rng.randint(2, hi) for _ in range(3)]
        masks = _pool(rng, shape, k, flavour)
    return dict(t="algebra", fn=rng.choice(FNS), shape=shape, flavour=flavour, masks=masks, explicit_none=rng.random() < 0.3)


def _session_case(rng, tier):
    tier = "quick" if tier == "thorough" else tier      # sessions are about state carried between calls, not about size
    k = rng.random()
    if k < 0.4:      # one list of arrays through several functions, rewritten in place between the calls
        hi = {"quick": 6, "thorough": 10, "search": 5}[tier]
        shape = [rng.randint(2, hi) for _ in range(3)]
        flavour = "binary" if rng.random() < 0.7 else "soft"
        pool = _pool(rng, shape, rng.choice([2, 2, 3, 4]), flavour)
        steps = []
        for s in range(rng.choice([2, 3, 3, 4])):
            st = dict(fn=rng.choice(FNS))
            if s > 0 and rng.random() < 0.5:
                i = rng.randrange(len(pool))
                st["rewrite"] = dict(i=i, bits=_vals(rng, int(np.prod(shape)), flavour, pool[i]["dtype"], []))
            steps.append(st)
        return dict(t="session", mode="algebra", shape=shape, flavour=flavour, masks=pool, steps=steps)
    if k < 0.75:     # the same shape name for different boxes
        first = _name_case(rng, tier)
        steps = [first]
        sizes = [first["mask_size"]]
        for _ in range(rng.choice([1, 2, 2, 3])):
            nxt = _name_case(rng, tier, kind=first["kind"], specs=first["specs"])
            if nxt["mask_size"] in sizes and nxt["expansion"] == first["expansion"]:
                nxt["mask_size"] = (max(s or 0 for s in sizes) or 10) + 2 * rng.randint(1, 3)
                nxt["omit"] = [o for o in nxt["omit"] if o != "mask_size"]
            sizes.append(nxt["mask_size"])
            steps.append(nxt)
            if rng.random() < 0.25:
                steps.append(_name_case(rng, tier))
        return dict(t="session", mode="name", steps=steps)
    # the same mask_size / center arrays for several constructors
    even = rng.random() < 0.5
    box = _box(rng, "quick" if tier != "search" else tier, even=even)
    kinds = KINDS if even else ["sphere", "cylinder", "s_shell"]
    centre = _centre(rng, box)
    steps = []
    for _ in range(rng.choice([2, 2, 3])):
        st = _shape_case(rng, tier, hard=rng.random() < 0.8, box=box, kinds=kinds)
        if st["gauss"][0] != 0 and max(box) > 16:
            st["gauss"] = [0, 1]
        st["center"] = centre
        st["omit"] = [o for o in _omit(rng, st)]
        steps.append(st)
    return dict(t="session", mode="shape", box=box, center=centre, steps=steps)


def generate(rng, tier, n):
    for _ in range(n):
        k = rng.random()
        if k < 0.56:
            yield _shape_case(rng, tier)
        elif k < 0.66:
            yield _name_case(rng, tier)
        elif k < 0.88:
            yield _algebra_case(rng, tier)
        else:
            yield _session_case(rng, tier)


def shrink(case):
    if case["t"] == "session":
        # a session is kept a session of >= 2 calls (module-level state left behind by EARLIER cases of the same run must not
        # make a single call look failing: the stored replay has to fail in a fresh process)
        st = case["steps"]

        def ok(steps):
            if len(steps) < 2:
                return False
            if case["mode"] == "name":      # still the same name for two different boxes
                f = steps[0]
                return len({(s["mask_size"], s["expansion"]) for s in steps if s["kind"] == f["kind"] and s["specs"] == f["specs"]}) >= 2
            return True
        cands = [st[:-1], [st[0], st[-1]]]
        if case["mode"] != "algebra" or not (len(st) > 1 and st[1].get("rewrite")):
            cands.append(st[1:])
        for c in cands:
            if len(c) < len(st) and ok(c):
                yield dict(case, steps=c)
        return
    if case["t"] == "algebra":
        ms = case["masks"]
        if len(ms) > 1:
            for i in range(len(ms)):
                if not (case["fn"] == "subtraction" and i == 0 and len(ms) == 2):
                    yield dict(case, masks=ms[:i] + ms[i + 1:])
        if any("ctor" in m for m in ms):
            return
        shp = case["shape"]
        for ax in range(3):
            if shp[ax] > 1:
                new = list(shp); new[ax] = shp[ax] // 2 if shp[ax] > 3 else shp[ax] - 1
                def cut(m):
                    a = np.array(m["bits"], dtype=np.uint64).reshape(shp)
                    sl = [slice(None)] * 3; sl[ax] = slice(0, new[ax])
                    return dict(m, bits=[int(x) for x in a[tuple(sl)].ravel()])
                yield dict(case, shape=new, masks=[cut(m) for m in ms])
        for i, m in enumerate(ms):
            if m["dtype"] != "float64":
                yield dict(case, masks=ms[:i] + [dict(m, dtype="float64")] + ms[i + 1:])
        return
    if case["t"] == "name":
        if case["mask_size"] is not None:
            yield dict(case, mask_size=None)
        if case["expansion"] != 4:
            yield dict(case, expansion=4)
        if case.get("zeros"):
            yield dict(case, zeros=None)
        if case.get("omit"):
            yield dict(case, omit=[])
        for i, s in enumerate(case["specs"]):
            if s > 2:
                sp = list(case["specs"]); sp[i] = max(2, s // 2)
                yield dict(case, specs=sp)
        return
    even = case["kind"] in ("ellipsoid", "e_shell")
    box = case["box"]
    if case["gauss"][0] != 0:
        yield dict(case, gauss=[0, 1], omit=[])
    if case.get("omit"):
        yield dict(case, omit=[])
    for ax in range(3):
        for nb in (6, box[ax] // 2, box[ax] - (2 if even else 1)):
            nb += nb % 2 if even else 0
            if 6 <= nb < box[ax]:
                new = list(box); new[ax] = nb
                c = case.get("center")
                if c is not None:
                    c = list(c); c[ax] = min(c[ax], nb - 1)
                yield dict(case, box=new, center=c)
    if case.get("center") is not None and not case.get("extra"):
        yield dict(case, center=None)
    if case.get("radius") is not None and case["radius"][0] > case["radius"][1]:
        r = case["radius"]
        yield dict(case, radius=[max(1, (r[0] // r[1]) // 2), 1])
        if r[1] != 1:
            yield dict(case, radius=[r[0] // r[1], 1])
    if case.get("height") is not None and case["height"] > 1:
        yield dict(case, height=max(1, case["height"] // 2))
        yield dict(case, height=case["height"] - 1)
    if case.get("radii") is not None and case["kind"] == "ellipsoid":
        for i in range(3):
            if case["radii"][i][0] > 1:
                rr = [list(x) for x in case["radii"]]; rr[i] = [max(1, rr[i][0] // 2), 1]
                yield dict(case, radii=rr)


# ------------------------------------------------------------------ implementation
def _call_shape(cm, case, box_arg=None, centre_arg=None):
    kind, box = case["kind"], case["box"]
    g = _val(case["gauss"])
    ow = case.get("outwards", True)
    omit = set(case.get("omit") or [])
    size = list(box) if box_arg is None else box_arg
    c = case.get("center")
    kw = dict(center=(list(c) if c is not None else None) if centre_arg is None else centre_arg, gaussian=g)
    default = dict(center=None, gaussian=0, gaussian_outwards=True, radius=None, height=None, radii=None)
    if kind == "sphere":
        fn, args = cm.spherical_mask, (size,)
        kw.update(radius=_val(case.get("radius")), gaussian_outwards=ow)
    elif kind == "cylinder":
        fn, args = cm.cylindrical_mask, (size,)
        kw.update(radius=_val(case.get("radius")), height=case.get("height"), gaussian_outwards=ow)
    elif kind == "ellipsoid":
        fn, args = cm.ellipsoid_mask, (size,)
        kw.update(radii=[_val(x) for x in case["radii"]] if case.get("radii") is not None else None, gaussian_outwards=ow)
    elif kind == "s_shell":
        fn, args = cm.spherical_shell_mask, (size, _val(case["thick"]))
        kw.update(radius=_val(case.get("radius")))
    elif kind == "e_shell":
        fn, args = cm.ellipsoid_shell_mask, (size, _val(case["thick"]), [_val(x) for x in case["radii"]])
    else:
        raise ValueError(kind)
    for k in omit:
        if k in kw:
            if not (kw[k] is None if default[k] is None else kw[k] == default[k]):
                raise RuntimeError(f"harness: keyword {k} omitted although its value {kw[k]!r} is not the default")
            del kw[k]
    return fn(*args, **kw)


def _observe(out, soft):
    arr = np.asarray(out)
    obs = dict(shape=list(arr.shape), dtype=str(arr.dtype), pytype=type(out).__name__)
    if arr.dtype.kind not in "biuf":      # G3: a mask must come back numeric
        obs["nonnumeric"] = repr(arr.ravel()[:3].tolist())[:120]
        return obs
    if soft:
        a = arr.astype(np.float64)
        obs.update(soft=_enc_soft(a), min=float(a.min()), max=float(a.max()), nan=bool(np.isnan(a).any()))
    else:
        obs["mask"] = _enc_hard(arr)
        if obs["mask"] is None:
            a = arr.astype(np.float64)
            obs.update(min=float(a.min()), max=float(a.max()))
    return obs


def _run_name(cm, case):
    name = _name_string(case)
    omit = set(case.get("omit") or [])
    kw = {}
    if "mask_size" not in omit or case["mask_size"] is not None:
        kw["mask_size"] = case["mask_size"]
    if "mask_expansion" not in omit or case["expansion"] != 4:
        kw["mask_expansion"] = case["expansion"]
    parsed = cm.parse_shape_string(name)
    out = cm.generate_mask(name, **kw)
    obs = _observe(out, False)
    try:
        obs["parsed"] = [parsed[0], [x if isinstance(x, (int, str, float)) and not isinstance(x, bool) else (int(x) if isinstance(x, np.integer) else repr(x)) for x in parsed[1]]]
        obs["parsed_types"] = [type(parsed).__name__, type(parsed[0]).__name__, type(parsed[1]).__name__] + [type(x).__name__ for x in parsed[1]]
    except Exception as e:
        obs["parsed"] = repr(parsed)[:200]
        obs["parsed_types"] = [type(parsed).__name__]
    direct = _name_to_shape(case)
    try:
        d = np.asarray(_call_shape(cm, direct))
        obs["same_as_direct"] = bool(d.shape == np.asarray(out).shape and np.array_equal(d, out))
    except Exception as e:
        obs["same_as_direct"] = f"direct call raised {type(e).__name__}: {e}"
    return obs


def _build_mask(cm, m, shape):
    if "ctor" in m:
        return np.asarray(_call_shape(cm, m["ctor"]))
    return np.array([b2f(b) for b in m["bits"]], dtype=np.float64).reshape(shape).astype(m["dtype"])


def _bits(a):
    return [f2b(x) for x in np.asarray(a, dtype=np.float64).ravel()]


def _call_algebra(cm, fn, lst, masks, explicit_none=False):
    """one call; caller-owned list and arrays are compared before/after"""
    before = [m.copy() for m in masks]
    ids = [id(x) for x in lst]
    pre = dict(inputs=[_bits(m) for m in masks], in_dtypes=[str(m.dtype) for m in masks])
    try:
        out = getattr(cm, fn)(lst, output_name=None) if explicit_none else getattr(cm, fn)(lst)
    except Exception as e:
        obs = _err(e)
        obs.update(pre)
        obs["mutated"] = _mutated(masks, before, lst, ids)
        return obs, None
    arr = np.asarray(out)
    obs = dict(shape=list(arr.shape), dtype=str(arr.dtype), pytype=type(out).__name__, **pre)
    if arr.dtype.kind not in "biuf":
        obs["nonnumeric"] = repr(arr.ravel()[:3].tolist())[:120]
    else:
        obs["out"] = _bits(arr)
    obs["mutated"] = _mutated(masks, before, lst, ids)
    obs["aliases_input"] = bool(any(np.shares_memory(arr, m) for m in masks))
    obs["same_object"] = bool(any(out is m for m in masks))
    return obs, arr


def _mutated(masks, before, lst, ids):
    mut = [i for i, (a, b) in enumerate(zip(masks, before)) if a.dtype != b.dtype or a.shape != b.shape or not np.array_equal(a, b, equal_nan=a.dtype.kind == "f")]
    if len(lst) != len(ids) or any(id(x) != y for x, y in zip(lst, ids)):
        mut.append("list")
    return mut


def _run_session(cm, case):
    steps = []
    if case["mode"] == "name":
        for st in case["steps"]:
            try:
                steps.append(_run_name(cm, st))
            except Exception as e:
                steps.append(_err(e))
        return dict(steps=steps)
    if case["mode"] == "shape":
        box = np.array(case["box"], dtype=np.int64)
        centre = np.array(case["center"], dtype=np.int64) if case.get("center") is not None else None
        for st in case["steps"]:
            b0, c0 = box.copy(), (None if centre is None else centre.copy())
            try:
                o = _observe(_call_shape(cm, st, box_arg=box, centre_arg=centre), st["gauss"][0] != 0)
            except Exception as e:
                o = _err(e)
            o["args_changed"] = [n for n, a, b in (("mask_size", box, b0), ("center", centre, c0)) if a is not None and not np.array_equal(a, b)]
            steps.append(o)
            box[...] = b0
            if centre is not None:
                centre[...] = c0
        return dict(steps=steps)
    shape = case["shape"]
    masks = [_build_mask(cm, m, shape) for m in case["masks"]]
    lst = list(masks)
    outs = []
    for st in case["steps"]:
        if st.get("rewrite"):      # the caller legitimately rewrites one of ITS arrays in place
            rw = st["rewrite"]
            masks[rw["i"]][...] = np.array([b2f(b) for b in rw["bits"]], dtype=np.float64).reshape(shape).astype(masks[rw["i"]].dtype)
        o, arr = _call_algebra(cm, st["fn"], lst, masks)
        if arr is not None:
            o["aliases_earlier_result"] = bool(any(np.shares_memory(arr, p) for p, _ in outs))
            outs.append((arr, arr.copy()))
        o["earlier_result_changed"] = [i for i, (p, q) in enumerate(outs[:-1] if arr is not None else outs) if not np.array_equal(p, q, equal_nan=True)]
        steps.append(o)
    return dict(steps=steps)


def run_impl(case):
    import warnings
    warnings.filterwarnings("ignore")
    from cryocat import cryomask as cm
    if case["t"] == "shape":
        return _observe(_call_shape(cm, case), case["gauss"][0] != 0)
    if case["t"] == "name":
        return _run_name(cm, case)
    if case["t"] == "algebra":
        shp = case["shape"]
        masks = [_build_mask(cm, m, shp) for m in case["masks"]]
        return _call_algebra(cm, case["fn"], list(masks), masks, case.get("explicit_none", False))[0]
    if case["t"] == "session":
        return _run_session(cm, case)
    raise ValueError(case["t"])


# ------------------------------------------------------------------ model requests
def _probe_voxels(case):
    """voxels at which the Lean kernel model is evaluated: core voxels (the outermost ones first), faces/corners, random ones"""
    box, c = _defaults(case)
    rnd = random.Random(json.dumps(case, sort_keys=True, default=str))
    vox = set()
    try:
        core_exp, _ = _expected(case, blurred=False)
        idx = np.argwhere(core_exp == 1)
        if len(idx):
            d = ((idx - np.array(c)) ** 2).sum(axis=1)
            for t in np.argsort(-d)[:6]:
                vox.add(tuple(int(x) for x in idx[t]))
            for _ in range(4):
                vox.add(tuple(int(x) for x in idx[rnd.randrange(len(idx))]))
    except Exception:
        pass
    for _ in range(4):
        vox.add(tuple(rnd.choice([0, b - 1]) for b in box))
    for _ in range(10):
        vox.add(tuple(rnd.randrange(b) for b in box))
    return sorted(vox)


def _req_shape(case):
    r = dict(op="shape", kind=case["kind"], box=case["box"], center=case.get("center"), radius=case.get("radius"), height=case.get("height"),
             radii=case.get("radii"), thick=case["thick"], gauss=case["gauss"], outwards=case.get("outwards", True))
    if case["gauss"][0] != 0:
        r["probe"] = [list(v) for v in _probe_voxels(case)]
    return r


def _req_name(case):
    return [dict(op="generate", kind=case["kind"], specs=case["specs"], mask_size=case["mask_size"], expansion=case["expansion"]),
            dict(op="parse", name=_name_string(case))]


def _req_algebra(fn, masks_spec, obs):
    if isinstance(obs, dict) and "inputs" in obs:
        ins = obs["inputs"]
    elif all("bits" in m for m in masks_spec):
        ins = [m["bits"] for m in masks_spec]
    else:
        ins = None
    return [dict(op="algebra", fn=fn, masks=ins)] if ins is not None else [dict(op="algebra", fn="none", masks=[])]


def requests(case, obs):
    if case["t"] == "shape":
        return [_req_shape(case)]
    if case["t"] == "name":
        return _req_name(case)
    if case["t"] == "algebra":
        return _req_algebra(case["fn"], case["masks"], obs)
    out = []
    sobs = obs.get("steps") if isinstance(obs, dict) else None
    for i, st in enumerate(case["steps"]):
        o = sobs[i] if sobs and i < len(sobs) else None
        if case["mode"] == "name":
            out += _req_name(st)
        elif case["mode"] == "shape":
            out.append(_req_shape(st))
        else:
            out += _req_algebra(st["fn"], [dict(nobits=1)], o)
    return out


# ------------------------------------------------------------------ judgement
def _first_diff(a, b, skip=None):
    d = a != b
    if skip is not None:
        d &= ~skip
    idx = np.argwhere(d)
    return (None, 0) if len(idx) == 0 else (tuple(int(x) for x in idx[0]), len(idx))


def _numeric(obs, out, label):
    if "nonnumeric" in obs:
        out.append(dict(kind="spec", clause=f"{label}-not-numeric", detail=f"returned array of dtype {obs['dtype']} ({obs['nonnumeric']}): a mask must hold numbers"))
        return False
    return True


def _judge_hard(case, obs, model, out, label, spec_ok=True):
    """case: a shape case (gauss 0); obs: observation of a hard mask.  spec_ok=False: outside the quantifier, model comparison only"""
    box = case["box"]
    if not _numeric(obs, out, label):
        return
    if obs["shape"] != list(box):
        out.append(dict(kind="spec", clause=f"{label}-box", detail=f"returned shape {obs['shape']}, requested box {box}"))
        return
    if obs.get("mask") is None:
        out.append(dict(kind="spec", clause=f"{label}-not-binary", detail=f"hard-edged mask holds values other than 0/1: min={obs.get('min')} max={obs.get('max')}"))
        return
    impl = _str2arr(obs["mask"], box)
    exp, ties = _expected(case, blurred=False)
    if spec_ok:
        v, n = _first_diff(impl, exp, ties)
        if v is not None:
            c = _defaults(case)[1]
            out.append(dict(kind="spec", clause=f"{label}-membership",
                            detail=f"{n} voxel(s) differ from the analytic inequality; first {v}: code {int(impl[v])}, statement {int(exp[v])} "
                                   f"(box {box}, centre {c}, radius {case.get('radius')}, height {case.get('height')}, radii {case.get('radii')}, thick {case.get('thick')})"))
    if "error" in model:
        out.append(dict(kind="corr", clause="model-rejects", detail=str(model)))
        return
    mm = _str2arr(model["mask"], box) if model["box"] == list(box) else None
    if mm is None:
        out.append(dict(kind="corr", clause="model-box", detail=f"model box {model['box']} vs {box}"))
        return
    mt = _str2arr(model["ties"], box).astype(bool) if model.get("ties") else np.zeros(box, dtype=bool)
    if (ties & ~mt).any():
        out.append(dict(kind="corr", clause="tie-sets", detail="a voxel where float and exact evaluation differ is not on the model's exact surface"))
    v, n = _first_diff(impl, mm, ties)
    if v is not None:
        out.append(dict(kind="corr", clause=f"{label}-vs-model", detail=f"{n} voxel(s) differ from the Lean model; first {v}: code {int(impl[v])}, model {int(mm[v])}"))
    if spec_ok:
        v, n = _first_diff(mm, exp)
        if v is not None:
            out.append(dict(kind="corr", clause="model-vs-statement", detail=f"Lean model and the independent evaluation differ at {v} ({n} voxels)"))


def _judge_name(case, obs, resps):
    out = []
    model = resps[0] if resps else {}
    pmodel = resps[1] if len(resps) > 1 else {}
    if "error" in obs:
        return _raised(obs, model)
    direct = _name_to_shape(case)
    name = _name_string(case)
    want = [case["kind"], list(case["specs"])]
    if obs["parsed"] != want:
        out.append(dict(kind="spec", clause="parse-shape-string", detail=f"{name!r} parsed as {obs['parsed']}, expected {want}"))
    elif obs["parsed_types"][:3] != ["tuple", "str", "list"] or any(t not in ("int", "int64", "int32") for t in obs["parsed_types"][3:]):
        out.append(dict(kind="spec", clause="parse-returns-non-integer", detail=f"{name!r}: returned types {obs['parsed_types']} (dimensions must be integers)"))
    if "error" in pmodel or [pmodel.get("kind"), pmodel.get("specs")] != (obs["parsed"] if isinstance(obs["parsed"], list) else None):
        out.append(dict(kind="corr", clause="parse-vs-model", detail=f"{name!r}: code {obs['parsed']}, Lean parser {pmodel}"))
    elif pmodel.get("format") != _name_string(dict(case, zeros=None, newline=False)):
        out.append(dict(kind="corr", clause="model-format", detail=f"Lean formatShape gives {pmodel.get('format')!r} for {want}"))
    if obs.get("same_as_direct") is not True:
        out.append(dict(kind="corr", clause="generator-vs-direct-constructor",
                        detail=f"generate_mask({name!r}, {case['mask_size']}, expansion {case['expansion']}) differs from the library's own direct constructor call "
                               f"on box {direct['box']}: {obs.get('same_as_direct')} (returned shape {obs['shape']})"))
    _judge_hard(direct, obs, model, out, "generator")
    return out


def _foot(ties, sigma):
    from scipy import ndimage
    rad = int(4 * sigma + 0.5)
    return ndimage.maximum_filter(ties.astype(np.uint8), size=2 * rad + 1, mode="constant") > 0


def _judge_shape(case, obs, model):
    out = []
    outside = bool(case.get("extra"))
    if "error" in obs:
        return _raised(obs, model, outside_quantifier=outside)
    if outside and "error" in model:
        return [dict(kind="corr", clause="model-rejects-where-code-returns", detail=f"{model} but the code returned an array of shape {obs.get('shape')}")]
    soft = case["gauss"][0] != 0
    if not soft:
        _judge_hard(case, obs, model, out, case["kind"], spec_ok=not outside)
        return out
    # ---- soft-edged mask
    box = case["box"]
    if not _numeric(obs, out, "soft"):
        return out
    if obs["shape"] != list(box):
        return [dict(kind="spec", clause="soft-box", detail=f"returned shape {obs['shape']}, requested {box}")]
    sigma = _val(case["gauss"])
    a = _dec_soft(obs["soft"], box)
    if obs["nan"] or obs["min"] < -SOFT_TOL or obs["max"] > 1 + SOFT_TOL:
        out.append(dict(kind="spec", clause="soft-range", detail=f"soft mask leaves [0,1]: min={obs['min']!r} max={obs['max']!r} nan={obs['nan']}"))
    from skimage import filters
    core_finding = None
    if case.get("outwards", True) and case["kind"] in ("sphere", "cylinder", "ellipsoid"):
        core_exp, _ = _expected(case, blurred=False)
        sel = core_exp == 1
        if sel.any():
            dev = float(np.max(1.0 - a[sel]))
            if not dev <= CORE_TOL:
                v = tuple(int(x) for x in np.argwhere(sel & ~(1.0 - a <= CORE_TOL))[0])
                core_finding = dict(kind="spec", clause="soft-core", detail=f"{case['kind']} blurred outwards, sigma={sigma}: core voxel {v} has value {float(a[v])!r} "
                                    f"(1 - value = {1 - a[v]:.3g} > 1e-3; box {box}, radius {case.get('radius')}, height {case.get('height')}, radii {case.get('radii')})")
                out.append(core_finding)
    pre_exp, t2 = _expected(case, blurred=True)
    if core_finding is not None and case["kind"] == "ellipsoid":
        # is this the documented construction (every radius enlarged to ceil(r + 5 sigma), then the library's Gaussian)?  Then it is
        # the open finding C13-K2: for elongated ellipsoids the enlarged ellipsoid does not contain the 5-sigma neighbourhood of the core
        ref = filters.gaussian(pre_exp.astype(bool), sigma=sigma)
        d = np.abs(ref - a)
        if t2.any():
            d = np.where(_foot(t2, sigma), 0.0, d)
        if float(d.max()) <= 1e-9:
            core_finding["known"] = "C13-K2"
    if "error" in model:
        out.append(dict(kind="corr", clause="model-rejects", detail=str(model)))
        return out
    pre = _str2arr(model["mask"], box)
    pre_in = pre.astype(bool) if case["kind"] in ("ellipsoid", "e_shell") else pre.astype(np.float64)
    ref = filters.gaussian(pre_in, sigma=sigma)
    foot = _foot(t2, sigma) if t2.any() else None
    dev = np.abs(ref - a)
    if foot is not None:
        dev = np.where(foot, 0.0, dev)      # a tie voxel falls the other way in floating point; ignore its footprint
    if float(dev.max()) > SOFT_TOL:
        v = tuple(int(x) for x in np.argwhere(dev > SOFT_TOL)[0])
        out.append(dict(kind="corr", clause="soft-vs-model", detail=f"soft mask differs from gaussian(model pre-blur mask) by {float(dev.max()):.3g} at {v}"))
    if model.get("blur") is not None:
        vox = _probe_voxels(case)
        if model.get("kernel_radius") != int(4 * sigma + 0.5):
            out.append(dict(kind="corr", clause="kernel-radius", detail=f"Lean kernelRadius {model.get('kernel_radius')} vs int(4*sigma+0.5) = {int(4 * sigma + 0.5)}"))
        worst, at = 0.0, None
        for v, b in zip(vox, model["blur"]):
            if foot is not None and foot[v]:
                continue
            e = abs(b2f(b) - float(a[v]))
            if not e <= worst:
                worst, at = e, v
        if not worst <= KERNEL_TOL:
            out.append(dict(kind="corr", clause="soft-vs-kernel-model", detail=f"voxel {at}: code {float(a[at])!r}, Lean blurAt (Gaussian weights, radius int(4 sigma+0.5), nearest) differs by {worst:.3g}"))
    v, n = _first_diff(pre, pre_exp, t2)
    if v is not None:
        out.append(dict(kind="corr", clause="model-vs-statement", detail=f"pre-blur model mask and documented extension ceil(r+5*sigma) differ at {v} ({n} voxels)"))
    return out


def _judge_algebra(fn, shp, masks_spec, obs, model, extra=None):
    out = []
    if "error" in obs:
        f = _raised(obs, model, outside_quantifier=bool(extra))
        if obs.get("mutated"):
            f.append(dict(kind="spec", clause=f"{fn}-modifies-input", detail=f"input mask(s) {obs['mutated']} changed by the (failing) call"))
        return f
    if extra:
        return [dict(kind="corr", clause="returns-where-model-rejects", detail=f"{extra}: code returned shape {obs.get('shape')}, model {model}")] if "error" in model else []
    ins = [np.array([b2f(b) for b in m], dtype=np.float64).reshape(shp) for m in obs["inputs"]]
    for i, m in enumerate(masks_spec or []):
        if "bits" in m and (obs["inputs"][i] != m["bits"] or obs["in_dtypes"][i] != m["dtype"]):
            out.append(dict(kind="corr", clause="harness-or-library-raised", detail=f"harness: input {i} was not built as the case says"))
        if "ctor" in m:
            exp, ties = _expected(m["ctor"], blurred=False)
            v, n = _first_diff(ins[i], exp.astype(np.float64), ties)
            if v is not None:
                out.append(dict(kind="spec", clause=f"{m['ctor']['kind']}-membership", detail=f"input {i} built by the library's constructor differs from the analytic shape at {v} ({n} voxels)"))
    if obs["mutated"]:
        out.append(dict(kind="spec", clause=f"{fn}-modifies-input", detail=f"input mask(s) {obs['mutated']} (dtypes {obs['in_dtypes']}) changed by the call"))
    if not _numeric(obs, out, fn):
        return out
    if obs["shape"] != list(shp):
        out.append(dict(kind="spec", clause=f"{fn}-shape", detail=f"result shape {obs['shape']} for inputs {shp}"))
        return out
    res = np.array([b2f(b) for b in obs["out"]], dtype=np.float64).reshape(shp)
    if np.isnan(res).any() or res.min() < 0.0 or res.max() > 1.0:
        out.append(dict(kind="spec", clause=f"{fn}-range", detail=f"result leaves [0,1]: min={res.min()!r} max={res.max()!r} (input dtypes {obs['in_dtypes']})"))
    if all(np.isin(m, (0.0, 1.0)).all() for m in ins):
        bs = [m == 1.0 for m in ins]
        want = _bool_spec(fn, bs)
        v, n = _first_diff(res, want.astype(np.float64))
        if v is not None:
            det = (f"{n} voxel(s) differ from the Boolean combination; first {v}: inputs {[float(m[v]) for m in ins]} (dtypes {obs['in_dtypes']}), "
                   f"code {float(res[v])}, statement {float(want[v])}")
            umi = np.logical_or.reduce(bs) & ~np.logical_and.reduce(bs)
            if fn == "difference" and len(bs) != 2 and np.array_equal(res, umi.astype(np.float64)):
                # exactly the documented union-minus-intersection: the open finding C13-K1 (and nothing else)
                out.append(dict(kind="spec", clause="difference-xor-n-masks", known="C13-K1",
                                detail=f"difference of {len(bs)} mask(s) is union minus intersection, not their XOR: " + det))
            elif fn == "difference" and len(bs) != 2:
                v2, n2 = _first_diff(res, umi.astype(np.float64))
                out.append(dict(kind="spec", clause="difference-voxelwise", detail=f"difference of {len(bs)} mask(s) is neither their XOR nor union minus intersection "
                                f"({n2} voxel(s) differ from the latter, first {v2}: code {float(res[v2])}); vs XOR: " + det))
            else:
                out.append(dict(kind="spec", clause=f"{fn}-voxelwise", detail=det))
        ms = model.get("spec")
        if ms is not None and ms != "".join("1" if x else "0" for x in want.ravel()):
            out.append(dict(kind="corr", clause="spec-evaluators-differ", detail="Lean specVox and the numpy Boolean evaluation of the statement differ"))
    if "error" in model:
        out.append(dict(kind="corr", clause="model-rejects", detail=str(model)))
    elif model["out"] != obs["out"]:
        i = next((i for i, (x, y) in enumerate(zip(model["out"], obs["out"])) if x != y), None)
        out.append(dict(kind="corr", clause=f"{fn}-vs-model", detail=f"flat voxel {i}: code {b2f(obs['out'][i]) if i is not None else None!r}, model {b2f(model['out'][i]) if i is not None else None!r}"))
    if obs["dtype"] != "float64":
        out.append(dict(kind="corr", clause="result-dtype", detail=f"result dtype {obs['dtype']} (the model accumulates in float64) for input dtypes {obs['in_dtypes']}"))
    if obs.get("aliases_input") or obs.get("same_object"):
        out.append(dict(kind="corr", clause="result-aliases-input", detail=f"the result shares memory with an input (same object: {obs.get('same_object')}): the model returns a fresh array"))
    if obs.get("aliases_earlier_result") or obs.get("earlier_result_changed"):
        out.append(dict(kind="corr", clause="result-aliases-earlier-result", detail=f"shares memory with an earlier result: {obs.get('aliases_earlier_result')}; earlier results changed: {obs.get('earlier_result_changed')}"))
    return out


def judge(case, obs, resps):
    if case["t"] == "shape":
        return _judge_shape(case, obs, resps[0] if resps else {})
    if case["t"] == "name":
        return _judge_name(case, obs, resps)
    if case["t"] == "algebra":
        return _judge_algebra(case["fn"], case["shape"], case["masks"], obs, resps[0] if resps else {}, case.get("extra"))
    if "error" in obs:
        return _raised(obs, {})
    out = []
    per = 2 if case["mode"] == "name" else 1
    for i, (st, o) in enumerate(zip(case["steps"], obs["steps"])):
        rs = resps[i * per:(i + 1) * per]
        if case["mode"] == "name":
            fs = _judge_name(st, o, rs)
        elif case["mode"] == "shape":
            fs = _judge_shape(st, o, rs[0] if rs else {})
            if o.get("args_changed"):
                fs.append(dict(kind="corr", clause="constructor-modifies-argument", detail=f"{st['kind']}: caller's {o['args_changed']} array changed by the call"))
        else:
            fs = _judge_algebra(st["fn"], case["shape"], case["masks"] if i == 0 else None, o, rs[0] if rs else {})
        for f in fs:
            f["detail"] = f"call {i + 1} of {len(case['steps'])} in one process ({st.get('fn') or st.get('kind')}): " + f["detail"]
        out += fs
    return out


def classify(case, obs, finding):
    """open known findings: C13-K1 (difference of n != 2 masks is union minus intersection, not XOR),
    C13-K2 (outwards-blurred elongated ellipsoid built exactly as documented loses more than 1e-3 in its core)"""
    return finding.get("known")


# ------------------------------------------------------------------ evidence
def _nontrivial_one(case, obs):
    if not isinstance(obs, dict) or "error" in obs or "nonnumeric" in obs:
        return False
    if case["t"] == "algebra":
        vals = set(obs.get("out") or [])
        return len(case["masks"]) >= 2 and f2b(0.0) in vals and f2b(1.0) in vals
    if case["t"] == "name":
        return obs.get("mask") is not None and "0" in obs["mask"] and "1" in obs["mask"]
    if case["gauss"][0] != 0:
        return obs["max"] > 0.5 and obs["min"] < 0.5
    m = obs.get("mask") or ""
    if not ("0" in m and "1" in m):
        return False
    box = case["box"]
    a = _str2arr(m, box)
    clipped = bool(a[0].any() or a[-1].any() or a[:, 0].any() or a[:, -1].any() or a[:, :, 0].any() or a[:, :, -1].any())
    return clipped or case.get("center") is not None


def nontrivial(case, obs):
    if case["t"] == "session":
        return "steps" in obs and len(obs["steps"]) >= 2 and not any("error" in o for o in obs["steps"])
    return _nontrivial_one(case, obs)


def _bucket(n):
    return "6-10" if n <= 10 else ("11-16" if n <= 16 else ("17-28" if n <= 28 else "29-48"))


def _stats_shape(case, obs, resp):
    st = {"kind": case["kind"]}
    box = case["box"]
    st["box_max"] = _bucket(max(box))
    st["box_form"] = "cubic" if len(set(box)) == 1 else "non-cubic"
    c = case.get("center")
    st["centre"] = "default" if c is None else ("outside-box" if case.get("extra") else ("on-face" if any(x == 0 or x == b - 1 for x, b in zip(c, box)) else "interior"))
    st["gauss"] = str(_val(case["gauss"]))
    st["omitted_keywords"] = list(case.get("omit") or []) or ["none"]
    if case["gauss"][0] != 0:
        st["edge_mode"] = ("outwards" if case.get("outwards", True) else "centred") + ("(default)" if "gaussian_outwards" in (case.get("omit") or []) else "")
    if case["kind"] in ("sphere", "cylinder") and case.get("radius") is not None:
        r = _fr(case["radius"])
        st["radius_vs_box"] = "beyond" if r >= max(box) else ("> half of min" if 2 * r > min(box) else "inside")
        st["radius_grid"] = "integer" if case["radius"][1] == 1 else "fractional"
        if case["kind"] == "sphere" and r >= max(box) and c is not None:
            far2 = sum(max(x, b - 1 - x) ** 2 for x, b in zip(c, box))
            st["oversize_sphere"] = "some corner outside" if r * r < far2 else "whole box inside"
    if case["kind"] == "cylinder" and case.get("height") is not None and not case.get("extra"):
        cz = c[2] if c is not None else box[2] // 2
        h = case["height"] // 2
        st["cyl_slab"] = ("clip-lo" if cz - h < 0 else "") + ("clip-hi" if cz + h + 1 > box[2] else "") or "inside"
        st["cyl_height_mod4"] = case["height"] % 4
    if case["kind"] in ("ellipsoid", "e_shell") and not case.get("extra"):
        try:
            n = int(_expected(case, blurred=case["gauss"][0] != 0)[1].sum())
            st["ellipsoid_float_tie_voxels"] = "0" if n == 0 else ("1-6" if n <= 6 else ">6")
        except Exception:
            pass
        if isinstance(resp, dict) and resp.get("ties"):
            st["ellipsoid_exact_surface_voxels"] = "0" if "1" not in resp["ties"] else ("1-6" if resp["ties"].count("1") <= 6 else ">6")
    if isinstance(obs, dict):
        if "error" in obs:
            st["impl_error"] = obs["error"][:60]
        elif "dtype" in obs:
            st["returned_dtype"] = f"{case['kind']}:{obs['dtype']}"
    return st


def _stats_algebra(fn, masks, obs):
    st = dict(fn=fn, n_masks=len(masks))
    if isinstance(obs, dict):
        if obs.get("in_dtypes"):
            st["input_dtype"] = sorted(set(obs["in_dtypes"]))
            st["dtype_mix"] = "mixed" if len(set(obs["in_dtypes"])) > 1 else "uniform"
            st["first_operand_dtype"] = f"{fn}:{obs['in_dtypes'][0]}"
        if "dtype" in obs:
            st["result_dtype"] = obs["dtype"]
        if "error" in obs:
            st["impl_error"] = obs["error"][:60]
    return st


def stats(case, obs, resps):
    st = {"type": case["t"] if case["t"] != "session" else "session-" + case["mode"]}
    if case["t"] == "algebra":
        st.update(_stats_algebra(case["fn"], case["masks"], obs))
        st["flavour"] = case["flavour"]
        st["masks_from_constructors"] = sum(1 for m in case["masks"] if "ctor" in m)
        st["output_name"] = "explicit None" if case.get("explicit_none") else "omitted"
        return st
    if case["t"] == "name":
        st["kind"] = case["kind"]
        st["name_mask_size"] = ("default" if case["mask_size"] is None else "given") + ("(omitted)" if "mask_size" in (case.get("omit") or []) else "")
        st["name_expansion"] = str(case["expansion"]) + ("(omitted)" if "mask_expansion" in (case.get("omit") or []) else "")
        st["name_form"] = "leading-zeros" if case.get("zeros") and any(case["zeros"]) else ("trailing-newline" if case.get("newline") else "canonical")
        if isinstance(obs, dict) and obs.get("parsed_types"):
            st["parsed_types"] = ",".join(sorted(set(obs["parsed_types"][3:])))
        return st
    if case["t"] == "session":
        st["session_calls"] = len(case["steps"])
        if case["mode"] == "algebra":
            st["session_rewrites"] = sum(1 for s in case["steps"] if s.get("rewrite"))
            st["session_fns"] = [s["fn"] for s in case["steps"]]
        elif case["mode"] == "name":
            first = case["steps"][0]
            st["same_name_distinct_boxes"] = len({(_name_to_shape(s)["box"][0]) for s in case["steps"] if s["kind"] == first["kind"] and s["specs"] == first["specs"]})
        else:
            st["session_kinds"] = [s["kind"] for s in case["steps"]]
        return st
    st.update(_stats_shape(case, obs, resps[0] if resps else None))
    return st


def sample_view(case):
    def mview(m):
        return dict(ctor=m["ctor"]) if "ctor" in m else dict(dtype=m["dtype"], first_values=[b2f(b) for b in m["bits"][:6]])
    if case["t"] == "algebra":
        return dict(t="algebra", fn=case["fn"], shape=case["shape"], flavour=case["flavour"], masks=[mview(m) for m in case["masks"]])
    if case["t"] == "session" and case["mode"] == "algebra":
        return dict(t="session", mode="algebra", shape=case["shape"], masks=[mview(m) for m in case["masks"]],
                    steps=[dict(fn=s["fn"], rewrites=(s["rewrite"]["i"] if s.get("rewrite") else None)) for s in case["steps"]])
    return case


def probes(rng):
    """the recorded assumptions about skimage.filters.gaussian, probed on an impulse; the weight beyond 5 sigma is the hypothesis
    `tail <= coreTol` of the Lean theorem soft_sphere_core_within_tol / soft_cylinder_core_within_tol"""
    from skimage import filters
    out = []
    for sigma in (0.5, 1.0, 1.5, 2.0, 2.5, 3.0):
        rad = int(4 * sigma + 0.5)
        n = 2 * rad + 9
        imp = np.zeros((n, n, n)); imp[n // 2, n // 2, n // 2] = 1.0
        k = filters.gaussian(imp, sigma=sigma)
        line = k[:, n // 2, n // 2]
        support = np.nonzero(line)[0]
        ok = (k.min() >= 0 and abs(k.sum() - 1) < 1e-12 and support.min() == n // 2 - rad and support.max() == n // 2 + rad
              and np.allclose(k, k[::-1, ::-1, ::-1], atol=1e-18))
        t = np.arange(-rad, rad + 1, dtype=np.float64)
        w1 = np.exp(-0.5 / (sigma * sigma) * t * t); w1 /= w1.sum()
        sep = np.abs(k[n // 2 - rad:n // 2 + rad + 1, n // 2 - rad:n // 2 + rad + 1, n // 2 - rad:n // 2 + rad + 1]
                     - w1[:, None, None] * w1[None, :, None] * w1[None, None, :]).max()
        ok = ok and sep < 1e-15      # the kernel is the product of the 1-D weights of the Lean model
        edge = np.ones((5, 5, 5))
        ok = ok and np.abs(filters.gaussian(edge, sigma=sigma) - 1).max() < 1e-12      # mode='nearest': a full box stays 1
        out.append(dict(name=f"gaussian-kernel-sigma-{sigma}", ok=bool(ok), detail=f"min={k.min():.3g} sum-1={k.sum()-1:.3g} support={support.min()-n//2}..{support.max()-n//2} |k - w1*w1*w1|={sep:.2g}"))
        i, j, l = np.indices(k.shape)
        d2 = (i - n // 2) ** 2 + (j - n // 2) ** 2 + (l - n // 2) ** 2
        tail = float(k[d2 > (5 * sigma) ** 2].sum())
        out.append(dict(name=f"gaussian-tail-beyond-5-sigma-{sigma}", ok=bool(tail < CORE_TOL), detail=f"kernel weight at offsets farther than 5*sigma = {tail:.3g} (must be < 1e-3)"))
    return out


LEVEL_TEXT = ("Lean 4 theorems about an executable model of cryomask's hard-edged constructors and mask algebra: exact voxel membership of spheres "
              "(distance <= r, also stated with Real.sqrt), cylinders (planar distance <= r and |k-cz| <= floor(h/2), clipped to the box), ellipsoids on even "
              "boxes (sum((i-c)/r)^2 <= 1), shells = outer and not inner; parse_shape_string(format(kind, specs)) = (kind, specs) and generate_mask = the "
              "analytic shape on the documented box size for every shape name; union/intersection/subtraction/difference of any number of {0,1} masks = "
              "OR / AND / AND-NOT / (OR and not AND); the latter is XOR exactly for two masks (proved: it is NOT the XOR of one or of three masks), results "
              "in [0,1] for arbitrary real inputs; a filter with non-negative unit-sum weights and nearest-voxel boundary applied to the model's own pre-blur "
              "sphere/cylinder of an outwards blur leaves every core voxel within 1e-3 of 1 when the kernel weight beyond 5 sigma is at most 1e-3 (the enlarged "
              "solid contains the 5-sigma neighbourhood of the core: proved for spheres and cylinders, refuted for ellipsoids). Tied to the source by the "
              "complete normalised bodies and signatures of 17 functions and by a per-voxel differential run of the real functions against the model.")
LEVEL_NOTE = ("the Gaussian filter (skimage) is an external service: its kernel (non-negative, unit sum, product of exp weights, weight beyond 5 sigma < 1e-3) "
              "is probed each run and compared at sampled voxels with the Lean kernel model; 'never modify their inputs' is validated at run time only; numpy "
              "float comparisons are assumed exact on the integer/dyadic grids generated; ellipsoid voxels exactly on the surface where double rounding "
              "decides are excluded as ties. OPEN: C13-K1 (difference of n != 2 masks is union minus intersection, not XOR), C13-K2 (outwards-blurred "
              "elongated ellipsoids lose more than 1e-3 in the core)")
TECHNIQUE = "Lean 4 proof (order/field reasoning, list induction) + re-extracted source statements + per-voxel differential correspondence"
DESIGN_REF = "DESIGN.md section 4, C13"
