"""C10 — cyclic symmetry expansion places subunits on the symmetry orbit (DESIGN.md section 4, C10).

(T) translate(): re-extracts from cryocat/cryomotl.py the constants / field names / expression shapes of
    Motl.split_in_asymmetric_subunits (cyclic branch) and Motl.update_coordinates  -> lean/CryoCat/Gen/C10.lean
(C) generated particle lists x symmetry forms x offsets -> real split_in_asymmetric_subunits vs. the Lean driver
    executing CryoCat.C10.expand (the definition the theorems of Props/C10.lean are about).
"""
import os, ast, math, warnings
import numpy as np
import core
from core import f2b, b2f

PROP = "C10"
COUNT = {"quick": 110, "thorough": 1100, "search": 900}
PARALLEL = True
EXHAUSTIVE = {"quick": False, "thorough": True}   # thorough sweeps every n in 1..64 in every symmetry form
# symmetry given as a number that is not a Python int: float(n), np.int64(n), np.float64(n) (accepted since fix: f9fba9c, D24)
FLOAT_FORMS = True
TOL = 1e-9          # absolute, poses (matrix entries) and positions
TIE_MARGIN = 1e-6   # distance of a pre-rounding coordinate from k+1/2 below which the rounding direction is not compared

FIELDS = ["score", "geom1", "geom2", "subtomo_id", "tomo_id", "object_id", "subtomo_mean", "x", "y", "z",
          "shift_x", "shift_y", "shift_z", "geom3", "geom4", "geom5", "phi", "psi", "theta", "class"]
IX = {f: i for i, f in enumerate(FIELDS)}
OTHER = ["score", "geom1", "tomo_id", "object_id", "subtomo_mean", "geom3", "geom4", "class"]

RULE = ("particle lists of N in 1..100 particles (unique positive subtomo_ids in random row order, arbitrary zxz Euler angles incl. "
        "theta in {0,180} and multiples of 90, integer or fractional x,y,z, shifts incl. exact .5 ties) x n-fold cyclic symmetry given as "
        "'Cn' / 'cn' / int n / float(n) / np.int64(n) / np.float64(n) (n in 1..64; quick: {1..12} u {7,11,13,14,16,25,64} first, thorough: every n in 1..64 in every form) x offset s "
        "(generic, on the z axis, zero, in the xy plane, large); non-trivial = N>=2 and n>=2 and s off the axis and at least one parent with "
        "theta not a multiple of 180; distinct = distinct (symmetry, s, rows) content")
ASSUMPTIONS = [
    "scipy Rotation.from_euler('zxz', degrees=True) is the matrix Rz(psi)Rx(theta)Rz(phi); `*` is matrix product; apply is matrix-vector product "
    "(probed every run against the harness's own matrices)",
    "scipy as_euler('zxz') returns a triple whose from_euler matrix is the rotation it was given (probed every run, incl. gimbal lock); the "
    "output orientation is therefore compared as a matrix (tol 1e-9), not as three angles",
    "numpy float64 cos/sin/arctan2/sqrt and the polar form rho*(cos,sin)(atan2(sy,sx)+phi_k) agree with the exact rotation Rz(phi_k)s to 1e-9 "
    "(the model applies the matrix; compared on every case)",
    "decimal.Decimal(x).to_integral_value(ROUND_HALF_UP) = round half away from zero = the model's floor formula (exact on the generated grid; "
    "coordinates whose pre-rounding value lies within 1e-6 of k+1/2 after a non-zero real offset are compared on the complete position only)",
    "pandas: concat keeps rows, sort_values(by='subtomo_id') orders parents by id (unique ids: no tie), positional assignment of np.tile'd arrays",
    "parent subtomo_ids are unique (DESIGN section 6, interpretation decisions): 'records its parent' presupposes it",
]
TRUSTED = ["harness zxz matrix (props/c10.py _zxz) used to read the implementation's output orientation",
           "Float cos/sin of the Lean runtime (libm) inside the driver's `trig`; tolerance 1e-9"]

REL = "cryocat/cryomotl.py"
FN = "Motl.split_in_asymmetric_subunits"

DOC = dict(
    fullTurnDeg=360, stepExpr="360/nfold", nSubunitsExpr="nfold", phiExpr="np.arange(n_subunits)*inplane_step", phiSlot=0,
    parentSrc="subtomo_id", parentDst="geom5", indexDst="geom2", indexStart=1, indexStopExpr="n_subunits+1",
    sortKey="subtomo_id", idDst="subtomo_id", idStart=1, idStopExpr="len(new_motl_df)+1",
    eulerSeqs=["zxz", "zxz", "zxz"], eulerDegrees=[True, True, True], parentAngles=["phi", "theta", "psi"],
    composeLeft="rotations", composeRight="rot.from_euler", shiftFields=["shift_x", "shift_y", "shift_z"],
    shiftRhs="new_motl_df.loc[:,['shift_x','shift_y','shift_z']]+rotations.apply(center_shift)",
    rhoExpr="np.sqrt(starting_vector[0]**2+starting_vector[1]**2)", theExpr="np.arctan2(starting_vector[1],starting_vector[0])",
    repTheExpr="np.full((n_subunits,),the)+np.deg2rad(phi_angles)", repZExpr="np.full((n_subunits,),starting_vector[2])",
    polarExprs=["rot_rho*np.cos(rep_the)", "rot_rho*np.sin(rep_the)", "rep_z"],
    strNfoldExpr="int(re.findall('\\d+',symmetry)[-1])", cyclicPrefixTest="symmetry.lower().startswith('c')",
    numericTypes=["int", "float", "np.integer", "np.floating"], numericNfoldExpr="int(symmetry)", cyclicTypeCode=1,
    callsUpdate=True, roundingModes=["ROUND_HALF_UP"] * 3,
    shiftedExprs=["row['x']+row['shift_x']", "row['y']+row['shift_y']", "row['z']+row['shift_z']"],
    restExprs=["shifted_x-new_row['x']", "shifted_y-new_row['y']", "shifted_z-new_row['z']"],
)


# ------------------------------------------------------------------ translator
def _assigns(fn):
    """all simple assignments of a function in source order: (target text, value node, enclosing-if test text or None)"""
    out = []

    def walk(stmts, cond):
        for st in stmts:
            if isinstance(st, ast.Assign):
                for t in st.targets:
                    out.append((core.norm_expr(t), st.value, cond))
            elif isinstance(st, ast.AugAssign):
                out.append((core.norm_expr(st.target) + "@aug", st.value, cond))
            elif isinstance(st, ast.If):
                walk(st.body, core.norm_expr(st.test))
                # elif chains: orelse holds one If
                walk(st.orelse, ("not:" + core.norm_expr(st.test)) if not (len(st.orelse) == 1 and isinstance(st.orelse[0], ast.If)) else None)
            elif isinstance(st, (ast.For, ast.While, ast.With, ast.Try)):
                walk(getattr(st, "body", []), cond)
    walk(fn.body, None)
    return out


def translate(src):
    A = core.AnchorMissing

    def fn():
        return src.find(REL, FN)

    def assigns():
        return _assigns(fn())

    def one(target, cond=None, nth=0):
        def f():
            hits = [(v, c) for (t, v, c) in assigns() if t == target and (cond is None or c == cond)]
            if len(hits) <= nth:
                raise A(f"{FN}: assignment to {target}" + (f" under `{cond}`" if cond else ""))
            return hits[nth][0]
        return f

    def only(target, cond=None):
        """the unique assignment to `target` (under cond); several different ones are not guessed between"""
        def f():
            hits = [v for (t, v, c) in assigns() if t == target and (cond is None or c == cond)]
            if len(hits) != 1:
                raise A(f"{FN}: expected exactly one assignment to {target}" + (f" under `{cond}`" if cond else "") + f", found {len(hits)}")
            return hits[0]
        return f

    def text(getter):
        return lambda: core.norm_expr(getter())

    def step():
        v = only("inplane_step")()
        if not (isinstance(v, ast.BinOp) and isinstance(v.op, ast.Div) and isinstance(v.left, ast.Constant) and isinstance(v.left.value, int)):
            raise A(f"{FN}: inplane_step = <int> / nfold")
        return [int(v.left.value), core.norm_expr(v)]

    G = {}
    st = src.anchor("inplane_step=360/nfold", step)
    G["fullTurnDeg"], G["stepExpr"] = (st if st else (0, ""))
    cyc = "s_type==1"   # the cyclic branch; `cyclicTypeCode` (below) ties the 1 to what the symmetry parser assigns
    G["nSubunitsExpr"] = src.anchor("cyclic:n_subunits", text(only("n_subunits", cyc))) or ""
    G["phiExpr"] = src.anchor("cyclic:phi_angles", text(only("phi_angles", cyc))) or ""

    def phislot():
        hits = [(t, v) for (t, v, c) in assigns() if c == cyc and t.startswith("new_angles[") and core.norm_expr(v) == "phi_angles"]
        if len(hits) != 1:
            raise A(f"{FN}: new_angles[:, k] = phi_angles in the cyclic branch")
        t = hits[0][0]
        if not (t.startswith("new_angles[:,") and t.endswith("]")):
            raise A(f"{FN}: slot of {t}")
        return int(t[len("new_angles[:,"):-1])
    ps = src.anchor("cyclic:new_angles[:,0]=phi_angles", phislot)
    G["phiSlot"] = ps if ps is not None else 99

    def parent():
        v = only("new_motl_df['geom5']")()
        t = core.norm_expr(v)
        if not (t.startswith("new_motl_df['") and t.endswith("']")):
            raise A(f"{FN}: new_motl_df['geom5'] = new_motl_df[<field>]")
        return t[len("new_motl_df['"):-2]
    G["parentSrc"] = src.anchor("geom5=parent subtomo_id", parent) or ""
    G["parentDst"] = "geom5" if G["parentSrc"] else ""

    def call_of(node, name):
        return isinstance(node, ast.Call) and core.norm_expr(node.func).endswith(name)

    def sortkey():
        hits = [v for (t, v, c) in assigns() if t == "new_motl_df" and call_of(v, ".sort_values")]
        if len(hits) != 1:
            raise A(f"{FN}: new_motl_df = new_motl_df.sort_values(by=...)")
        kw = {k.arg: k.value for k in hits[0].keywords}
        by = kw.get("by", hits[0].args[0] if hits[0].args else None)
        if by is None or any(k in kw for k in ("ascending", "key")):
            raise A(f"{FN}: sort_values(by=<field>) without ascending/key")
        return src.literal(by)
    G["sortKey"] = src.anchor("sort_values(by='subtomo_id')", sortkey) or ""

    def arange_args(node, what):
        # first np.arange(...) call inside node
        for n in ast.walk(node):
            if call_of(n, "np.arange"):
                if len(n.args) != 2 or n.keywords or not isinstance(n.args[0], ast.Constant):
                    raise A(f"{FN}: {what}: np.arange(<const>, <stop>)")
                return [int(n.args[0].value), core.norm_expr(n.args[1])]
        raise A(f"{FN}: {what}: np.arange")

    def index():
        v = only("new_motl_df['geom2']")()
        a = arange_args(v, "geom2")
        t = core.norm_expr(v)
        if not (t.startswith("np.tile(") and t.endswith(",(len(self.df),1))")):
            raise A(f"{FN}: geom2 = np.tile(<per-parent indices>, (len(self.df), 1))")
        return a
    ia = src.anchor("geom2=tile(arange(1,n+1))", index)
    G["indexStart"], G["indexStopExpr"] = ia if ia else (0, "")
    G["indexDst"] = "geom2" if ia else ""

    def ids():
        v = only("new_motl_df['subtomo_id']")()
        if not call_of(v, "np.arange"):
            raise A(f"{FN}: subtomo_id = np.arange(...)")
        return arange_args(v, "subtomo_id")
    ida = src.anchor("subtomo_id=arange(1,len+1)", ids)
    G["idStart"], G["idStopExpr"] = ida if ida else (0, "")
    G["idDst"] = "subtomo_id" if ida else ""

    def eulers():
        seqs, degs = [], []
        for n in ast.walk(fn()):
            if isinstance(n, ast.Call) and core.norm_expr(n.func) in ("rot.from_euler", "new_rotations.as_euler"):
                kw = {k.arg: k.value for k in n.keywords}
                if "seq" not in kw or "degrees" not in kw:
                    raise A(f"{FN}: {core.norm_expr(n.func)}(seq=..., degrees=...)")
                seqs.append(src.literal(kw["seq"])); degs.append(bool(src.literal(kw["degrees"])))
        if len(seqs) != 3:
            raise A(f"{FN}: two from_euler calls and one as_euler call, found {len(seqs)}")
        return [seqs, degs]
    eu = src.anchor("from_euler/as_euler seq='zxz' degrees=True", eulers)
    G["eulerSeqs"], G["eulerDegrees"] = eu if eu else ([], [])

    def pangles():
        v = only("euler_angles")()
        t = core.norm_expr(v)
        if not (t.startswith("new_motl_df[[") and t.endswith("]]")):
            raise A(f"{FN}: euler_angles = new_motl_df[[...]]")
        return src.literal(v.slice)
    G["parentAngles"] = src.anchor("euler_angles=[phi,theta,psi]", pangles) or []

    def compose():
        v = only("new_rotations")()
        if not (isinstance(v, ast.BinOp) and isinstance(v.op, ast.Mult) and isinstance(v.right, ast.Call)):
            raise A(f"{FN}: new_rotations = rotations * rot.from_euler(...)")
        kw = {k.arg: core.norm_expr(k.value) for k in v.right.keywords}
        if kw.get("angles") != "new_angles":
            raise A(f"{FN}: right factor built from new_angles")
        rt = core.norm_expr(only("rotations")())
        if rt != "rot.from_euler(seq='zxz',angles=euler_angles,degrees=True)":
            raise A(f"{FN}: rotations = rot.from_euler(seq='zxz', angles=euler_angles, degrees=True)")
        return [core.norm_expr(v.left), core.norm_expr(v.right.func)]
    co = src.anchor("new_rotations=rotations*from_euler(new_angles)", compose)
    G["composeLeft"], G["composeRight"] = co if co else ("", "")

    def shift():
        hits = [(t, v) for (t, v, c) in assigns() if t.startswith("new_motl_df.loc[:,[") and "shift_x" in t]
        if len(hits) != 1:
            raise A(f"{FN}: new_motl_df.loc[:, [shift_x, shift_y, shift_z]] = ...")
        t, v = hits[0]
        tgt = ast.parse(t, mode="eval").body
        return [src.literal(tgt.slice.elts[1]), core.norm_expr(v)]
    sh = src.anchor("shift+=rotations.apply(center_shift)", shift)
    G["shiftFields"], G["shiftRhs"] = sh if sh else ([], "")

    G["rhoExpr"] = src.anchor("rho", text(only("rho"))) or ""
    G["theExpr"] = src.anchor("the", text(only("the"))) or ""
    G["repTheExpr"] = src.anchor("rep_the", text(only("rep_the"))) or ""
    G["repZExpr"] = src.anchor("rep_z", text(only("rep_z"))) or ""

    def polar():
        out = []
        for k in range(3):
            out.append(core.norm_expr(only(f"center_shift[:,{k}]")()))
        tile = [v for (t, v, c) in assigns() if t == "center_shift"]
        if [core.norm_expr(v) for v in tile] != ["np.zeros([rot_rho.shape[0],3])", "np.tile(center_shift,(len(self.df),1))"]:
            raise A(f"{FN}: center_shift = zeros / tile(center_shift, (len(self.df), 1))")
        if core.norm_expr(only("rot_rho")()) != "np.full((n_subunits,),rho)" or core.norm_expr(only("starting_vector")()) != "np.array(xyz_shift)":
            raise A(f"{FN}: rot_rho / starting_vector")
        if [core.norm_expr(v) for (t, v, c) in assigns() if t == "new_angles" and c is None] != ["np.tile(new_angles,(len(self.df),1))"]:
            raise A(f"{FN}: new_angles = np.tile(new_angles, (len(self.df), 1))")
        if core.norm_expr(only("new_angles", cyc)()) != "np.zeros((n_subunits,3))":
            raise A(f"{FN}: cyclic new_angles = zeros((n_subunits,3))")
        if core.norm_expr(only("new_motl_df.loc[:,['phi','theta','psi']]")()) != "new_rotations.as_euler(seq='zxz',degrees=True)":
            raise A(f"{FN}: [phi,theta,psi] = new_rotations.as_euler")
        first = [core.norm_expr(v) for (t, v, c) in assigns() if t == "new_motl_df"][0]
        if first != "pd.concat([self.df]*n_subunits)":
            raise A(f"{FN}: new_motl_df = pd.concat([self.df] * n_subunits)")
        return out
    G["polarExprs"] = src.anchor("center_shift polar form + tiling", polar) or []

    def calls_update():
        f = fn()
        body = f.body
        names = [core.norm_expr(st.value) for st in body if isinstance(st, ast.Expr)]
        if "new_motl.update_coordinates()" not in names:
            raise A(f"{FN}: new_motl.update_coordinates()")
        if core.norm_expr(only("new_motl")()) != "Motl(new_motl_df)":
            raise A(f"{FN}: new_motl = Motl(new_motl_df)")
        ret = [st for st in body if isinstance(st, ast.Return)]
        if len(ret) != 1 or core.norm_expr(ret[0].value) != "new_motl":
            raise A(f"{FN}: return new_motl")
        return True
    G["callsUpdate"] = bool(src.anchor("update_coordinates on the result", calls_update))

    def upd():
        f = src.find(REL, "Motl.update_coordinates.round_and_recenter")
        asg = _assigns(f)
        modes, shifted, rest = [], [], []
        for ax in "xyz":
            v = [v for (t, v, c) in asg if t == f"new_row['{ax}']"]
            if len(v) != 1:
                raise A(f"update_coordinates: new_row['{ax}']")
            t = core.norm_expr(v[0])
            pre = f"float(decimal.Decimal(shifted_{ax}).to_integral_value(rounding=decimal."
            if not (t.startswith(pre) and t.endswith("))")):
                raise A(f"update_coordinates: new_row['{ax}'] = float(Decimal(shifted_{ax}).to_integral_value(rounding=...))")
            modes.append(t[len(pre):-2])
            s = [v for (t, v, c) in asg if t == f"shifted_{ax}"]
            r = [v for (t, v, c) in asg if t == f"new_row['shift_{ax}']"]
            if len(s) != 1 or len(r) != 1:
                raise A(f"update_coordinates: shifted_{ax} / new_row['shift_{ax}']")
            shifted.append(core.norm_expr(s[0])); rest.append(core.norm_expr(r[0]))
        outer = src.find(REL, "Motl.update_coordinates")
        if "self.df=self.df.apply(round_and_recenter,axis=1)" not in [core.norm_expr(st) for st in outer.body if isinstance(st, ast.Assign)]:
            raise A("update_coordinates: self.df = self.df.apply(round_and_recenter, axis=1)")
        return [modes, shifted, rest]
    up = src.anchor("update_coordinates: ROUND_HALF_UP, shifted, rest", upd)
    G["roundingModes"], G["shiftedExprs"], G["restExprs"] = up if up else ([], [], [])


    def symspec():
        f = fn()
        top = [st for st in f.body if isinstance(st, ast.If) and core.norm_expr(st.test) == "isinstance(symmetry,str)"]
        if len(top) != 1:
            raise A(f"{FN}: if isinstance(symmetry, str): ... elif isinstance(symmetry, (...)):")
        top = top[0]
        sb = _assigns(ast.Module(body=top.body, type_ignores=[]))
        nf = [core.norm_expr(v) for (t_, v, c) in sb if t_ == "nfold"]
        cyc_if = [st for st in top.body if isinstance(st, ast.If)]
        if len(nf) != 1 or len(cyc_if) != 1:
            raise A(f"{FN}: string branch: nfold = ...; if symmetry.lower().startswith('c')")
        code = [core.norm_expr(st.value) for st in cyc_if[0].body if isinstance(st, ast.Assign) and core.norm_expr(st.targets[0]) == "s_type"]
        if len(code) != 1:
            raise A(f"{FN}: s_type = 1 in the 'c' branch")
        if not (len(top.orelse) == 1 and isinstance(top.orelse[0], ast.If)):
            raise A(f"{FN}: elif isinstance(symmetry, (int, float, ...))")
        num = top.orelse[0]
        test = num.test
        if not (isinstance(test, ast.Call) and core.norm_expr(test.func) == "isinstance" and core.norm_expr(test.args[0]) == "symmetry" and isinstance(test.args[1], ast.Tuple)):
            raise A(f"{FN}: numeric branch test")
        types = [core.norm_expr(e) for e in test.args[1].elts]
        nb = {core.norm_expr(st.targets[0]): core.norm_expr(st.value) for st in num.body if isinstance(st, ast.Assign)}
        if "nfold" not in nb or "s_type" not in nb or nb["s_type"] != code[0]:
            raise A(f"{FN}: numeric branch: s_type = 1; nfold = int(symmetry)")
        return [nf[0], core.norm_expr(cyc_if[0].test), types, nb["nfold"], int(code[0])]
    sy = src.anchor("symmetry argument: 'Cn'/'cn' string or number", symspec)
    G["strNfoldExpr"], G["cyclicPrefixTest"], G["numericTypes"], G["numericNfoldExpr"], G["cyclicTypeCode"] = sy if sy else ("", "", [], "", 0)

    L = core.lean_str
    LL = core.lean_str_list
    B = lambda b: "true" if b else "false"
    return f"""-- GENERATED by harness/props/c10.py from {REL} ({FN}, Motl.update_coordinates); do not edit
namespace CryoCat.Gen.C10
def anchorsOk : Bool := {B(src.ok)}
def fullTurnDeg : Nat := {G["fullTurnDeg"]}
def stepExpr : String := {L(G["stepExpr"])}
def nSubunitsExpr : String := {L(G["nSubunitsExpr"])}
def phiExpr : String := {L(G["phiExpr"])}
def phiSlot : Nat := {G["phiSlot"]}
def parentSrc : String := {L(G["parentSrc"])}
def parentDst : String := {L(G["parentDst"])}
def indexDst : String := {L(G["indexDst"])}
def indexStart : Nat := {G["indexStart"]}
def indexStopExpr : String := {L(G["indexStopExpr"])}
def sortKey : String := {L(G["sortKey"])}
def idDst : String := {L(G["idDst"])}
def idStart : Nat := {G["idStart"]}
def idStopExpr : String := {L(G["idStopExpr"])}
def eulerSeqs : List String := {LL(G["eulerSeqs"])}
def eulerDegrees : List Bool := [{", ".join(B(b) for b in G["eulerDegrees"])}]
def parentAngles : List String := {LL(G["parentAngles"])}
def composeLeft : String := {L(G["composeLeft"])}
def composeRight : String := {L(G["composeRight"])}
def shiftFields : List String := {LL(G["shiftFields"])}
def shiftRhs : String := {L(G["shiftRhs"])}
def rhoExpr : String := {L(G["rhoExpr"])}
def theExpr : String := {L(G["theExpr"])}
def repTheExpr : String := {L(G["repTheExpr"])}
def repZExpr : String := {L(G["repZExpr"])}
def polarExprs : List String := {LL(G["polarExprs"])}
def strNfoldExpr : String := {L(G["strNfoldExpr"])}
def cyclicPrefixTest : String := {L(G["cyclicPrefixTest"])}
def numericTypes : List String := {LL(G["numericTypes"])}
def numericNfoldExpr : String := {L(G["numericNfoldExpr"])}
def cyclicTypeCode : Nat := {G["cyclicTypeCode"]}
def callsUpdate : Bool := {B(G["callsUpdate"])}
def roundingModes : List String := {LL(G["roundingModes"])}
def shiftedExprs : List String := {LL(G["shiftedExprs"])}
def restExprs : List String := {LL(G["restExprs"])}
end CryoCat.Gen.C10
"""


# ------------------------------------------------------------------ small independent linear algebra (property oracle)
def _rz(deg):
    r = math.radians(deg); c, s = math.cos(r), math.sin(r)
    return np.array([[c, -s, 0.0], [s, c, 0.0], [0.0, 0.0, 1.0]])


def _rx(deg):
    r = math.radians(deg); c, s = math.cos(r), math.sin(r)
    return np.array([[1.0, 0.0, 0.0], [0.0, c, -s], [0.0, s, c]])


def _zxz(phi, theta, psi):
    """documented cryoCAT convention: extrinsic zxz = Rz(psi) Rx(theta) Rz(phi)"""
    return _rz(psi) @ _rx(theta) @ _rz(phi)


# ------------------------------------------------------------------ generators
QUICK_NS = list(range(1, 13)) + [7, 11, 13, 14, 16, 25, 64]
FORMS = ["C", "c", "int"]


def _forms():
    return FORMS + (["float", "npint", "npfloat"] if FLOAT_FORMS else [])


def _dy(rng, lo, hi):
    """dyadic value (multiple of 2^-10) in [lo, hi]"""
    return rng.randint(int(lo * 1024), int(hi * 1024)) / 1024.0


def _angle(rng, theta=False):
    k = rng.random()
    if theta:
        if k < 0.12: return 0.0
        if k < 0.22: return 180.0
        if k < 0.30: return 90.0
        return rng.uniform(0.0, 180.0)
    if k < 0.15: return float(rng.choice([0, 90, 180, 270, -90, -180, 360]))
    if k < 0.25: return float(rng.randint(-180, 360))
    return rng.uniform(-180.0, 360.0)


def _coord(rng):
    k = rng.random()
    if k < 0.70: return float(rng.randint(0, 2000))
    if k < 0.80: return float(rng.randint(-300, 300))
    if k < 0.93: return _dy(rng, -50, 2000)
    return rng.uniform(-500, 4000)


def _shift(rng):
    k = rng.random()
    if k < 0.15: return 0.0
    if k < 0.30: return rng.choice([0.5, -0.5, 1.5, -1.5, 2.5, -2.5])   # exact ties when the offset is 0
    if k < 0.75: return _dy(rng, -3, 3)
    return rng.uniform(-10, 10)


def _row(rng, sid):
    r = [0.0] * 20
    r[IX["score"]] = rng.choice([rng.uniform(0, 1), 0.0, float(rng.randint(0, 5))])
    r[IX["geom1"]] = float(rng.randint(0, 9)); r[IX["geom2"]] = float(rng.randint(0, 99))
    r[IX["subtomo_id"]] = float(sid); r[IX["tomo_id"]] = float(rng.randint(1, 60)); r[IX["object_id"]] = float(rng.randint(1, 30))
    r[IX["subtomo_mean"]] = rng.choice([0.0, rng.gauss(0, 1)])
    for f in "xyz": r[IX[f]] = _coord(rng)
    for f in ("shift_x", "shift_y", "shift_z"): r[IX[f]] = _shift(rng)
    r[IX["geom3"]] = rng.choice([0.0, rng.gauss(0, 10)]); r[IX["geom4"]] = float(rng.randint(0, 9)); r[IX["geom5"]] = float(rng.randint(0, 999))
    r[IX["phi"]] = _angle(rng); r[IX["psi"]] = _angle(rng); r[IX["theta"]] = _angle(rng, theta=True)
    r[IX["class"]] = float(rng.randint(1, 8))
    return r


def _offset(rng):
    k = rng.random()
    if k < 0.40: return "generic", [_dy(rng, -60, 60), _dy(rng, -60, 60), _dy(rng, -60, 60)]
    if k < 0.52: return "on-axis", [0.0, 0.0, rng.choice([_dy(rng, -60, 60), 7.0, -3.5])]
    if k < 0.62: return "zero", [0.0, 0.0, 0.0]
    if k < 0.76: return "in-plane", [_dy(rng, -60, 60), _dy(rng, -60, 60), 0.0]
    if k < 0.84: return "x-only", [rng.choice([10.0, -4.25, 1.0]), 0.0, 0.0]
    if k < 0.92: return "large", [rng.uniform(-2000, 2000), rng.uniform(-2000, 2000), rng.uniform(-2000, 2000)]
    return "tiny", [rng.uniform(-1e-3, 1e-3), rng.uniform(-1e-3, 1e-3), rng.uniform(-1e-3, 1e-3)]


def _case(rng, n, form, maxcells):
    k = rng.random()
    if k < 0.10: N = 1
    elif k < 0.62: N = rng.randint(2, 6)
    elif k < 0.90: N = rng.randint(7, 20)
    else: N = rng.randint(21, 100)
    N = max(1, min(N, maxcells // n))
    ids = rng.sample(range(1, 5 * N + 12), N)
    if rng.random() < 0.2: ids.sort()
    skind, s = _offset(rng)
    return dict(sym=dict(form=form, n=n), s=[f2b(v) for v in s], skind=skind, rows=[[f2b(v) for v in _row(rng, sid)] for sid in ids])


def generate(rng, tier, n):
    forms = _forms()
    maxcells = {"quick": 700, "thorough": 2500, "search": 300}[tier]
    made = 0
    if tier == "thorough":      # exhaustive sweep: every n in 1..64 in every symmetry form
        for nn in range(1, 65):
            for form in forms:
                if made < n:
                    yield _case(rng, nn, form, maxcells); made += 1
    elif tier == "quick":
        for i, nn in enumerate(QUICK_NS):
            if made < n:
                yield _case(rng, nn, forms[i % len(forms)], maxcells); made += 1
    else:                        # search: all n not dividing 360 first, small lists
        for nn in [m for m in range(1, 65) if 360 % m != 0]:
            if made < n:
                yield _case(rng, nn, forms[nn % len(forms)], maxcells); made += 1
    while made < n:
        nn = rng.randint(1, 64) if rng.random() < 0.7 else rng.choice([m for m in range(1, 65) if 360 % m != 0])
        yield _case(rng, nn, rng.choice(forms), maxcells); made += 1


def key(case):
    import hashlib, json
    return hashlib.sha1(json.dumps([case["sym"], case["s"], case["rows"]]).encode()).hexdigest()


def shrink(case):
    rows, sym = case["rows"], case["sym"]
    if len(rows) > 1:
        for i in range(min(len(rows), 6)):
            yield dict(case, rows=[rows[i]])
        yield dict(case, rows=rows[: len(rows) // 2])
    for m in (7, 4, 3, 2, 1):
        if m < sym["n"]:
            yield dict(case, sym=dict(sym, n=m))
    if sym["form"] != "int":
        yield dict(case, sym=dict(sym, form="int"))
    for s in ([1.0, 0.0, 0.0], [0.0, 0.0, 1.0], [1.0, 2.0, 3.0]):
        sb = [f2b(v) for v in s]
        if sb != case["s"]:
            yield dict(case, s=sb, skind="shrunk")
    # plain parents: integer coordinates, zero shifts, simple angles
    simple = []
    for i, r in enumerate(rows):
        v = [0.0] * 20
        v[IX["subtomo_id"]] = b2f(r[IX["subtomo_id"]]); v[IX["tomo_id"]] = 1.0; v[IX["class"]] = 1.0
        v[IX["x"]], v[IX["y"]], v[IX["z"]] = 100.0 + i, 200.0, 300.0
        v[IX["phi"]], v[IX["theta"]], v[IX["psi"]] = 30.0, 60.0, 45.0
        simple.append([f2b(x) for x in v])
    if simple != rows:
        yield dict(case, rows=simple)
        zero_ang = [list(r) for r in simple]
        for r in zero_ang:
            for f in ("phi", "theta", "psi"): r[IX[f]] = f2b(0.0)
        yield dict(case, rows=zero_ang)
    else:
        zero_ang = [list(r) for r in rows]
        for r in zero_ang:
            for f in ("phi", "theta", "psi"): r[IX[f]] = f2b(0.0)
        if zero_ang != rows:
            yield dict(case, rows=zero_ang)


# ------------------------------------------------------------------ implementation
def _symmetry_arg(sym):
    n, form = sym["n"], sym["form"]
    return {"C": f"C{n}", "c": f"c{n}", "int": int(n), "float": float(n), "npint": np.int64(n), "npfloat": np.float64(n)}[form]


def run_impl(case):
    import pandas as pd
    from cryocat import cryomotl
    vals = [[b2f(b) for b in r] for r in case["rows"]]
    df = pd.DataFrame(vals, columns=FIELDS, dtype=float)
    m = cryomotl.Motl(df)
    s = np.array([b2f(b) for b in case["s"]], dtype=float)
    with warnings.catch_warnings():
        warnings.simplefilter("ignore")
        out = m.split_in_asymmetric_subunits(_symmetry_arg(case["sym"]), s)
    cols = [str(c) for c in out.df.columns]
    arr = out.df[FIELDS].to_numpy(dtype=float) if sorted(cols) == sorted(FIELDS) else out.df.to_numpy(dtype=float)
    return dict(cols=cols, type=type(out).__name__, index_ok=list(out.df.index) == list(range(len(out.df))),
                rows=[[f2b(x) for x in row] for row in arr.tolist()])


def requests(case, obs):
    return [dict(op="expand", n=case["sym"]["n"], s=case["s"], rows=case["rows"])]


# ------------------------------------------------------------------ judgement
def _f(bits):
    return [b2f(b) for b in bits]


def _maxdev(case, obs, resps):
    """largest |impl - model| over orientation entries / complete positions (None when not comparable)"""
    try:
        subs = resps[0]["subs"]
        out = obs["rows"]
        if len(subs) != len(out):
            return None
        dev = 0.0
        for u, o in zip(subs, out):
            u, o = _f(u), _f(o)
            M = _zxz(o[IX["phi"]], o[IX["theta"]], o[IX["psi"]])
            dev = max(dev, float(np.max(np.abs(M - np.array(u[20:29]).reshape(3, 3)))))
            for a, b in (("x", "shift_x"), ("y", "shift_y"), ("z", "shift_z")):
                dev = max(dev, abs((o[IX[a]] + o[IX[b]]) - (u[IX[a]] + u[IX[b]])))
        return dev
    except Exception:
        return None


def judge(case, obs, resps):
    out = []
    n = case["sym"]["n"]
    sym_txt = repr(_symmetry_arg(case["sym"]))
    if "error" in obs:
        return [dict(kind="spec", clause="raises", detail=f"split_in_asymmetric_subunits({sym_txt}, s) raised {obs['error']} @{obs.get('where','')}")]
    parents = [_f(r) for r in case["rows"]]
    N = len(parents)
    s = np.array(_f(case["s"]))
    rows = [_f(r) for r in obs["rows"]]
    if obs["cols"] != FIELDS:
        out.append(dict(kind="spec" if sorted(obs["cols"]) != sorted(FIELDS) else "corr", clause="columns", detail=f"columns {obs['cols']}"))
        if sorted(obs["cols"]) != sorted(FIELDS):
            return out
    # ---- the statement, evaluated directly on the implementation's output ------------------------------
    if len(rows) != n * N:
        return out + [dict(kind="spec", clause="count", detail=f"{sym_txt}: {len(rows)} particles returned for {N} parents, property demands {n}*{N}={n*N}")]
    ids = [r[IX["subtomo_id"]] for r in rows]
    if len(set(ids)) != len(ids):
        out.append(dict(kind="spec", clause="unique-subtomo-id", detail=f"{sym_txt}: repeated subtomo_id among outputs"))
    byid = {p[IX["subtomo_id"]]: p for p in parents}
    seen = {}
    worst = dict(orient=0.0, pos=0.0)
    for i, r in enumerate(rows):
        pid, k1 = r[IX["geom5"]], r[IX["geom2"]]
        if pid not in byid:
            out.append(dict(kind="spec", clause="parent-geom5", detail=f"output {i}: geom5={pid} is no input subtomo_id")); break
        if not (k1 == int(k1) and 1 <= k1 <= n):
            out.append(dict(kind="spec", clause="index-geom2", detail=f"output {i}: geom2={k1} not in 1..{n}")); break
        if (pid, k1) in seen:
            out.append(dict(kind="spec", clause="index-geom2", detail=f"outputs {seen[(pid,k1)]} and {i}: parent {pid} has subunit index {k1} twice (so another is missing)")); break
        seen[(pid, k1)] = i
        P = byid[pid]
        k = int(k1) - 1
        R = _zxz(P[IX["phi"]], P[IX["theta"]], P[IX["psi"]])
        want = R @ _rz(360.0 * k / n)
        got = _zxz(r[IX["phi"]], r[IX["theta"]], r[IX["psi"]])
        d = float(np.max(np.abs(want - got)))
        worst["orient"] = max(worst["orient"], d)
        if not d <= TOL:
            out.append(dict(kind="spec", clause="orientation", detail=f"{sym_txt}: parent {pid} subunit {k1}: orientation differs from R*Rz(360*{k}/{n}) by {d:.3g}")); break
        centre = np.array([P[IX["x"]] + P[IX["shift_x"]], P[IX["y"]] + P[IX["shift_y"]], P[IX["z"]] + P[IX["shift_z"]]])
        wantp = centre + want @ s
        gotp = np.array([r[IX["x"]] + r[IX["shift_x"]], r[IX["y"]] + r[IX["shift_y"]], r[IX["z"]] + r[IX["shift_z"]]])
        d = float(np.max(np.abs(wantp - gotp)))
        worst["pos"] = max(worst["pos"], d)
        if not d <= TOL * max(1.0, float(np.max(np.abs(wantp)))):
            out.append(dict(kind="spec", clause="position", detail=f"{sym_txt}: parent {pid} subunit {k1}: complete position {gotp.tolist()} but centre + R*Rz(360*{k}/{n}) s = {wantp.tolist()}")); break
        bad = [f for f in OTHER if not (r[IX[f]] == P[IX[f]])]
        if bad:
            out.append(dict(kind="spec", clause="other-fields", detail=f"parent {pid} subunit {k1}: fields {bad} differ from the parent's")); break
        for a, b in (("x", "shift_x"), ("y", "shift_y"), ("z", "shift_z")):
            if r[IX[a]] != math.floor(r[IX[a]]):
                out.append(dict(kind="spec", clause="integer-xyz", detail=f"parent {pid} subunit {k1}: {a}={r[IX[a]]!r} is not an integer")); break
            if not abs(r[IX[b]]) <= 0.5:
                out.append(dict(kind="spec", clause="shift-bound", detail=f"parent {pid} subunit {k1}: |{b}|={abs(r[IX[b]])!r} > 0.5")); break
        else:
            continue
        break
    if out:
        return out
    # ---- correspondence with the Lean model (CryoCat.C10.expand at Float) ------------------------------
    m = resps[0] if resps else {"error": "no response"}
    if "error" in m:
        return [dict(kind="corr", clause="model-error", detail=str(m))]
    subs = [_f(u) for u in m["subs"]]
    if len(subs) != len(rows):
        return [dict(kind="corr", clause="count-vs-model", detail=f"model {len(subs)} impl {len(rows)}")]
    exact_offset = all(v == 0.0 for v in s)
    for i, (u, r) in enumerate(zip(subs, rows)):
        for f in ["subtomo_id", "geom2", "geom5"] + OTHER:
            if u[IX[f]] != r[IX[f]]:
                return [dict(kind="corr", clause="bookkeeping-vs-model", detail=f"output {i}: {f} impl {r[IX[f]]!r} model {u[IX[f]]!r}")]
        M = np.array(u[20:29]).reshape(3, 3)
        got = _zxz(r[IX["phi"]], r[IX["theta"]], r[IX["psi"]])
        d = float(np.max(np.abs(M - got)))
        if not d <= TOL:
            return [dict(kind="corr", clause="orientation-vs-model", detail=f"output {i}: differs by {d:.3g}")]
        for a, b in (("x", "shift_x"), ("y", "shift_y"), ("z", "shift_z")):
            pu, pr = u[IX[a]] + u[IX[b]], r[IX[a]] + r[IX[b]]
            if not abs(pu - pr) <= TOL * max(1.0, abs(pu)):
                return [dict(kind="corr", clause="position-vs-model", detail=f"output {i}: {a}+{b} impl {pr!r} model {pu!r}")]
            near_tie = (not exact_offset) and abs(abs(u[IX[b]]) - 0.5) < TIE_MARGIN
            if not near_tie and u[IX[a]] != r[IX[a]]:
                return [dict(kind="corr", clause="rounding-vs-model", detail=f"output {i}: {a} impl {r[IX[a]]!r} model {u[IX[a]]!r} (pre-rounding value {pu!r}; model rounds half away from zero)")]
    if not obs.get("index_ok", True) or obs.get("type") != "Motl":
        return [dict(kind="corr", clause="container", detail=f"type {obs.get('type')} index_ok {obs.get('index_ok')}")]
    return []


def nontrivial(case, obs):
    if "error" in obs or len(case["rows"]) < 2 or case["sym"]["n"] < 2:
        return False
    s = _f(case["s"])
    if s[0] == 0.0 and s[1] == 0.0:
        return False
    return any((b2f(r[IX["theta"]]) % 180.0) != 0.0 for r in case["rows"])


def stats(case, obs, resps):
    n, N = case["sym"]["n"], len(case["rows"])
    d = {"n": n, "n_class": "divides-360" if 360 % n == 0 else "not-dividing-360", "form": case["sym"]["form"],
         "N": "1" if N == 1 else ("2-6" if N <= 6 else ("7-20" if N <= 20 else "21-100")), "offset": case.get("skind", "?"),
         "impl": "raised" if "error" in obs else "returned"}
    dev = _maxdev(case, obs, resps)
    if dev is not None:
        d["max_dev_vs_model(log10)"] = "0" if dev == 0 else str(max(-17, int(math.floor(math.log10(dev)))))
    ties = 0
    try:
        s = _f(case["s"])
        if any(v != 0.0 for v in s):
            for u in resps[0]["subs"]:
                u = _f(u)
                ties += sum(1 for b in ("shift_x", "shift_y", "shift_z") if abs(abs(u[IX[b]]) - 0.5) < TIE_MARGIN)
        else:
            ties_exact = sum(1 for u in resps[0]["subs"] for b in ("shift_x", "shift_y", "shift_z") if abs(b2f(u[IX[b]])) == 0.5)
            d["exact_half_ties"] = "some" if ties_exact else "none"
    except Exception:
        pass
    d["near_tie_roundings_skipped"] = "some" if ties else "none"
    thetas = [b2f(r[IX["theta"]]) for r in case["rows"]]
    d["gimbal_parent"] = "yes" if any(t in (0.0, 180.0) for t in thetas) else "no"
    return d


def sample_view(case):
    return dict(symmetry=_symmetry_arg(case["sym"]), s=_f(case["s"]), n_parents=len(case["rows"]),
                first_parent=dict(zip(FIELDS, _f(case["rows"][0]))))


def classify(case, obs, finding):
    return None


def probes(rng):
    """probe the recorded scipy assumptions on random angles (incl. gimbal lock)"""
    from scipy.spatial.transform import Rotation as rot
    out = []
    worst_m, worst_rt, worst_mul = 0.0, 0.0, 0.0
    with warnings.catch_warnings():
        warnings.simplefilter("ignore")
        for i in range(300):
            a = [_angle(rng), _angle(rng, theta=True), _angle(rng)]
            b = [_angle(rng), 0.0, 0.0]
            R = rot.from_euler("zxz", a, degrees=True)
            M = R.as_matrix()
            worst_m = max(worst_m, float(np.max(np.abs(M - _zxz(*a)))))
            Q = rot.from_euler("zxz", b, degrees=True)
            worst_mul = max(worst_mul, float(np.max(np.abs((R * Q).as_matrix() - _zxz(*a) @ _rz(b[0])))))
            v = np.array([rng.uniform(-50, 50) for _ in range(3)])
            worst_mul = max(worst_mul, float(np.max(np.abs(R.apply(v) - _zxz(*a) @ v))) / 50.0)
            e = (R * Q).as_euler("zxz", degrees=True)
            worst_rt = max(worst_rt, float(np.max(np.abs(_zxz(*e) - (R * Q).as_matrix()))))
    out.append(dict(name="scipy from_euler('zxz',degrees) = Rz(psi)Rx(theta)Rz(phi)", ok=worst_m <= 1e-12, detail=f"max dev {worst_m:.3g} over 300 triples"))
    out.append(dict(name="scipy Rotation `*` = matrix product, apply = matrix-vector", ok=worst_mul <= 1e-12, detail=f"max dev {worst_mul:.3g}"))
    out.append(dict(name="scipy as_euler('zxz') o from_euler reproduces the rotation (incl. gimbal lock)", ok=worst_rt <= 1e-9, detail=f"max dev {worst_rt:.3g}"))
    return out


LEVEL_TEXT = ("Lean 4 theorems about an executable model of Motl.split_in_asymmetric_subunits (cyclic branch) + update_coordinates, for every n>=1, "
              "every particle list and every offset: count n*N, outputs are exactly the (parent,k) pairs, ids 1..n*N unique, geom5/geom2 bookkeeping, "
              "orientation R*Rz(k*a), complete position = centre + orientation*s (so every subunit maps back to the centre), subunits related by rotations "
              "about the parent's own z axis (conjugates R*Rz*R^T fixing R e_z), closure Rz(a)^n=1, integer x,y,z and |shift|<=1/2; over the reals the step "
              "angle is 2*pi/n; the model is tied to the source by regenerated constants/field names/expression shapes and by a differential run of "
              "the real function against the model on generated lists (every n in 1..64 in the thorough tier)")
LEVEL_NOTE = ("trusted/modelled: Lean kernel; translator anchors; scipy Rotation (from_euler/as_euler/*/apply) and numpy trigonometry/polar form "
              "(probed and compared with tolerance 1e-9, not proved); Decimal ROUND_HALF_UP = floor formula; pandas concat/sort/tile positional semantics; "
              "parsing of 'Cn'/'cn' strings is validated by the correspondence only; parent ids assumed unique")
TECHNIQUE = "Lean 4 proof (ring identities over any commutative ring, list induction, floor lemmas, real trigonometry for the step angle) + regenerated anchors + differential correspondence"
DESIGN_REF = "DESIGN.md section 4, C10"
