"""C10 — cyclic symmetry expansion places subunits on the symmetry orbit (DESIGN.md section 4, C10).

(T) translate(): re-extracts from cryocat/cryomotl.py the constants / field names / expression shapes of
    Motl.split_in_asymmetric_subunits (cyclic branch) and Motl.update_coordinates  -> lean/CryoCat/Gen/C10.lean
(C) generated particle lists x symmetry forms x offsets -> real split_in_asymmetric_subunits vs. the Lean driver
    executing CryoCat.C10.expand (the definition the theorems of Props/C10.lean are about).
"""
import os, ast, math, warnings
import numpy as np
import core
from core import f2b, b2f

PROP = "C10"
COUNT = {"quick": 150, "thorough": 1200, "search": 700}
PARALLEL = True
EXHAUSTIVE = {"quick": False, "thorough": True}   # thorough: every n in 1..64 in every symmetry form; quick (and search) still sweep EVERY n in 1..64 once on tiny lists
# symmetry given as a number that is not a Python int: float(n), np.int64(n), np.float64(n) (accepted since fix: f9fba9c, D24)
FLOAT_FORMS = True
TOL = 1e-9          # absolute, poses (matrix entries) and positions
GIMBAL_EPS = 1e-7   # scipy as_euler: |theta| <= 1e-7 rad (or |theta - pi| <= 1e-7) is treated as gimbal lock


def _orient_tol(want):
    """H4 — tolerance for an orientation REBUILT FROM THE REPORTED EULER ANGLES, following the conditioning of scipy's `as_euler('zxz')`:
    with theta the polar angle of the expected rotation `want` (sin theta = |(want[2,0], want[2,1])|), as_euler treats |theta| <= 1e-7 rad
    (and |theta - pi| <= 1e-7) as gimbal lock, puts the whole azimuth into one angle and sets the other to 0 while KEEPING theta: the triple it
    returns is Rz(0)Rx(theta)Rz(phi+psi) instead of Rz(psi)Rx(theta)Rz(phi); the two differ by at most 2 sin(theta) per matrix entry
    (|Rz(psi)Rx(theta)Rz(-psi) - Rx(theta)| <= 2 sin(theta); measured: exactly 2.0 sin(theta) at worst, /tmp/w5 gimbal probe, 12800 triples),
    i.e. <= 2e-7 — a representation limit of the Euler triple next to the pole, not a statement about cryoCAT. Outside that zone the
    extraction is backward stable (measured 1.4e-15) and the tolerance stays 1e-9. The zone is entered with 1% margin on sin(theta)
    (sin(theta) itself carries an absolute error of ~1e-16, relative 1e-9 at the border)."""
    st = math.hypot(float(want[2][0]), float(want[2][1]))
    return TOL + (2.0 * st + 1e-12 if st <= 1.01 * GIMBAL_EPS else 0.0)
TIE_MARGIN = 1e-6   # distance of a pre-rounding coordinate from k+1/2 below which the rounding direction is not compared
EPS32 = 2.0 ** -23  # float32 machine epsilon
RECEIVERS = ["Motl", "EmMotl", "RelionMotl", "StopgapMotl", "DynamoMotl", "ModMotl"]   # the method is inherited by every list class; `Cls(df)` for each


def _pos_extra(c):
    """H4 — extra position tolerance for an offset handed over as a FLOAT32 array (the docstring types xyz_shift as numpy.ndarray; the generated
    values are float32-representable, so the argument itself is exact). numpy then computes `rho = sqrt(s0**2 + s1**2)` and `the = arctan2(s1, s0)`
    IN FLOAT32 (the precision of the argument it was given): rho carries <= 2.5 roundings of 2^-24 (two squares, a sum, a root: <= 1.25 eps32 rho),
    `the` one float32 rounding of a value in (-pi, pi] plus <= 1 ulp of the function (<= 1.5 ulp32(pi) = 3.6e-7 = 3 eps32), so the in-plane offset
    rho*(cos, sin)(the + phi_k) — and with it the complete position, the parent rotation being an isometry — is off by at most
    (1.25 + 3) eps32 rho < 5 eps32 rho (measured over 300 random offsets x n: 2.1 eps32 rho at worst; probed every run). The z component and the
    orientation do not pass through float32 arithmetic. 0 for every other way of passing the offset."""
    if c.get("sform") != "f32array":
        return 0.0
    s = [b2f(b) for b in c["s"]]
    return 5.0 * EPS32 * math.hypot(s[0], s[1])

FIELDS = ["score", "geom1", "geom2", "subtomo_id", "tomo_id", "object_id", "subtomo_mean", "x", "y", "z",
          "shift_x", "shift_y", "shift_z", "geom3", "geom4", "geom5", "phi", "psi", "theta", "class"]
IX = {f: i for i, f in enumerate(FIELDS)}
OTHER = ["score", "geom1", "tomo_id", "object_id", "subtomo_mean", "geom3", "geom4", "class"]

RULE = ("particle lists of N in 1..100 particles (subtomo_ids unique in random row order, or REPEATED: per-tomogram numbering = the same ids in two tomograms, one id "
        "twice, all equal; arbitrary zxz Euler angles incl. theta in {0,180} and multiples of 90, integer or fractional x,y,z incl. parents next to the origin planes "
        "(subunits below -0.5), shifts incl. exact .5 ties and 0.49999999999999994) x n-fold cyclic symmetry given as "
        "'Cn' / 'cn' / 'C n' / 'C0n' / 'c  00n' / int n / float(n) / np.int64(n) / np.float64(n) (EVERY n in 1..64 in every tier: quick sweeps all 64 once on lists of 1..3 "
        "parents, thorough every n in every form) x offset s (generic, on the z axis, zero, in the xy plane, large) handed over as ndarray / list / tuple; "
        "a share of cases are SESSIONS: 2-3 calls in one process on the same Motl object with the offset in the same ndarray rewritten in place, the same n repeated after an "
        "offset of non-zero azimuth, every call judged alike and the caller-owned frame and offset compared before/after; "
        "H3 streams: integer-typed columns (int64 shifts / angles / coordinates / ids / every column — what a STAR file of whole numbers is read as), non-default row labels "
        "(reversed, shuffled, offset, with gaps, duplicated, all equal, negative — `Motl(df)` keeps them), offsets as int list / int tuple / int64 array, decimal values with 1-3 "
        "decimals (angles, coordinates, shifts, offsets), parents with theta next to 0/180 on both sides of scipy's gimbal threshold (|theta| <= 1e-7 rad); a small share of numeric "
        "arguments OUTSIDE the statement (n + fraction, 0, negative, NaN, inf) judged against the Lean model of int() only (kind corr); "
        "30% of the cases store the 20 columns in another order (z,y,x inside the triples / reversed / coordinate-shift interleaved / random permutation; cells observed by NAME); "
        "30% of the cases call the inherited method on an instance of a subclass (EmMotl / RelionMotl / StopgapMotl / DynamoMotl / ModMotl built from the same frame); "
        "offsets also as float32 arrays (float32-representable values; position tolerance + 5 eps32 rho because numpy takes sqrt/arctan2 in float32); "
        "non-trivial = N>=2 and n>=2 and s off the axis and at least one parent with theta not a multiple of 180; distinct = distinct (calls, rows) content")
ASSUMPTIONS = [
    "scipy Rotation.from_euler('zxz', degrees=True) is the matrix Rz(psi)Rx(theta)Rz(phi); `*` is matrix product; apply is matrix-vector product "
    "(probed every run against the harness's own matrices)",
    "scipy as_euler('zxz') returns a triple whose from_euler matrix is the rotation it was given (probed every run, incl. gimbal lock); the "
    "output orientation is therefore compared as a matrix, not as three angles; tolerance 1e-9, and 1e-9 + 2 sin(theta) where the expected rotation has "
    "0 < |sin theta| <= 1e-7: there as_euler declares gimbal lock and returns Rz(0)Rx(theta)Rz(phi+psi), off by at most 2 sin(theta) <= 2e-7 (probed every run)",
    "numpy float64 sqrt/arctan2/deg2rad/cos/sin agree with the Lean runtime's (libm) to 1e-9 in the polar form rho*(cos,sin)(atan2(sy,sx)+deg2rad(phi_k)) — the driver now "
    "executes that very form (`expandP`); that it equals the rotation Rz(phi_k)s is PROVED (`centerShift_eq`, over R: `real_expandP_eq`), no longer assumed",
    "Python int() on a finite float/int = truncation toward zero of its exact value (Lean `truncInt`), raises on NaN/inf (compared on the numeric forms, incl. n+fraction and "
    "refused values outside the statement)",
    "numpy computes sqrt / arctan2 of a float32 offset in float32 (the precision of the argument): the in-plane offset is then within 5 eps32 rho of the exact one "
    "(derivation in _pos_extra; probed every run) — the tolerance follows the argument's precision, the statement is about real numbers",
    "pandas: `Motl(df)` keeps dtypes and row labels of the frame it is given; `frame[[cols]] = ndarray` replaces whole columns (any previous dtype), positional",
    "decimal.Decimal(x).to_integral_value(ROUND_HALF_UP) on a float x = rounding of the EXACT binary value half away from zero = Lean ratRound on that value (probed every "
    "run incl. ties and 0.49999999999999994; compared exactly on every case with zero offset; coordinates whose pre-rounding value lies within 1e-6 of k+1/2 after a "
    "non-zero real offset are compared on the complete position only)",
    "pandas/numpy: argsort(kind='stable') orders parents by id keeping the row order of equal ids, iloc[np.repeat(order, n)] repeats each parent n times, np.tile'd tables are "
    "assigned by position (compared on every case, incl. repeated ids)",
    "strings: only ASCII digits are generated (Python's \\d and int() also accept other Unicode decimal digits; not modelled)",
]
TRUSTED = ["harness zxz matrix (props/c10.py _zxz) used to read the implementation's output orientation",
           "Float cos/sin/sqrt/atan2 of the Lean runtime (libm) inside the driver's `trig` / `polar`; tolerance 1e-9",
           "driver ratOfFloat (exact rational value of a binary64) feeding the proved ratRound"]

REL = "cryocat/cryomotl.py"
FN = "Motl.split_in_asymmetric_subunits"

DOC = dict(
    fullTurnDeg=360, stepExpr="360/nfold", nSubunitsExpr="nfold", phiExpr="inplane_step*np.arange(n_subunits)", phiSlot=0,
    parentSrc="subtomo_id", parentDst="geom5", indexDst="geom2", indexStart=1, indexStopExpr="1+n_subunits",
    sortKey="subtomo_id", sortKind="stable", expandExpr="self.df.iloc[np.repeat(parent_order,n_subunits)].copy()",
    idDst="subtomo_id", idStart=1, idStopExpr="1+len(new_motl_df)", signature=["self", "symmetry", "xyz_shift"],
    eulerSeqs=["zxz", "zxz", "zxz"], eulerDegrees=[True, True, True], parentAngles=["phi", "theta", "psi"],
    composeLeft="rotations", composeRight="rot.from_euler", shiftFields=["shift_x", "shift_y", "shift_z"],
    shiftRhs="new_motl_df[['shift_x','shift_y','shift_z']].to_numpy()+rotations.apply(center_shift)",
    angleFieldsOut=["phi", "theta", "psi"],
    rhoExpr="np.sqrt(starting_vector[0]**2+starting_vector[1]**2)", theExpr="np.arctan2(starting_vector[1],starting_vector[0])",
    repTheExpr="np.deg2rad(phi_angles)+np.full((n_subunits,),the)", repZExpr="np.full((n_subunits,),starting_vector[2])",
    polarExprs=["np.cos(rep_the)*rot_rho", "np.sin(rep_the)*rot_rho", "rep_z"],
    strNfoldExpr="int(re.findall('\\d+',symmetry)[-1])", cyclicPrefixTest="symmetry.lower().startswith('c')",
    numericTypes=["int", "float", "np.integer", "np.floating"], numericNfoldExpr="int(symmetry)", cyclicTypeCode=1,
    callsUpdate=True, roundingModes=["ROUND_HALF_UP"] * 3,
    shiftedExprs=["row['x']+row['shift_x']", "row['y']+row['shift_y']", "row['z']+row['shift_z']"],
    restExprs=["shifted_x-new_row['x']", "shifted_y-new_row['y']", "shifted_z-new_row['z']"],
)


# ------------------------------------------------------------------ translator
# Local variables are renamed to ROLE names by the ORDER OF THEIR FIRST BINDING before anything is extracted, so the
# anchors see structure (operators, constants, columns, order of operations, call keywords), not spelling: renaming a
# local leaves every anchor unchanged, while an added / removed / reordered statement shows in `body` (whole-function
# dump, also of the branches the correspondence run never executes) and in the anchors behind it.
ROLES = ["nfold", "s_type", "inplane_step", "n_subunits", "phi_angles", "new_angles", "in_plane_offset", "starting_vector", "rho", "the",
         "rot_rho", "rep_the", "rep_z", "center_shift", "parent_order", "new_motl_df", "euler_angles", "rotations", "new_rotations", "new_motl"]
ROLES_UPD = ["round_and_recenter"]
ROLES_RR = ["new_row", "shifted_x", "shifted_y", "shifted_z"]


def _bound_names(fn):
    """local names of a function in the order of their first binding (source order); parameters excluded"""
    a = fn.args
    params = {x.arg for x in a.args + a.kwonlyargs + a.posonlyargs} | ({a.vararg.arg} if a.vararg else set()) | ({a.kwarg.arg} if a.kwarg else set())
    order = []

    def add(n):
        if n == "_":       # H2: a discard is not a local with a role; every `_` stays `_` and never shifts the roles of the others
            return
        if n not in params and n not in order:
            order.append(n)

    def tgt(t):
        if isinstance(t, ast.Name): add(t.id)
        elif isinstance(t, (ast.Tuple, ast.List)):
            for e in t.elts: tgt(e)
        elif isinstance(t, ast.Starred): tgt(t.value)

    def walk(stmts):
        for st in stmts:
            if isinstance(st, (ast.FunctionDef, ast.AsyncFunctionDef, ast.ClassDef)):
                add(st.name); continue
            for n in ast.walk(st):
                if isinstance(n, ast.NamedExpr): tgt(n.target)
            if isinstance(st, ast.Assign):
                for t in st.targets: tgt(t)
            elif isinstance(st, (ast.AugAssign, ast.AnnAssign)): tgt(st.target)
            elif isinstance(st, (ast.For, ast.AsyncFor)):
                tgt(st.target); walk(st.body); walk(st.orelse)
            elif isinstance(st, (ast.While, ast.If)):
                walk(st.body); walk(st.orelse)
            elif isinstance(st, (ast.With, ast.AsyncWith)):
                for it in st.items:
                    if it.optional_vars is not None: tgt(it.optional_vars)
                walk(st.body)
            elif isinstance(st, ast.Try):
                walk(st.body)
                for h in st.handlers:
                    if h.name: add(h.name)
                    walk(h.body)
                walk(st.orelse); walk(st.finalbody)
    walk(fn.body)
    return order


def _alpha(fn, roles, inner=None):
    """copy of the function with its i-th bound local renamed to roles[i] (surplus locals: `_local<i>`); `inner` maps the role name of a
    nested function to the roles of ITS locals. Nested functions see the outer renaming too (closures)."""
    import copy
    fn = _strip_annotations(copy.deepcopy(fn))
    names = _bound_names(fn)
    ren = {n: (roles[i] if i < len(roles) else f"_local{i}") for i, n in enumerate(names)}
    fn._orig = {v: k for k, v in ren.items()}      # role name -> identifier in the source (for messages)

    class R(ast.NodeTransformer):
        def visit_Name(self, n):
            if n.id in ren: n.id = ren[n.id]
            return n

        def visit_FunctionDef(self, n):
            if n is not fn and n.name in ren: n.name = ren[n.name]
            self.generic_visit(n)
            return n
    R().visit(fn)
    _canon_commutative(fn)
    if inner:
        for i, st in enumerate(fn.body):
            if isinstance(st, ast.FunctionDef) and st.name in inner:
                fn.body[i] = _alpha(st, inner[st.name])
                fn._orig.update(fn.body[i]._orig)
    return fn


def _provably_numeric(x):
    """a number or an ndarray/numpy scalar by construction: numeric literal (also negated) or a call of a `np.` function"""
    if isinstance(x, ast.Constant):
        return isinstance(x.value, (int, float)) and not isinstance(x.value, bool)
    if isinstance(x, ast.UnaryOp) and isinstance(x.op, (ast.USub, ast.UAdd)):
        return _provably_numeric(x.operand)
    return isinstance(x, ast.Call) and core.norm_expr(x.func).startswith("np.")


def _canon_commutative(fn):
    """`a * b` and `a + b` with a provably numeric operand (literal / `np.` call) are put in a canonical operand order (sorted text, after the
    alpha-renaming): IEEE multiplication and addition of numbers / arrays are commutative BIT FOR BIT, so `np.arange(n) * step` and
    `step * np.arange(n)` are the same program (work list item 4). Products of two names / attribute calls — `rotations * rot.from_euler(...)`,
    where `*` is the non-commutative composition of rotations — have no provably numeric operand and are left exactly as written."""
    for n in ast.walk(fn):
        if isinstance(n, ast.BinOp) and isinstance(n.op, (ast.Mult, ast.Add)) and (_provably_numeric(n.left) or _provably_numeric(n.right)):
            if ast.unparse(n.right).replace(" ", "") < ast.unparse(n.left).replace(" ", ""):
                n.left, n.right = n.right, n.left
    return fn


def _strip_annotations(fn):
    """H1: type hints are not structure — drop argument / return annotations (also of nested functions), turn `x: T = v` into `x = v`
    and drop a bare declaration `x: T`"""
    class S(ast.NodeTransformer):
        def visit_FunctionDef(self, n):
            a = n.args
            for x in a.posonlyargs + a.args + a.kwonlyargs + ([a.vararg] if a.vararg else []) + ([a.kwarg] if a.kwarg else []):
                x.annotation = None
            n.returns = None
            self.generic_visit(n)
            if not n.body:
                n.body = [ast.Pass()]
            return n
        visit_AsyncFunctionDef = visit_FunctionDef

        def visit_AnnAssign(self, n):
            if n.value is None:
                return None
            return ast.copy_location(ast.Assign(targets=[n.target], value=n.value), n)
    fn = S().visit(fn)
    for n in ast.walk(fn):      # a block emptied by dropping bare declarations
        for fld in ("body", "orelse", "finalbody"):
            if isinstance(getattr(n, fld, None), list) and fld == "body" and not getattr(n, fld) and not isinstance(n, ast.Module):
                setattr(n, fld, [ast.Pass()])
    return ast.fix_missing_locations(fn)


_MSG_CALLS = ("Error", "Exception", "Warning", "warn", "warning", "info", "debug", "error", "critical", "print", "log")


def _dump(fn):
    """normalised dump of a whole function body: one entry per source line of the unparsed, alpha-renamed, docstring-free function
    (statement kinds + expressions; `>` marks one level of nesting)"""
    import copy
    fn = copy.deepcopy(fn)

    def strip(f):
        if f.body and isinstance(f.body[0], ast.Expr) and isinstance(f.body[0].value, ast.Constant) and isinstance(f.body[0].value.value, str):
            f.body = f.body[1:] or [ast.Pass()]
        for st in f.body:
            if isinstance(st, ast.FunctionDef): strip(st)
    strip(fn)
    def is_text(x):
        if isinstance(x, ast.JoinedStr) or (isinstance(x, ast.Constant) and isinstance(x.value, str)):
            return True
        if isinstance(x, ast.BinOp) and isinstance(x.op, (ast.Add, ast.Mod)):      # "..." + str(v), "... %s" % v
            return is_text(x.left)
        if isinstance(x, ast.Call) and isinstance(x.func, ast.Attribute) and x.func.attr == "format":   # "...{}".format(v)
            return is_text(x.func.value)
        return False
    for n in ast.walk(fn):   # H1: the wording of error / warning / log messages is not structure
        if isinstance(n, ast.Call) and core.norm_expr(n.func).split(".")[-1].endswith(_MSG_CALLS):
            n.args = [ast.Constant("<msg>") if is_text(x) else x for x in n.args]
    out = []
    for line in ast.unparse(fn).splitlines():
        body = line.lstrip(" ")
        if not body:
            continue
        depth = (len(line) - len(body)) // 4
        out.append(">" * depth + body.replace(" ", ""))
    return out


BODY_DOC = [
    "defsplit_in_asymmetric_subunits(self,symmetry,xyz_shift):",
    ">ifisinstance(symmetry,str):",
    ">>nfold=int(re.findall('\\\\d+',symmetry)[-1])",
    ">>ifsymmetry.lower().startswith('c'):",
    ">>>s_type=1",
    ">>elifsymmetry.lower().startswith('d'):",
    ">>>s_type=2",
    ">>else:",
    ">>>ValueError('<msg>')",
    ">elifisinstance(symmetry,(int,float,np.integer,np.floating)):",
    ">>s_type=1",
    ">>nfold=int(symmetry)",
    ">else:",
    ">>ValueError('<msg>')",
    ">inplane_step=360/nfold",
    ">ifs_type==1:",
    ">>n_subunits=nfold",
    ">>phi_angles=inplane_step*np.arange(n_subunits)",
    ">>new_angles=np.zeros((n_subunits,3))",
    ">>new_angles[:,0]=phi_angles",
    ">elifs_type==2:",
    ">>n_subunits=2*nfold",
    ">>in_plane_offset=int(inplane_step/2)",
    ">>new_angles=np.zeros((n_subunits,3))",
    ">>new_angles[0::2,0]=np.arange(0,360,int(inplane_step))",
    ">>new_angles[1::2,0]=np.arange(0+in_plane_offset,360+in_plane_offset,int(inplane_step))",
    ">>new_angles[1::2,1]=180",
    ">>phi_angles=new_angles[:,0].copy()",
    ">phi_angles=phi_angles.reshape(n_subunits)",
    ">starting_vector=np.array(xyz_shift)",
    ">rho=np.sqrt(starting_vector[0]**2+starting_vector[1]**2)",
    ">the=np.arctan2(starting_vector[1],starting_vector[0])",
    ">rot_rho=np.full((n_subunits,),rho)",
    ">rep_the=np.deg2rad(phi_angles)+np.full((n_subunits,),the)",
    ">rep_z=np.full((n_subunits,),starting_vector[2])",
    ">ifs_type==2:",
    ">>rep_z[1::2]*=-1",
    ">center_shift=np.zeros([rot_rho.shape[0],3])",
    ">center_shift[:,0]=np.cos(rep_the)*rot_rho",
    ">center_shift[:,1]=np.sin(rep_the)*rot_rho",
    ">center_shift[:,2]=rep_z",
    ">parent_order=np.argsort(self.df['subtomo_id'].to_numpy(),kind='stable')",
    ">new_motl_df=self.df.iloc[np.repeat(parent_order,n_subunits)].copy()",
    ">new_motl_df['geom5']=new_motl_df['subtomo_id']",
    ">new_motl_df['geom2']=np.tile(np.arange(1,1+n_subunits).reshape(n_subunits,1),(len(self.df),1))",
    ">euler_angles=new_motl_df[['phi','theta','psi']]",
    ">rotations=rot.from_euler(seq='zxz',angles=euler_angles,degrees=True)",
    ">center_shift=np.tile(center_shift,(len(self.df),1))",
    ">new_angles=np.tile(new_angles,(len(self.df),1))",
    ">new_motl_df[['shift_x','shift_y','shift_z']]=new_motl_df[['shift_x','shift_y','shift_z']].to_numpy()+rotations.apply(center_shift)",
    ">new_rotations=rotations*rot.from_euler(seq='zxz',angles=new_angles,degrees=True)",
    ">new_motl_df[['phi','theta','psi']]=new_rotations.as_euler(seq='zxz',degrees=True)",
    ">new_motl_df['subtomo_id']=np.arange(1,1+len(new_motl_df))",
    ">new_motl=Motl(new_motl_df)",
    ">new_motl.update_coordinates()",
    ">new_motl.df.reset_index(inplace=True,drop=True)",
    ">returnnew_motl",
]
UPD_DOC = [
    "defupdate_coordinates(self):",
    ">defround_and_recenter(row):",
    ">>new_row=row.copy()",
    ">>shifted_x=row['x']+row['shift_x']",
    ">>shifted_y=row['y']+row['shift_y']",
    ">>shifted_z=row['z']+row['shift_z']",
    ">>new_row['x']=float(decimal.Decimal(float(shifted_x)).to_integral_value(rounding=decimal.ROUND_HALF_UP))",
    ">>new_row['y']=float(decimal.Decimal(float(shifted_y)).to_integral_value(rounding=decimal.ROUND_HALF_UP))",
    ">>new_row['z']=float(decimal.Decimal(float(shifted_z)).to_integral_value(rounding=decimal.ROUND_HALF_UP))",
    ">>new_row['shift_x']=shifted_x-new_row['x']",
    ">>new_row['shift_y']=shifted_y-new_row['y']",
    ">>new_row['shift_z']=shifted_z-new_row['z']",
    ">>returnnew_row",
    ">self.df=self.df.apply(round_and_recenter,axis=1)",
    ">warnings.warn('<msg>')",
]


def _assigns(fn):
    """all simple assignments of a function in source order: (target text, value node, enclosing-if test text or None)"""
    out = []

    def walk(stmts, cond):
        for st in stmts:
            if isinstance(st, ast.Assign):
                for t in st.targets:
                    out.append((core.norm_expr(t), st.value, cond))
            elif isinstance(st, ast.AugAssign):
                out.append((core.norm_expr(st.target) + "@aug", st.value, cond))
            elif isinstance(st, ast.If):
                walk(st.body, core.norm_expr(st.test))
                # elif chains: orelse holds one If
                walk(st.orelse, ("not:" + core.norm_expr(st.test)) if not (len(st.orelse) == 1 and isinstance(st.orelse[0], ast.If)) else None)
            elif isinstance(st, (ast.For, ast.While, ast.With, ast.Try)):
                walk(getattr(st, "body", []), cond)
    walk(fn.body, None)
    return out


def translate(src):
    A = core.AnchorMissing
    cache = {}

    def fn():
        if "fn" not in cache:
            cache["fn"] = _alpha(src.find(REL, FN), ROLES)
        return cache["fn"]

    def upd_fn():
        if "upd" not in cache:
            cache["upd"] = _alpha(src.find(REL, "Motl.update_coordinates"), ROLES_UPD, {"round_and_recenter": ROLES_RR})
        return cache["upd"]

    def assigns():
        return _assigns(fn())

    def orig(role):
        """H2: how a role name is spelled in the source today, for messages"""
        try:
            o = fn()._orig.get(role)
        except Exception:
            o = None
        return f"`{o}`" if o and o == role else (f"`{o}` (role {role})" if o else f"(role {role}: no such local in the source)")

    def show(text):
        """alpha-renamed expression text with the identifiers of the source put back"""
        import re as _re
        try:
            m = fn()._orig
        except Exception:
            return text
        return _re.sub(r"[A-Za-z_][A-Za-z_0-9]*", lambda g: m.get(g.group(0), g.group(0)), text)

    def only(target, cond=None):
        """the unique assignment to `target` (under cond); several different ones are not guessed between"""
        def f():
            hits = [v for (t, v, c) in assigns() if t == target and (cond is None or c == cond)]
            if len(hits) != 1:
                raise A(f"{FN}: expected exactly one assignment to {show(target)}" + (f" under `{show(cond)}`" if cond else "") + f", found {len(hits)}"
                        + (f" (role name {target})" if show(target) != target else ""))
            return hits[0]
        return f

    def text(getter):
        return lambda: core.norm_expr(getter())

    G = {}

    def put(keys, name, getter):
        """anchor -> G[keys]; a MISSING anchor falls back to the documented value (the model keeps its documented behaviour; the
        anchor itself is recorded as broken and `anchors_ok` fails) — never to a value that would silently change the model"""
        v = src.anchor(name, getter)
        if isinstance(keys, str):
            G[keys] = v if v is not None else DOC[keys]
        else:
            for i, k in enumerate(keys):
                G[k] = v[i] if v is not None else DOC[k]

    def whole(doc, getter, label):
        def f():
            d = _dump(getter())
            if d != doc:
                k = next((i for i, (x, y) in enumerate(zip(d, doc)) if x != y), min(len(d), len(doc)))
                m = getattr(getter(), "_orig", {})
                import re as _re
                back = lambda s: _re.sub(r"[A-Za-z_][A-Za-z_0-9]*", lambda g: m.get(g.group(0), g.group(0)), s)
                found = d[k] if k < len(d) else "<end>"
                raise A(f"{label}: normalised body differs from the documented one at entry {k}: found {found!r}"
                        + (f" (in the source's own names: {back(found)!r})" if back(found) != found else "")
                        + f", documented {doc[k] if k < len(doc) else '<end>'!r}")
            return d
        return f
    # whole-body dumps: the Lean side compares the text actually found (also when it differs) with the documented literal
    for key, doc, getter, label in (("body", BODY_DOC, fn, FN), ("updBody", UPD_DOC, upd_fn, "Motl.update_coordinates")):
        v = src.anchor(f"whole body of {label} (alpha-renamed locals)", whole(doc, getter, label))
        if v is None:
            try:
                v = _dump(getter())
            except Exception:
                v = []
        G[key] = v

    def step():
        v = only("inplane_step")()
        if not (isinstance(v, ast.BinOp) and isinstance(v.op, ast.Div) and isinstance(v.left, ast.Constant) and isinstance(v.left.value, int)):
            raise A(f"{FN}: {orig('inplane_step')} = <int> / {orig('nfold')} (found `{show(core.norm_expr(v))}`)")
        return [int(v.left.value), core.norm_expr(v)]
    put(["fullTurnDeg", "stepExpr"], "inplane_step=360/nfold", step)
    cyc = "s_type==1"   # the cyclic branch; `cyclicTypeCode` (below) ties the 1 to what the symmetry parser assigns
    put("nSubunitsExpr", "cyclic:n_subunits", text(only("n_subunits", cyc)))
    put("phiExpr", "cyclic:phi_angles", text(only("phi_angles", cyc)))

    def phislot():
        hits = [(t, v) for (t, v, c) in assigns() if c == cyc and t.startswith("new_angles[") and core.norm_expr(v) == "phi_angles"]
        if len(hits) != 1:
            raise A(f"{FN}: new_angles[:, k] = phi_angles in the cyclic branch")
        t = hits[0][0]
        if not (t.startswith("new_angles[:,") and t.endswith("]")):
            raise A(f"{FN}: slot of {t}")
        return int(t[len("new_angles[:,"):-1])
    put("phiSlot", "cyclic:new_angles[:,0]=phi_angles", phislot)

    def parent():
        v = only("new_motl_df['geom5']")()
        t = core.norm_expr(v)
        if not (t.startswith("new_motl_df['") and t.endswith("']")):
            raise A(f"{FN}: new_motl_df['geom5'] = new_motl_df[<field>]")
        return [t[len("new_motl_df['"):-2], "geom5"]
    put(["parentSrc", "parentDst"], "geom5=parent subtomo_id", parent)

    def call_of(node, name):
        return isinstance(node, ast.Call) and core.norm_expr(node.func).endswith(name)

    def order():
        v = only("parent_order")()
        if not (call_of(v, "np.argsort") and len(v.args) == 1):
            raise A(f"{FN}: {orig('parent_order')} = np.argsort(self.df[<field>].to_numpy(), kind=...) (found `{show(core.norm_expr(v))}`)")
        kw = {k.arg: k.value for k in v.keywords}
        if set(kw) != {"kind"}:
            raise A(f"{FN}: np.argsort(..., kind=<literal>) and no other keyword (found keywords {sorted(map(str, kw))} in `{orig('parent_order')[1:].split('`')[0]} = {show(core.norm_expr(v))}`)")
        a = core.norm_expr(v.args[0])
        if not (a.startswith("self.df['") and a.endswith("'].to_numpy()")):
            raise A(f"{FN}: argsort over self.df[<field>].to_numpy() (found `{show(core.norm_expr(v))}`)")
        return [a[len("self.df['"):-len("'].to_numpy()")], str(src.literal(kw["kind"]))]
    put(["sortKey", "sortKind"], "parent_order=argsort(ids,kind='stable')", order)

    def expand_rows():
        hits = [core.norm_expr(v) for (t, v, c) in assigns() if t == "new_motl_df"]
        if len(hits) != 1:
            raise A(f"{FN}: exactly one assignment to the expanded frame (found {len(hits)}): no re-sorting / re-indexing after the expansion")
        return hits[0]
    put("expandExpr", "new_motl_df=self.df.iloc[np.repeat(parent_order,n)].copy()", expand_rows)

    def arange_args(node, what):
        # first np.arange(...) call inside node
        for n in ast.walk(node):
            if call_of(n, "np.arange"):
                if len(n.args) != 2 or n.keywords or not isinstance(n.args[0], ast.Constant):
                    raise A(f"{FN}: {what}: np.arange(<const>, <stop>)")
                return [int(n.args[0].value), core.norm_expr(n.args[1])]
        raise A(f"{FN}: {what}: np.arange")

    def index():
        v = only("new_motl_df['geom2']")()
        a = arange_args(v, "geom2")
        t = core.norm_expr(v)
        if not (t.startswith("np.tile(") and t.endswith(",(len(self.df),1))")):
            raise A(f"{FN}: geom2 = np.tile(<per-parent indices>, (len(self.df), 1)) (found `{show(t)}`)")
        return a + ["geom2"]
    put(["indexStart", "indexStopExpr", "indexDst"], "geom2=tile(arange(1,n+1))", index)

    def ids():
        v = only("new_motl_df['subtomo_id']")()
        if not call_of(v, "np.arange"):
            raise A(f"{FN}: subtomo_id = np.arange(...) (found `{show(core.norm_expr(v))}`)")
        return arange_args(v, "subtomo_id") + ["subtomo_id"]
    put(["idStart", "idStopExpr", "idDst"], "subtomo_id=arange(1,len+1)", ids)

    def eulers():
        seqs, degs = [], []
        for n in ast.walk(fn()):
            if isinstance(n, ast.Call) and core.norm_expr(n.func) in ("rot.from_euler", "new_rotations.as_euler"):
                kw = {k.arg: k.value for k in n.keywords}
                if "seq" not in kw or "degrees" not in kw:
                    raise A(f"{FN}: {core.norm_expr(n.func)}(seq=..., degrees=...)")
                seqs.append(src.literal(kw["seq"])); degs.append(bool(src.literal(kw["degrees"])))
        if len(seqs) != 3:
            raise A(f"{FN}: two from_euler calls and one as_euler call, found {len(seqs)}")
        return [seqs, degs]
    put(["eulerSeqs", "eulerDegrees"], "from_euler/as_euler seq='zxz' degrees=True", eulers)

    def pangles():
        v = only("euler_angles")()
        t = core.norm_expr(v)
        if not (t.startswith("new_motl_df[[") and t.endswith("]]")):
            raise A(f"{FN}: euler_angles = new_motl_df[[...]]")
        return src.literal(v.slice)
    put("parentAngles", "euler_angles=[phi,theta,psi]", pangles)

    def compose():
        v = only("new_rotations")()
        if not (isinstance(v, ast.BinOp) and isinstance(v.op, ast.Mult) and isinstance(v.right, ast.Call)):
            raise A(f"{FN}: {orig('new_rotations')} = {orig('rotations')} * rot.from_euler(...) — parent rotation on the LEFT (found `{show(core.norm_expr(v))}`)")
        kw = {k.arg: core.norm_expr(k.value) for k in v.right.keywords}
        if kw.get("angles") != "new_angles":
            raise A(f"{FN}: right factor built from new_angles")
        rt = core.norm_expr(only("rotations")())
        if rt != "rot.from_euler(seq='zxz',angles=euler_angles,degrees=True)":
            raise A(f"{FN}: rotations = rot.from_euler(seq='zxz', angles=euler_angles, degrees=True)")
        return [core.norm_expr(v.left), core.norm_expr(v.right.func)]
    put(["composeLeft", "composeRight"], "new_rotations=rotations*from_euler(new_angles)", compose)

    def whole_columns(what, probe):
        """the unique assignment whose target mentions column `probe`: it must replace WHOLE COLUMNS (`frame[[a, b, c]] = values`), because
        `frame.loc[:, [a, b, c]] = values` writes into the existing columns and pandas 3 raises TypeError when those are int64 (a STAR file
        with whole-number shifts / angles) — D33"""
        hits = [(t, v) for (t, v, c) in assigns() if t.startswith("new_motl_df") and f"'{probe}'" in t and t != f"new_motl_df['{probe}']"]
        if len(hits) != 1:
            raise A(f"{FN}: exactly one assignment to the {what} columns of the expanded frame {orig('new_motl_df')}, found {len(hits)}")
        t, v = hits[0]
        tgt = ast.parse(t, mode="eval").body
        if not (isinstance(tgt, ast.Subscript) and core.norm_expr(tgt.value) == "new_motl_df" and isinstance(tgt.slice, ast.List)):
            raise A(f"{FN}: the {what} columns must be assigned as whole columns, `frame[[...]] = values` (found target `{show(t)}`; `.loc[:, [...]] = ` "
                    f"writes into the existing columns and raises for integer-typed columns under pandas 3)")
        return src.literal(tgt.slice), v

    def shift():
        fields, v = whole_columns("shift", "shift_x")
        return [fields, core.norm_expr(v)]
    put(["shiftFields", "shiftRhs"], "shift+=rotations.apply(center_shift)", shift)

    def angles_out():
        fields, v = whole_columns("Euler angle", "phi")
        if core.norm_expr(v) != "new_rotations.as_euler(seq='zxz',degrees=True)":
            raise A(f"{FN}: [phi,theta,psi] = new_rotations.as_euler(seq='zxz', degrees=True) (found `{show(core.norm_expr(v))}`)")
        return fields
    put("angleFieldsOut", "[phi,theta,psi]=new_rotations.as_euler", angles_out)

    put("rhoExpr", "rho", text(only("rho")))
    put("theExpr", "the", text(only("the")))
    put("repTheExpr", "rep_the", text(only("rep_the")))
    put("repZExpr", "rep_z", text(only("rep_z")))

    def polar():
        out = []
        for k in range(3):
            v = [(v, c) for (t, v, c) in assigns() if t == f"center_shift[:,{k}]"]
            if len(v) != 1 or v[0][1] is not None:
                raise A(f"{FN}: exactly one UNCONDITIONAL assignment to center_shift[:,{k}]")
            out.append(core.norm_expr(v[0][0]))
        tile = [v for (t, v, c) in assigns() if t == "center_shift"]
        if [core.norm_expr(v) for v in tile] != ["np.zeros([rot_rho.shape[0],3])", "np.tile(center_shift,(len(self.df),1))"]:
            raise A(f"{FN}: center_shift = zeros / tile(center_shift, (len(self.df), 1))")
        if core.norm_expr(only("rot_rho")()) != "np.full((n_subunits,),rho)" or core.norm_expr(only("starting_vector")()) != "np.array(xyz_shift)":
            raise A(f"{FN}: rot_rho / starting_vector")
        if [core.norm_expr(v) for (t, v, c) in assigns() if t == "new_angles" and c is None] != ["np.tile(new_angles,(len(self.df),1))"]:
            raise A(f"{FN}: new_angles = np.tile(new_angles, (len(self.df), 1))")
        if core.norm_expr(only("new_angles", cyc)()) != "np.zeros((n_subunits,3))":
            raise A(f"{FN}: cyclic new_angles = zeros((n_subunits,3))")
        return out
    put("polarExprs", "center_shift polar form + tiling", polar)

    def calls_update():
        f = fn()
        body = f.body
        names = [core.norm_expr(st.value) for st in body if isinstance(st, ast.Expr)]
        if "new_motl.update_coordinates()" not in names:
            raise A(f"{FN}: new_motl.update_coordinates()")
        if core.norm_expr(only("new_motl")()) != "Motl(new_motl_df)":
            raise A(f"{FN}: new_motl = Motl(new_motl_df)")
        ret = [st for st in body if isinstance(st, ast.Return)]
        if len(ret) != 1 or core.norm_expr(ret[0].value) != "new_motl":
            raise A(f"{FN}: return new_motl")
        return True
    put("callsUpdate", "update_coordinates on the result", calls_update)

    def upd():
        outer = upd_fn()
        f = [st for st in outer.body if isinstance(st, ast.FunctionDef) and st.name == "round_and_recenter"]
        if len(f) != 1:
            raise A("update_coordinates: inner function applied row by row")
        asg = _assigns(f[0])
        modes, shifted, rest = [], [], []
        for ax in "xyz":
            v = [v for (t, v, c) in asg if t == f"new_row['{ax}']"]
            if len(v) != 1:
                raise A(f"update_coordinates: new_row['{ax}']")
            t = core.norm_expr(v[0])
            # since d32cdce the sum goes through float() first: `Decimal(numpy.int64)` raises for a row of an all-integer frame; float() is the
            # identity on the float64 sums C10 produces (the shift columns are float after the expansion), so the model's rounding of the EXACT
            # value is unchanged
            pre = f"float(decimal.Decimal(float(shifted_{ax})).to_integral_value(rounding=decimal."
            if not (t.startswith(pre) and t.endswith("))")):
                raise A(f"update_coordinates: new_row['{ax}'] = float(Decimal(float(shifted_{ax})).to_integral_value(rounding=...)) (found `{t}`)")
            modes.append(t[len(pre):-2])
            s = [v for (t, v, c) in asg if t == f"shifted_{ax}"]
            r = [v for (t, v, c) in asg if t == f"new_row['shift_{ax}']"]
            if len(s) != 1 or len(r) != 1:
                raise A(f"update_coordinates: shifted_{ax} / new_row['shift_{ax}']")
            shifted.append(core.norm_expr(s[0])); rest.append(core.norm_expr(r[0]))
        if "self.df=self.df.apply(round_and_recenter,axis=1)" not in [core.norm_expr(st) for st in outer.body if isinstance(st, ast.Assign)]:
            raise A("update_coordinates: self.df = self.df.apply(round_and_recenter, axis=1)")
        return [modes, shifted, rest]
    put(["roundingModes", "shiftedExprs", "restExprs"], "update_coordinates: ROUND_HALF_UP, shifted, rest", upd)

    def symspec():
        f = fn()
        top = [st for st in f.body if isinstance(st, ast.If) and core.norm_expr(st.test) == "isinstance(symmetry,str)"]
        if len(top) != 1:
            raise A(f"{FN}: if isinstance(symmetry, str): ... elif isinstance(symmetry, (...)):")
        top = top[0]
        sb = _assigns(ast.Module(body=top.body, type_ignores=[]))
        nf = [core.norm_expr(v) for (t_, v, c) in sb if t_ == "nfold"]
        cyc_if = [st for st in top.body if isinstance(st, ast.If)]
        if len(nf) != 1 or len(cyc_if) != 1:
            raise A(f"{FN}: string branch: nfold = ...; if symmetry.lower().startswith('c')")
        code = [core.norm_expr(st.value) for st in cyc_if[0].body if isinstance(st, ast.Assign) and core.norm_expr(st.targets[0]) == "s_type"]
        if len(code) != 1:
            raise A(f"{FN}: s_type = 1 in the 'c' branch")
        if not (len(top.orelse) == 1 and isinstance(top.orelse[0], ast.If)):
            raise A(f"{FN}: elif isinstance(symmetry, (int, float, ...))")
        num = top.orelse[0]
        test = num.test
        if not (isinstance(test, ast.Call) and core.norm_expr(test.func) == "isinstance" and core.norm_expr(test.args[0]) == "symmetry" and isinstance(test.args[1], ast.Tuple)):
            raise A(f"{FN}: numeric branch test")
        types = [core.norm_expr(e) for e in test.args[1].elts]
        nb = {core.norm_expr(st.targets[0]): core.norm_expr(st.value) for st in num.body if isinstance(st, ast.Assign)}
        if "nfold" not in nb or "s_type" not in nb or nb["s_type"] != code[0]:
            raise A(f"{FN}: numeric branch: s_type = 1; nfold = int(symmetry)")
        return [nf[0], core.norm_expr(cyc_if[0].test), types, nb["nfold"], int(code[0])]
    put(["strNfoldExpr", "cyclicPrefixTest", "numericTypes", "numericNfoldExpr", "cyclicTypeCode"], "symmetry argument: 'Cn'/'cn' string or number", symspec)

    def helpers():
        # functions on the path of every call that have no anchor of their own: looking them up puts them under the framework's binding
        # discipline (bound once, no re-binding / wrapper, documented decorators); their bodies are exercised by the differential run
        for q in ("Motl.__init__", "Motl.check_df_correct_format"):
            src.find(REL, q)
        return True
    src.anchor("helpers on the call path are plain single definitions (Motl.__init__, Motl.check_df_correct_format)", helpers)

    def sig():
        raw = src.find(REL, FN)
        a = raw.args
        names = [x.arg for x in a.args]
        if a.defaults or a.kw_defaults or a.vararg or a.kwarg or a.kwonlyargs:
            raise A(f"{FN}: signature has defaults / *args / **kwargs: {ast.unparse(a)}")
        u = src.find(REL, "Motl.update_coordinates").args
        if [x.arg for x in u.args] != ["self"] or u.defaults or u.vararg or u.kwarg or u.kwonlyargs:
            raise A(f"Motl.update_coordinates: signature {ast.unparse(u)}")
        return names
    put("signature", "signature (self, symmetry, xyz_shift): no defaults", sig)

    L = core.lean_str
    LL = core.lean_str_list
    B = lambda b: "true" if b else "false"

    def LLm(xs):
        return "[\n  " + ",\n  ".join(L(x) for x in xs) + "]" if xs else "[]"
    return f"""-- GENERATED by harness/props/c10.py from {REL} ({FN}, Motl.update_coordinates); do not edit
namespace CryoCat.Gen.C10
def anchorsOk : Bool := {B(src.ok)}
def fullTurnDeg : Nat := {G["fullTurnDeg"]}
def stepExpr : String := {L(G["stepExpr"])}
def nSubunitsExpr : String := {L(G["nSubunitsExpr"])}
def phiExpr : String := {L(G["phiExpr"])}
def phiSlot : Nat := {G["phiSlot"]}
def parentSrc : String := {L(G["parentSrc"])}
def parentDst : String := {L(G["parentDst"])}
def indexDst : String := {L(G["indexDst"])}
def indexStart : Nat := {G["indexStart"]}
def indexStopExpr : String := {L(G["indexStopExpr"])}
def sortKey : String := {L(G["sortKey"])}
def sortKind : String := {L(G["sortKind"])}
def expandExpr : String := {L(G["expandExpr"])}
def idDst : String := {L(G["idDst"])}
def idStart : Nat := {G["idStart"]}
def idStopExpr : String := {L(G["idStopExpr"])}
def eulerSeqs : List String := {LL(G["eulerSeqs"])}
def eulerDegrees : List Bool := [{", ".join(B(b) for b in G["eulerDegrees"])}]
def parentAngles : List String := {LL(G["parentAngles"])}
def composeLeft : String := {L(G["composeLeft"])}
def composeRight : String := {L(G["composeRight"])}
def shiftFields : List String := {LL(G["shiftFields"])}
def shiftRhs : String := {L(G["shiftRhs"])}
def angleFieldsOut : List String := {LL(G["angleFieldsOut"])}
def rhoExpr : String := {L(G["rhoExpr"])}
def theExpr : String := {L(G["theExpr"])}
def repTheExpr : String := {L(G["repTheExpr"])}
def repZExpr : String := {L(G["repZExpr"])}
def polarExprs : List String := {LL(G["polarExprs"])}
def strNfoldExpr : String := {L(G["strNfoldExpr"])}
def cyclicPrefixTest : String := {L(G["cyclicPrefixTest"])}
def numericTypes : List String := {LL(G["numericTypes"])}
def numericNfoldExpr : String := {L(G["numericNfoldExpr"])}
def cyclicTypeCode : Nat := {G["cyclicTypeCode"]}
def callsUpdate : Bool := {B(G["callsUpdate"])}
def roundingModes : List String := {LL(G["roundingModes"])}
def shiftedExprs : List String := {LL(G["shiftedExprs"])}
def restExprs : List String := {LL(G["restExprs"])}
def signature : List String := {LL(G["signature"])}
def body : List String := {LLm(G["body"])}
def updBody : List String := {LLm(G["updBody"])}
end CryoCat.Gen.C10
"""


# ------------------------------------------------------------------ small independent linear algebra (property oracle)
def _rz(deg):
    r = math.radians(deg); c, s = math.cos(r), math.sin(r)
    return np.array([[c, -s, 0.0], [s, c, 0.0], [0.0, 0.0, 1.0]])


def _rx(deg):
    r = math.radians(deg); c, s = math.cos(r), math.sin(r)
    return np.array([[1.0, 0.0, 0.0], [0.0, c, -s], [0.0, s, c]])


def _zxz(phi, theta, psi):
    """documented cryoCAT convention: extrinsic zxz = Rz(psi) Rx(theta) Rz(phi)"""
    return _rz(psi) @ _rx(theta) @ _rz(phi)


# ------------------------------------------------------------------ generators
ALL_NS = list(range(1, 65))
FORMS = ["C", "c", "int", "float", "npint", "npfloat", "Csp", "C0", "csp0"]
SFORMS = ["ndarray", "ndarray", "list", "tuple"]


def _forms():
    return FORMS if FLOAT_FORMS else [f for f in FORMS if f not in ("float", "npint", "npfloat")]


def _dy(rng, lo, hi):
    """dyadic value (multiple of 2^-10) in [lo, hi]"""
    return rng.randint(int(lo * 1024), int(hi * 1024)) / 1024.0


NEAR_POLE = [1e-9, 1e-7, 3e-6, 5e-6, 5.7e-6, 5.72957e-6, 5.73e-6, 5.8e-6, 1e-5, 4e-6, 1e-4]   # degrees; 1e-7 rad = 5.7296e-6 degrees: scipy's gimbal threshold


def _near_pole(rng):
    """theta next to 0 / 180 degrees on both sides of scipy's gimbal-lock threshold (|theta| <= 1e-7 rad)"""
    d = rng.choice(NEAR_POLE) if rng.random() < 0.7 else 10.0 ** rng.uniform(-10, -4)
    return rng.choice([d, 180.0 - d, 180.0 + d, -d, 360.0 - d])


def _angle(rng, theta=False):
    k = rng.random()
    if theta:
        if k < 0.12: return 0.0
        if k < 0.22: return 180.0
        if k < 0.30: return 90.0
        if k < 0.37: return _near_pole(rng)
        if k < 0.50: return round(rng.uniform(0.0, 180.0), rng.choice([1, 2, 3]))    # H3: decimal angles as a user types / a STAR file prints them
        return rng.uniform(0.0, 180.0)
    if k < 0.15: return float(rng.choice([0, 90, 180, 270, -90, -180, 360]))
    if k < 0.25: return float(rng.randint(-180, 360))
    if k < 0.40: return round(rng.uniform(-180.0, 360.0), rng.choice([1, 2, 3]))
    return rng.uniform(-180.0, 360.0)


def _coord(rng):
    k = rng.random()
    if k < 0.62: return float(rng.randint(0, 2000))
    if k < 0.72: return float(rng.randint(-300, 300))
    if k < 0.80: return float(rng.randint(-3, 3))          # next to the origin planes: subunits land below -0.5
    if k < 0.88: return _dy(rng, -50, 2000)
    if k < 0.94: return round(rng.uniform(-50, 2000), rng.choice([1, 2, 3]))     # decimal, off the dyadic grid
    return rng.uniform(-500, 4000)


HALF_BELOW = 0.49999999999999994   # largest double below 1/2: floor(v + 0.5) says 1, Decimal says 0


def _shift(rng):
    k = rng.random()
    if k < 0.15: return 0.0
    if k < 0.28: return rng.choice([0.5, -0.5, 1.5, -1.5, 2.5, -2.5])   # exact ties when the offset is 0
    if k < 0.33: return rng.choice([HALF_BELOW, -HALF_BELOW])
    if k < 0.65: return _dy(rng, -3, 3)
    if k < 0.78: return round(rng.uniform(-3, 3), rng.choice([1, 2, 3]))
    return rng.uniform(-10, 10)


def _row(rng, sid):
    r = [0.0] * 20
    r[IX["score"]] = rng.choice([rng.uniform(0, 1), 0.0, float(rng.randint(0, 5))])
    r[IX["geom1"]] = float(rng.randint(0, 9)); r[IX["geom2"]] = float(rng.randint(0, 99))
    r[IX["subtomo_id"]] = float(sid); r[IX["tomo_id"]] = float(rng.randint(1, 60)); r[IX["object_id"]] = float(rng.randint(1, 30))
    r[IX["subtomo_mean"]] = rng.choice([0.0, rng.gauss(0, 1)])
    for f in "xyz": r[IX[f]] = _coord(rng)
    for f in ("shift_x", "shift_y", "shift_z"): r[IX[f]] = _shift(rng)
    r[IX["geom3"]] = rng.choice([0.0, rng.gauss(0, 10)]); r[IX["geom4"]] = float(rng.randint(0, 9)); r[IX["geom5"]] = float(rng.randint(0, 999))
    r[IX["phi"]] = _angle(rng); r[IX["psi"]] = _angle(rng); r[IX["theta"]] = _angle(rng, theta=True)
    r[IX["class"]] = float(rng.randint(1, 8))
    return r


def _offset(rng, azimuth=False):
    k = rng.random()
    if azimuth:   # off the axis and off the +x half-line: non-zero azimuth
        return "generic", [_dy(rng, -60, 60), rng.choice([-1, 1]) * _dy(rng, 1, 60), _dy(rng, -60, 60)]
    if k < 0.28: return "generic", [_dy(rng, -60, 60), _dy(rng, -60, 60), _dy(rng, -60, 60)]
    if k < 0.34: return "decimal", [round(rng.uniform(-60, 60), rng.choice([1, 2, 3])) for _ in range(3)]
    if k < 0.40: return "whole", [float(rng.randint(-40, 40)), float(rng.randint(-40, 40)), float(rng.randint(-40, 40))]
    if k < 0.52: return "on-axis", [0.0, 0.0, rng.choice([_dy(rng, -60, 60), 7.0, -3.5])]
    if k < 0.62: return "zero", [0.0, 0.0, 0.0]
    if k < 0.76: return "in-plane", [_dy(rng, -60, 60), _dy(rng, -60, 60), 0.0]
    if k < 0.84: return "x-only", [rng.choice([10.0, -4.25, 1.0]), 0.0, 0.0]
    if k < 0.92: return "large", [rng.uniform(-2000, 2000), rng.uniform(-2000, 2000), rng.uniform(-2000, 2000)]
    return "tiny", [rng.uniform(-1e-3, 1e-3), rng.uniform(-1e-3, 1e-3), rng.uniform(-1e-3, 1e-3)]


def _ids(rng, N):
    """parent ids: unique in random row order / per-tomogram numbering (the same ids in two tomograms) / one id twice / all equal"""
    k = rng.random()
    if N >= 2 and k < 0.16:      # per-tomogram numbering
        a = (N + 1) // 2
        ids = list(range(1, a + 1)) + list(range(1, N - a + 1))
        if rng.random() < 0.5: rng.shuffle(ids)
        return ids, "per-tomogram"
    if N >= 2 and k < 0.27:      # some id twice
        ids = rng.sample(range(1, 5 * N + 12), N)
        i, j = rng.sample(range(N), 2)
        ids[j] = ids[i]
        return ids, "one-twice"
    if N >= 2 and k < 0.31:
        return [rng.randint(1, 9)] * N, "all-equal"
    ids = rng.sample(range(1, 5 * N + 12), N)
    if rng.random() < 0.2: ids.sort()
    return ids, "unique"


# H3 — integer-typed columns: a STAR / EM file whose values in a column are all whole numbers is read as int64; `Motl(df)` keeps the dtypes
INT_SETS = [("shifts", ["shift_x", "shift_y", "shift_z"]), ("angles", ["phi", "theta", "psi"]), ("shifts+angles", ["shift_x", "shift_y", "shift_z", "phi", "theta", "psi"]),
            ("coordinates", ["x", "y", "z"]), ("ids", ["subtomo_id", "tomo_id", "object_id", "class", "geom1", "geom2", "geom4", "geom5"]),
            ("one-shift", ["shift_y"]), ("one-angle", ["theta"]), ("all", list(FIELDS))]


def _intcols(rng):
    k = rng.random()
    if k < 0.25: return INT_SETS[0]
    if k < 0.45: return INT_SETS[1]
    if k < 0.60: return INT_SETS[2]
    if k < 0.80: return INT_SETS[7]
    return rng.choice(INT_SETS[3:7])


def _labels(rng, N):
    """H3 — row labels a user's frame carries (`Motl(df)` keeps them): reversed / shuffled / offset / with gaps (after remove_feature) /
    duplicated (after a concat without ignore_index) / all equal / negative"""
    kind = rng.choice(["reversed", "shuffled", "offset", "gaps", "duplicated", "duplicated", "all-equal", "negative", "permuted-far"])
    if kind == "reversed": lab = list(range(N - 1, -1, -1))
    elif kind == "shuffled":
        lab = list(range(N)); rng.shuffle(lab)
    elif kind == "offset":
        o = rng.choice([1, 2, 100]); lab = list(range(o, o + N))
    elif kind == "gaps": lab = sorted(rng.sample(range(3 * N + 4), N))
    elif kind == "duplicated":
        a = (N + 1) // 2
        lab = list(range(a)) + list(range(N - a))         # pd.concat([df1, df2]) keeps both 0..k
        if rng.random() < 0.4: rng.shuffle(lab)
    elif kind == "all-equal": lab = [rng.randint(0, 5)] * N
    elif kind == "negative": lab = [-(i + 1) for i in range(N)]
    else:
        lab = rng.sample(range(1000, 1000 + 5 * N), N)
    return kind, lab


def _rows(rng, N, intcols=None):
    ids, idkind = _ids(rng, N)
    rows = [_row(rng, sid) for sid in ids]
    if idkind == "per-tomogram":
        a = (N + 1) // 2
        for i, r in enumerate(rows): r[IX["tomo_id"]] = 1.0 if i < a else 2.0
    for c in intcols or []:                # the values of an integer-typed column are whole numbers
        for r in rows:
            r[IX[c]] = float(int(round(r[IX[c]])))
    return [[f2b(v) for v in r] for r in rows], idkind


def _colorder(rng):
    """H3 — the 20 columns stored in another order (`Motl` accepts any order: check_df_correct_format compares the SORTED names): numpy / MRC
    axis order z,y,x inside every triple, reversed, coordinate and shift interleaved, a random permutation"""
    kind = rng.choice(["zyx", "zyx", "reversed", "interleaved", "random", "random"])
    cols = list(FIELDS)
    if kind == "zyx":
        for tri in (["x", "y", "z"], ["shift_x", "shift_y", "shift_z"]):
            idx = sorted(cols.index(c) for c in tri)
            for i, c in zip(idx, reversed(tri)): cols[i] = c
    elif kind == "reversed": cols.reverse()
    elif kind == "interleaved":
        rest = [c for c in cols if c not in ("x", "y", "z", "shift_x", "shift_y", "shift_z")]
        cols = rest[:7] + ["x", "shift_x", "y", "shift_y", "z", "shift_z"] + rest[7:]
    else: rng.shuffle(cols)
    return kind, cols


def _dress(rng, case, tier):
    """H3: a share of the cases carries non-default row labels"""
    if rng.random() < 0.30:
        case["labelkind"], case["labels"] = _labels(rng, len(case["rows"]))
    if rng.random() < 0.30:     # the frame stores its columns in another order; every access of the function must be by NAME
        case["colkind"], case["colorder"] = _colorder(rng)
    if rng.random() < 0.30:     # the method is inherited: call it on an instance of a subclass (an override there must show)
        case["receiver"] = rng.choice(RECEIVERS[1:])
    return case


def _call(rng, n, form, azimuth=False, sform=None):
    skind, s = _offset(rng, azimuth)
    sform = sform or rng.choice(SFORMS)
    if all(v == int(v) for v in s) and sform != "ndarray" and rng.random() < 0.6:
        sform = {"list": "intlist", "tuple": "inttuple"}[sform]      # [10, 0, 0] as the docstring example / the pinned tests write it
    elif all(v == int(v) for v in s) and sform == "ndarray" and rng.random() < 0.5:
        sform = "intarray"                                             # np.array([10, 0, 0]): an int64 array
    elif sform == "ndarray" and rng.random() < 0.22:
        sform = "f32array"                                             # a float32 array (data read from an MRC / EM file, a GPU pipeline)
        s = [float(np.float32(v)) for v in s]                          # the values ARE float32 numbers: the argument is exact
    return dict(sym=dict(form=form, n=n), s=[f2b(v) for v in s], skind=skind, sform=sform)


def _case(rng, n, form, maxcells, Nmax=100):
    k = rng.random()
    if k < 0.10: N = 1
    elif k < 0.62: N = rng.randint(2, 6)
    elif k < 0.90: N = rng.randint(7, 20)
    else: N = rng.randint(21, 100)
    N = max(1, min(N, Nmax, maxcells // n))
    if rng.random() < 0.14:
        name, cols = _intcols(rng)
        rows, idkind = _rows(rng, N, cols)
        return dict(rows=rows, idkind=idkind, calls=[_call(rng, n, form)], intkind=name, intcols=cols)
    rows, idkind = _rows(rng, N)
    return dict(rows=rows, idkind=idkind, calls=[_call(rng, n, form)])


def _session(rng, n, maxcells, forms):
    """G2: several calls in ONE process on the SAME Motl object, the offset handed over in the SAME ndarray (rewritten in place
    between the calls); the first call has an offset with non-zero azimuth, a later one repeats the symmetry order n"""
    N = max(1, min(rng.randint(1, 5), maxcells // (3 * n)))
    extra = {}
    if rng.random() < 0.12:
        name, cols = _intcols(rng)
        rows, idkind = _rows(rng, N, cols)
        extra = dict(intkind=name, intcols=cols)
    else:
        rows, idkind = _rows(rng, N)
    calls = [_call(rng, n, rng.choice(forms), azimuth=True, sform="ndarray"),
             _call(rng, n, rng.choice(forms), azimuth=rng.random() < 0.6, sform="ndarray")]
    if rng.random() < 0.5:
        m = rng.choice([n, rng.randint(1, 12)])
        calls.insert(rng.randint(1, 2), _call(rng, m, rng.choice(forms), sform=rng.choice(["ndarray", "list"])))
    for c in calls:
        if c["sform"] in ("intarray", "f32array"):      # the session's calls share ONE float64 ndarray
            c["sform"] = "ndarray"
    return dict(rows=rows, idkind=idkind, calls=calls, **extra)


def generate(rng, tier, n):
    for case in _generate(rng, tier, n):
        yield _dress(rng, case, tier)


def _generate(rng, tier, n):
    forms = _forms()
    maxcells = {"quick": 420, "thorough": 2500, "search": 300}[tier]
    made = 0
    if tier == "thorough":      # exhaustive sweep: every n in 1..64 in every symmetry form
        for nn in ALL_NS:
            for form in forms:
                if made < n:
                    yield _case(rng, nn, form, maxcells); made += 1
        # the far corner of the quantifier: 100 particles x n = 64 (6400 outputs), and 100 x 63 with integer-typed shifts
        rows, idkind = _rows(rng, 100)
        yield dict(rows=rows, idkind=idkind, calls=[_call(rng, 64, "C")]); made += 1
        rows, idkind = _rows(rng, 100, INT_SETS[0][1])
        yield dict(rows=rows, idkind=idkind, calls=[_call(rng, 63, "int")], intkind="shifts", intcols=INT_SETS[0][1]); made += 1
    else:                        # quick / search: EVERY n in 1..64 once, on tiny lists, forms cycling from a random start
        off = rng.randrange(len(forms))
        for nn in ALL_NS:
            if made < n:
                yield _case(rng, nn, forms[(nn + off) % len(forms)], maxcells=3 * nn, Nmax=3); made += 1
        if tier == "search":     # all n not dividing 360 a second time, other forms
            for nn in [m for m in ALL_NS if 360 % m != 0]:
                if made < n:
                    yield _case(rng, nn, forms[(nn + off + 3) % len(forms)], maxcells); made += 1
    while made < n:
        nn = rng.randint(1, 64) if rng.random() < 0.7 else rng.choice([m for m in ALL_NS if 360 % m != 0])
        k = rng.random()
        if k < 0.22:
            yield _session(rng, min(nn, 24), maxcells, forms)
        elif k < 0.29:           # long lists (the quantifier goes to 100 particles) with a small order
            small = rng.randint(1, 4)
            rows, idkind = _rows(rng, rng.randint(40, 100))
            yield dict(rows=rows, idkind=idkind, calls=[_call(rng, small, rng.choice(forms))])
        elif k < 0.33:           # numeric arguments outside the statement: the model of int() against the code
            case = _case(rng, min(nn, 12), "int", maxcells, Nmax=4)
            case["calls"][0]["sym"] = _outside_sym(rng, case["calls"][0]["sym"]["n"])
            yield case
        else:
            yield _case(rng, nn, rng.choice(forms), maxcells)
        made += 1


def _calls(case):
    """the calls of a case (old single-call corpus format accepted)"""
    if "calls" in case:
        return case["calls"]
    return [dict(sym=case["sym"], s=case["s"], skind=case.get("skind", "?"), sform=case.get("sform", "ndarray"))]


def key(case):
    import hashlib, json
    return hashlib.sha1(json.dumps([[(c["sym"], c["s"], c.get("sform")) for c in _calls(case)], case["rows"], case.get("intcols"), case.get("labels"), case.get("receiver"), case.get("colorder")],
                                   sort_keys=True).encode()).hexdigest()


def shrink(case):
    k0 = key(case)
    for cand in _shrink(case):
        if key(cand) != k0:
            yield cand


def _shrink(case):
    rows = case["rows"]
    calls = _calls(case)
    base = dict(rows=rows, idkind=case.get("idkind", "?"), calls=calls)
    for k in ("intcols", "intkind", "labels", "labelkind", "receiver", "colorder", "colkind"):
        if case.get(k) is not None:
            base[k] = case[k]
    if base.get("colorder"):
        yield {k: v for k, v in base.items() if k not in ("colorder", "colkind")}
    if base.get("receiver", "Motl") != "Motl":
        yield {k: v for k, v in base.items() if k != "receiver"}
    labels = base.get("labels")

    def sub(idx):
        d = dict(base, rows=[rows[i] for i in idx])
        if labels is not None:
            d["labels"] = [labels[i] for i in idx]
        return d
    if len(calls) > 1:
        for i in range(len(calls)):
            yield dict(base, calls=calls[:i] + calls[i + 1:])
    if labels is not None:
        yield {k: v for k, v in base.items() if k not in ("labels", "labelkind")}
    if base.get("intcols"):
        yield {k: v for k, v in base.items() if k not in ("intcols", "intkind")}
        if len(base["intcols"]) > 1:
            for c in base["intcols"][:6]:
                yield dict(base, intcols=[c], intkind="shrunk")
    if len(rows) > 1:
        for i in range(min(len(rows), 6)):
            yield sub([i])
        for i in range(min(len(rows) - 1, 5)):
            yield sub([i, i + 1])
        yield sub(range(len(rows) // 2))
    for ci, c in enumerate(calls):
        sym = c["sym"]

        def with_call(**kw):
            return dict(base, calls=calls[:ci] + [dict(c, **kw)] + calls[ci + 1:])
        for m in (7, 4, 3, 2, 1):
            if m < sym["n"]:
                yield dict(base, calls=[dict(d, sym=dict(d["sym"], n=m)) if d["sym"]["n"] == sym["n"] else d for d in calls])
        if sym["form"] not in ("int", "refused", "refusedint"):
            yield with_call(sym=dict(form="int", n=sym["n"]))
        if c.get("sform", "ndarray") != "ndarray" and len(calls) == 1:
            yield with_call(sform="ndarray")
        for s in ([1.0, 0.0, 0.0], [0.0, 0.0, 1.0], [1.0, 2.0, 3.0]):
            sb = [f2b(v) for v in s]
            if sb != c["s"]:
                yield with_call(s=sb, skind="shrunk")
    # plain parents: integer coordinates, zero shifts, simple angles
    simple = []
    for i, r in enumerate(rows):
        v = [0.0] * 20
        v[IX["subtomo_id"]] = b2f(r[IX["subtomo_id"]]); v[IX["tomo_id"]] = 1.0; v[IX["class"]] = 1.0
        v[IX["x"]], v[IX["y"]], v[IX["z"]] = 100.0 + i, 200.0, 300.0
        v[IX["phi"]], v[IX["theta"]], v[IX["psi"]] = 30.0 + 10 * i, 60.0, 45.0
        simple.append([f2b(x) for x in v])
    if simple != rows:
        yield dict(base, rows=simple)      # whole numbers everywhere: compatible with any integer-typed column set


# ------------------------------------------------------------------ implementation
REFUSED = [0.0, -0.0, 0.5, -0.9, 0.999, -1.0, -3.0, -2.5, float("nan"), float("inf"), float("-inf")]   # int() -> 0, negative, or raises
REFUSED_INT = [0, -1, -4]


def _outside_sym(rng, n):
    """numbers OUTSIDE the statement (it speaks of the order n itself), generated to tie the model of `int(symmetry)` (Lean `truncInt`: truncation
    toward zero of the exact value) to the code: n + fraction is n-fold; 0, negative numbers, NaN, infinities are refused. Judged against the
    model only (kind corr), never against the statement."""
    k = rng.random()
    if k < 0.5:
        return dict(form="floatfrac", n=n, frac=rng.choice([0.25, 0.5, 0.9, 0.999999, 1e-9]), np=rng.random() < 0.3)
    if k < 0.85:
        return dict(form="refused", n=0, bits=f2b(rng.choice(REFUSED)), np=rng.random() < 0.3)
    return dict(form="refusedint", n=0, value=rng.choice(REFUSED_INT), np=rng.random() < 0.3)


def _symmetry_arg(sym):
    n, form = sym["n"], sym["form"]
    if form == "text":
        return sym["text"]
    if form == "floatfrac":
        v = float(n) + sym["frac"]
        return np.float64(v) if sym.get("np") else v
    if form == "refused":
        v = b2f(sym["bits"])
        return np.float64(v) if sym.get("np") else v
    if form == "refusedint":
        return np.int64(sym["value"]) if sym.get("np") else int(sym["value"])
    return {"C": f"C{n}", "c": f"c{n}", "int": int(n), "float": float(n), "npint": np.int64(n), "npfloat": np.float64(n),
            "Csp": f"C {n}", "C0": f"C0{n}", "csp0": f"c  00{n}"}[form]


def _sym_wire(sym):
    """the argument AS GIVEN: a string as code points, an integer as itself, a float as its bit pattern — `int(symmetry)` is taken by the Lean model
    (`truncInt`: truncation toward zero of the exact value), not by the harness"""
    a = _symmetry_arg(sym)
    if isinstance(a, str):
        return {"str": [ord(c) for c in a]}
    if isinstance(a, (float, np.floating)):
        return {"numf": f2b(float(a))}
    return {"num": a.item() if isinstance(a, np.integer) else a}


def _where(e):
    """last frame of the traceback inside /cryocat/ ('' = the exception never passed through the library: harness / third party)"""
    import traceback
    for fr in reversed(traceback.extract_tb(e.__traceback__)):
        if "/cryocat/" in fr.filename:
            return f"{os.path.basename(fr.filename)}:{fr.lineno}"
    return ""


def _frame_sig(df):
    """what a caller could notice about a frame: columns, dtypes, index, every cell bit for bit"""
    return dict(cols=[str(c) for c in df.columns], dtypes=[str(t) for t in df.dtypes], index=[repr(i) for i in df.index],
                cells=[[f2b(x) if isinstance(x, (float, np.floating)) else repr(x) for x in row] for row in df.to_numpy(dtype=object).tolist()])


def _observe(out):
    """G3: the returned table as it is — python type, column labels, dtypes; numeric cells bit for bit, anything else as repr"""
    cols = [str(c) for c in out.df.columns]
    dtypes = [str(t) for t in out.df.dtypes]
    kinds = [t.kind if hasattr(t, "kind") else "O" for t in out.df.dtypes]
    nonnum = [c for c, k in zip(cols, kinds) if k not in "fiu"]
    rec = dict(cols=cols, dtypes=dtypes, kinds="".join(kinds), type=type(out).__name__, nonnumeric=nonnum,
               index_ok=list(out.df.index) == list(range(len(out.df))), nrows=len(out.df))
    if nonnum or sorted(cols) != sorted(FIELDS):
        rec["rows"] = None
        rec["sample"] = [repr(x)[:40] for x in (out.df.iloc[0].tolist() if len(out.df) else [])]
    else:
        arr = out.df[FIELDS].to_numpy()
        rec["rows"] = [[f2b(float(x)) for x in row] for row in arr.tolist()]
    return rec


def run_impl(case):
    import pandas as pd
    from cryocat import cryomotl
    vals = [[b2f(b) for b in r] for r in case["rows"]]

    def mk():
        df = pd.DataFrame(vals, columns=FIELDS, dtype=float)
        for c in case.get("intcols") or []:           # what Starfile.read / pd.read_csv give for a column of whole numbers
            df[c] = df[c].astype("int64")
        if case.get("labels") is not None:            # `Motl(df)` keeps the caller's row labels
            df.index = list(case["labels"])
        if case.get("colorder"):                      # the same 20 columns, stored in another order
            if sorted(case["colorder"]) != sorted(FIELDS):
                raise ValueError("colorder must be a permutation of the 20 fields")
            df = df[list(case["colorder"])]
        cls = case.get("receiver", "Motl")
        if cls not in RECEIVERS:
            raise ValueError(f"unknown receiver class {cls!r}")
        return getattr(cryomotl, cls)(df)           # the subclasses copy the frame and reset its row labels (check_df_type); Motl keeps them
    m = mk()
    before = _frame_sig(m.df)
    shared = None       # the caller-owned ndarray handed to every call that takes its offset as ndarray
    outs = []
    for c in _calls(case):
        svals = [b2f(b) for b in c["s"]]
        sform = c.get("sform", "ndarray")
        if sform == "ndarray":
            if shared is None:
                shared = np.array(svals, dtype=float)
            else:
                shared[:] = svals          # the caller legitimately rewrites its own array between the calls
            arg = shared
        elif sform == "list":
            arg = list(svals)
        elif sform == "intlist":
            arg = [int(v) for v in svals]
        elif sform == "inttuple":
            arg = tuple(int(v) for v in svals)
        elif sform == "intarray":
            arg = np.array([int(v) for v in svals], dtype=np.int64)
        elif sform == "f32array":
            arg = np.array(svals, dtype=np.float32)
        else:
            arg = tuple(svals)
        sym = _symmetry_arg(c["sym"])
        try:
            with warnings.catch_warnings():
                warnings.simplefilter("ignore")
                out = m.split_in_asymmetric_subunits(sym, arg)
            rec = _observe(out)
        except Exception as e:
            rec = {"error": f"{type(e).__name__}: {str(e)[:300]}", "where": _where(e)}
        after_s = [f2b(float(x)) for x in arg]
        rec["s_intact"] = (after_s == c["s"]) and type(arg).__name__ == {"ndarray": "ndarray", "list": "list", "tuple": "tuple", "intlist": "list",
                                                                         "inttuple": "tuple", "intarray": "ndarray", "f32array": "ndarray"}[sform] \
            and (sform != "intarray" or arg.dtype == np.int64) and (sform != "f32array" or arg.dtype == np.float32) and (sform not in ("intlist", "inttuple") or all(type(x) is int for x in arg))
        sig = _frame_sig(m.df)
        rec["df_intact"] = sig == before
        if not rec["df_intact"]:
            rec["df_change"] = next((k for k in ("cols", "dtypes", "index", "cells") if sig[k] != before[k]), "?")
            m = mk()   # later calls are judged on the intended input
        outs.append(rec)
    return dict(calls=outs)


def requests(case, obs):
    return [dict(op="expand", sym=_sym_wire(c["sym"]), s=c["s"], rows=case["rows"]) for c in _calls(case)]


# ------------------------------------------------------------------ judgement
def _f(bits):
    return [b2f(b) for b in bits]


def _obs_calls(case, obs):
    if "calls" in obs:
        return obs["calls"]
    return [obs] * len(_calls(case))     # framework-level error: the whole case raised outside any call


def _maxdev(case, obs, resps):
    """largest |impl - model| over orientation entries / complete positions (None when not comparable)"""
    try:
        dev = 0.0
        for c, o, m in zip(_calls(case), _obs_calls(case, obs), resps):
            subs = m["subs"]
            out = o["rows"]
            if len(subs) != len(out):
                return None
            extra = _pos_extra(c)
            for u, r in zip(subs, out):
                u, r = _f(u), _f(r)
                M = _zxz(r[IX["phi"]], r[IX["theta"]], r[IX["psi"]])
                W = np.array(u[20:29]).reshape(3, 3)
                dm = float(np.max(np.abs(M - W)))
                if not (_orient_tol(W) > TOL and dm <= _orient_tol(W)):     # inside scipy's gimbal zone the Euler triple itself is off by <= 2 sin(theta)
                    dev = max(dev, dm)
                for a, b in (("x", "shift_x"), ("y", "shift_y"), ("z", "shift_z")):
                    dp = abs((r[IX[a]] + r[IX[b]]) - (u[IX[a]] + u[IX[b]]))
                    if not (extra > 0.0 and dp <= extra):      # a float32 offset is computed in float32 by numpy: judged against its own bound
                        dev = max(dev, dp)
        return dev
    except Exception:
        return None


def _match(nrow, ok):
    """bijection outputs -> parents (both `nrow` long) with ok(i_out, j_parent) None for all pairs; identity first"""
    if all(ok(i, i) is None for i in range(nrow)):
        return list(range(nrow))
    import itertools
    if nrow <= 6:
        for perm in itertools.permutations(range(nrow)):
            if all(ok(i, perm[i]) is None for i in range(nrow)):
                return list(perm)
        return None
    free = list(range(nrow)); perm = []
    for i in range(nrow):
        j = next((j for j in free if ok(i, j) is None), None)
        if j is None:
            return None
        perm.append(j); free.remove(j)
    return perm


def _spec(parents, n, s, rows, sym_txt, pos_extra=0.0):
    """THE STATEMENT, evaluated directly on the implementation's output — independent of the Lean model and of any intermediate
    result of the implementation; parents are identified by geom5, parents that share an id by a matching on the clauses"""
    N = len(parents)
    if len(rows) != n * N:
        return [dict(kind="spec", clause="count", detail=f"{sym_txt}: {len(rows)} particles returned for {N} parents, property demands {n}*{N}={n*N}")]
    ids = [r[IX["subtomo_id"]] for r in rows]
    if len(set(ids)) != len(ids):
        return [dict(kind="spec", clause="unique-subtomo-id", detail=f"{sym_txt}: repeated subtomo_id among outputs")]
    byid = {}
    for j, p in enumerate(parents):
        byid.setdefault(p[IX["subtomo_id"]], []).append(j)
    groups = {}
    for i, r in enumerate(rows):
        pid, k1 = r[IX["geom5"]], r[IX["geom2"]]
        if pid not in byid:
            return [dict(kind="spec", clause="parent-geom5", detail=f"output {i}: geom5={pid} is no input subtomo_id")]
        if not (k1 == int(k1) and 1 <= k1 <= n):
            return [dict(kind="spec", clause="index-geom2", detail=f"output {i}: geom2={k1} not in 1..{n}")]
        groups.setdefault((pid, int(k1)), []).append(i)
        for a, b in (("x", "shift_x"), ("y", "shift_y"), ("z", "shift_z")):
            if r[IX[a]] != math.floor(r[IX[a]]):
                return [dict(kind="spec", clause="integer-xyz", detail=f"output {i} (parent id {pid} subunit {k1}): {a}={r[IX[a]]!r} is not an integer")]
            if not abs(r[IX[b]]) <= 0.5:
                return [dict(kind="spec", clause="shift-bound", detail=f"output {i} (parent id {pid} subunit {k1}): |{b}|={abs(r[IX[b]])!r} > 0.5")]
    for pid, js in byid.items():
        for k1 in range(1, n + 1):
            got = len(groups.get((pid, k1), []))
            if got != len(js):
                return [dict(kind="spec", clause="index-geom2", detail=f"{sym_txt}: {len(js)} parent(s) with id {pid} but subunit index {k1} recorded {got} time(s) for that id "
                             f"(a parent has an index twice, another index is missing)")]
    Rp, Ro = {}, {}

    def rp(j):
        if j not in Rp:
            P = parents[j]
            Rp[j] = (_zxz(P[IX["phi"]], P[IX["theta"]], P[IX["psi"]]),
                     np.array([P[IX["x"]] + P[IX["shift_x"]], P[IX["y"]] + P[IX["shift_y"]], P[IX["z"]] + P[IX["shift_z"]]]))
        return Rp[j]

    def ro(i):
        if i not in Ro:
            r = rows[i]
            Ro[i] = (_zxz(r[IX["phi"]], r[IX["theta"]], r[IX["psi"]]),
                     np.array([r[IX["x"]] + r[IX["shift_x"]], r[IX["y"]] + r[IX["shift_y"]], r[IX["z"]] + r[IX["shift_z"]]]))
        return Ro[i]
    rzk = {k: _rz(360.0 * k / n) for k in range(n)}

    def clause(i, j, k1):
        """None when output i is the k1-th subunit of parent j, else the finding"""
        P, r = parents[j], rows[i]
        R, centre = rp(j)
        got, gotp = ro(i)
        k = k1 - 1
        want = R @ rzk[k]
        d = float(np.max(np.abs(want - got)))
        who = f"parent row {j} (id {P[IX['subtomo_id']]}) subunit {k1}"
        if not d <= _orient_tol(want):
            return dict(kind="spec", clause="orientation", detail=f"{sym_txt}: {who}: orientation differs from R*Rz(360*{k}/{n}) by {d:.3g}")
        wantp = centre + want @ s
        d = float(np.max(np.abs(wantp - gotp)))
        if not d <= TOL * max(1.0, float(np.max(np.abs(wantp)))) + pos_extra:
            return dict(kind="spec", clause="position", detail=f"{sym_txt}: {who}: complete position {gotp.tolist()} but centre + R*Rz(360*{k}/{n}) s = {wantp.tolist()}")
        bad = [f for f in OTHER if not (r[IX[f]] == P[IX[f]])]
        if bad:
            return dict(kind="spec", clause="other-fields", detail=f"{who}: fields {bad} differ from the parent's")
        return None
    for (pid, k1), outs in groups.items():
        js = byid[pid]
        if len(js) == 1:
            f = clause(outs[0], js[0], k1)
            if f:
                return [f]
            continue
        memo = {}

        def ok(a, b):
            if (a, b) not in memo:
                memo[(a, b)] = clause(outs[a], js[b], k1)
            return memo[(a, b)]
        if _match(len(js), ok) is None:
            first = next(ok(a, a) for a in range(len(js)) if ok(a, a) is not None)
            first = dict(first, detail=first["detail"] + f" — and no other assignment of the {len(js)} outputs with geom5={pid}, geom2={k1} to the {len(js)} parents sharing that id satisfies the statement")
            return [first]
    return []


def _judge_call(case, ci, c, o, m):
    n = c["sym"]["n"]
    sym_txt = repr(_symmetry_arg(c["sym"]))
    tag = f"call {ci + 1}/{len(_calls(case))} " if len(_calls(case)) > 1 else ""
    form = c["sym"]["form"]
    if form in ("refused", "refusedint"):
        # outside the statement (which starts at n >= 1): model and code must both refuse — int() of NaN / inf raises, nfold = int(x) <= 0 cannot be expanded
        if m is None or "error" in m:
            return [dict(kind="corr", clause="model-error", detail=f"{tag}{m}")]
        refuses = m.get("subs") is None and (m.get("kind") in ("negative", "raises") or (m.get("kind") == "cyclic" and m.get("n") == 0))
        if not refuses:
            return [dict(kind="corr", clause="symmetry-vs-model", detail=f"{tag}{sym_txt}: the harness expects the model to refuse, it says {m.get('kind')} n={m.get('n')}")]
        if "error" not in o:
            return [dict(kind="corr", clause="refusal-vs-model", detail=f"{tag}{sym_txt}: the model refuses ({m.get('kind')}, nfold=int(symmetry) {'raises' if m.get('kind') == 'raises' else '<= 0'}) "
                         f"but the implementation returned {o.get('nrows')} rows")]
        return []
    if form == "floatfrac":
        # outside the statement too: int() truncates, the call is n-fold; everything found here is a disagreement with the MODEL of int() (corr)
        out = _judge_call(case, ci, dict(c, sym=dict(form="float", n=n)), o, m)
        return [dict(f, kind="corr", clause="int-truncation:" + f["clause"], detail=f"{tag}{sym_txt} (int() truncates to {n}): " + f["detail"]) for f in out]
    if "error" in o:
        if not o.get("where"):
            # G4: nothing of the library on the traceback — a harness / third-party failure is not a finding against the statement
            return [dict(kind="corr", clause="harness-or-library-raised", detail=f"{tag}{o['error']} (no frame inside cryocat/)")]
        return [dict(kind="spec", clause="raises", detail=f"{tag}split_in_asymmetric_subunits({sym_txt}, s) raised {o['error']} @{o.get('where','')}")]
    out = []
    # G2: caller-owned inputs — the statement is silent about them, so a change is reported as `corr` (a disagreement with the documented, model
    # behaviour "inputs are read only"), never as a violation of the statement
    if not o.get("s_intact", True):
        out.append(dict(kind="corr", clause="input-mutated", detail=f"{tag}{sym_txt}: the offset object handed in by the caller was changed by the call"))
    if not o.get("df_intact", True):
        out.append(dict(kind="corr", clause="input-mutated", detail=f"{tag}{sym_txt}: the particle list the method was called on was changed by the call ({o.get('df_change')})"))
    if out:
        return out
    parents = [_f(r) for r in case["rows"]]
    s = np.array(_f(c["s"]))
    if sorted(o["cols"]) != sorted(FIELDS):
        return [dict(kind="spec", clause="columns", detail=f"{tag}columns {o['cols']}")]
    if o.get("nonnumeric"):
        # G3: a numeric field that comes back as text / object
        return [dict(kind="corr", clause="dtype", detail=f"{tag}{sym_txt}: fields {o['nonnumeric']} returned with non-numeric dtype "
                     f"{[d for c_, d in zip(o['cols'], o['dtypes']) if c_ in o['nonnumeric']]} (first row {o.get('sample')})")]
    rows = [_f(r) for r in o["rows"]]
    extra = _pos_extra(c)
    sp = _spec(parents, n, s, rows, sym_txt, extra)
    if sp:
        return [dict(f, detail=tag + f["detail"]) for f in sp]
    # ---- correspondence with the Lean model (CryoCat.C10.expandSym at Float) — everything below is kind corr ----------
    if m is None or "error" in m:
        return [dict(kind="corr", clause="model-error", detail=f"{tag}{m}")]
    if m.get("kind") != "cyclic" or m.get("n") != n or m.get("subs") is None:
        return [dict(kind="corr", clause="symmetry-vs-model", detail=f"{tag}{sym_txt}: the Lean parser says {m.get('kind')} n={m.get('n')}, the harness meant cyclic n={n}")]
    if o["cols"] != list(case.get("colorder") or FIELDS):       # the documented behaviour keeps the caller's column order (cells are read by NAME)
        return [dict(kind="corr", clause="columns", detail=f"{tag}column order {o['cols']}, the list was given as {list(case.get('colorder') or FIELDS)}")]
    if any(k != "f" for k in o.get("kinds", "f" * 20)):
        return [dict(kind="corr", clause="dtype-vs-model", detail=f"{tag}dtypes {o['dtypes']} (the documented table is all float64)")]
    subs = [_f(u) for u in m["subs"]]
    if len(subs) != len(rows):
        return [dict(kind="corr", clause="count-vs-model", detail=f"{tag}model {len(subs)} impl {len(rows)}")]
    exact_offset = all(v == 0.0 for v in s)
    for i, (u, r) in enumerate(zip(subs, rows)):
        for f in ["subtomo_id", "geom2", "geom5"] + OTHER:
            if u[IX[f]] != r[IX[f]]:
                return [dict(kind="corr", clause="bookkeeping-vs-model", detail=f"{tag}output {i}: {f} impl {r[IX[f]]!r} model {u[IX[f]]!r}")]
        M = np.array(u[20:29]).reshape(3, 3)
        got = _zxz(r[IX["phi"]], r[IX["theta"]], r[IX["psi"]])
        d = float(np.max(np.abs(M - got)))
        if not d <= _orient_tol(M):
            return [dict(kind="corr", clause="orientation-vs-model", detail=f"{tag}output {i} (sorted parent {i // n}, subunit {i % n + 1}): differs by {d:.3g}")]
        for a, b in (("x", "shift_x"), ("y", "shift_y"), ("z", "shift_z")):
            pu, pr = u[IX[a]] + u[IX[b]], r[IX[a]] + r[IX[b]]
            if not abs(pu - pr) <= TOL * max(1.0, abs(pu)) + extra:
                return [dict(kind="corr", clause="position-vs-model", detail=f"{tag}output {i} (sorted parent {i // n}, subunit {i % n + 1}): {a}+{b} impl {pr!r} model {pu!r}")]
            near_tie = (not exact_offset) and abs(abs(u[IX[b]]) - 0.5) < max(TIE_MARGIN, 2.0 * extra)
            if not near_tie and u[IX[a]] != r[IX[a]]:
                return [dict(kind="corr", clause="rounding-vs-model", detail=f"{tag}output {i}: {a} impl {r[IX[a]]!r} model {u[IX[a]]!r} (pre-rounding value {pu!r}; model rounds the exact value half away from zero)")]
    if not o.get("index_ok", True) or o.get("type") != "Motl":
        return [dict(kind="corr", clause="container", detail=f"{tag}type {o.get('type')} index_ok {o.get('index_ok')}")]
    return []


def judge(case, obs, resps):
    calls = _calls(case)
    if "calls" not in obs:     # the framework caught an exception outside any call (building the input, encoding the output)
        if not obs.get("where"):
            return [dict(kind="corr", clause="harness-or-library-raised", detail=f"{obs.get('error')} (no frame inside cryocat/)")]
        return [dict(kind="spec", clause="raises", detail=f"raised {obs.get('error')} @{obs.get('where')}")]
    out = []
    for ci, (c, o) in enumerate(zip(calls, obs["calls"])):
        m = resps[ci] if ci < len(resps) else None
        out += _judge_call(case, ci, c, o, m)
        if out:
            break
    return out


def nontrivial(case, obs):
    if "calls" not in obs or any("error" in o for o in obs["calls"]) or len(case["rows"]) < 2:
        return False
    if not any((b2f(r[IX["theta"]]) % 180.0) != 0.0 for r in case["rows"]):
        return False
    for c in _calls(case):
        s = _f(c["s"])
        if c["sym"]["n"] >= 2 and not (s[0] == 0.0 and s[1] == 0.0):
            return True
    return False


def stats(case, obs, resps):
    calls = _calls(case)
    N = len(case["rows"])
    oc = _obs_calls(case, obs)
    ids = [r[IX["subtomo_id"]] for r in case["rows"]]
    d = {"n": [c["sym"]["n"] for c in calls],
         "n_class": ["refused (outside the statement)" if c["sym"]["n"] == 0 else ("divides-360" if 360 % c["sym"]["n"] == 0 else "not-dividing-360") for c in calls],
         "form": [c["sym"]["form"] for c in calls], "offset": [c.get("skind", "?") for c in calls], "offset_passed_as": [c.get("sform", "ndarray") for c in calls],
         "N": "1" if N == 1 else ("2-6" if N <= 6 else ("7-20" if N <= 20 else "21-100")),
         "calls_in_one_process_on_one_object": len(calls),
         "same_n_repeated_in_session": "yes" if len({c["sym"]["n"] for c in calls}) < len(calls) else "no",
         "parent_ids": "repeated" if len(set(ids)) < len(ids) else "unique", "idkind": case.get("idkind", "corpus"),
         "integer_typed_columns": case.get("intkind", "none" if not case.get("intcols") else "corpus"),
         "receiver_class": case.get("receiver", "Motl"), "column_order": case.get("colkind", "canonical" if not case.get("colorder") else "corpus"),
         "row_labels": case.get("labelkind", "default RangeIndex" if case.get("labels") is None else "corpus"),
         "impl": ["raised" if "error" in o else "returned" for o in oc],
         "returned_dtypes": sorted({o.get("kinds", "?") for o in oc if "error" not in o})}
    dev = _maxdev(case, obs, resps)
    if dev is not None:
        d["max_dev_vs_model(log10)"] = "0" if dev == 0 else str(max(-17, int(math.floor(math.log10(dev)))))
    ties = 0
    below = 0
    try:
        for c, m in zip(calls, resps):
            s = _f(c["s"])
            if any(v != 0.0 for v in s):
                for u in m["subs"]:
                    u = _f(u)
                    ties += sum(1 for b in ("shift_x", "shift_y", "shift_z") if abs(abs(u[IX[b]]) - 0.5) < TIE_MARGIN)
            else:
                ties_exact = sum(1 for u in m["subs"] for b in ("shift_x", "shift_y", "shift_z") if abs(b2f(u[IX[b]])) == 0.5)
                d["exact_half_ties"] = "some" if ties_exact else "none"
            below += sum(1 for u in m["subs"] for a, b in (("x", "shift_x"), ("y", "shift_y"), ("z", "shift_z")) if b2f(u[IX[a]]) + b2f(u[IX[b]]) < -0.5)
    except Exception:
        pass
    d["near_tie_roundings_skipped"] = "some" if ties else "none"
    d["coordinates_below_-0.5"] = "some" if below else "none"
    thetas = [b2f(r[IX["theta"]]) for r in case["rows"]]
    d["gimbal_parent"] = "yes" if any(t in (0.0, 180.0) for t in thetas) else "no"
    st = [abs(math.sin(math.radians(t))) for t in thetas if t not in (0.0, 180.0)]
    d["near_pole_parent"] = ("inside scipy's gimbal zone (0<|sin theta|<=1e-7)" if any(x <= GIMBAL_EPS for x in st) else
                             ("just outside (1e-7<|sin theta|<=1e-5)" if any(x <= 1e-5 for x in st) else "no"))
    return d


def sample_view(case):
    calls = _calls(case)
    return dict(calls=[dict(symmetry=repr(_symmetry_arg(c["sym"])), s=_f(c["s"]), offset_passed_as=c.get("sform", "ndarray")) for c in calls],
                receiver_class=case.get("receiver", "Motl"), integer_typed_columns=case.get("intcols"), row_labels=(case.get("labels") or [])[:12] or None,
                n_parents=len(case["rows"]), parent_ids=[b2f(r[IX["subtomo_id"]]) for r in case["rows"]][:12],
                first_parent=dict(zip(FIELDS, _f(case["rows"][0]))))


def classify(case, obs, finding):
    return None


def probes(rng):
    """probe the recorded scipy / decimal assumptions on random angles (incl. gimbal lock) and on ties / near-ties"""
    from scipy.spatial.transform import Rotation as rot
    import decimal
    out = []
    worst_m, worst_rt, worst_mul, worst_zone, nzone = 0.0, 0.0, 0.0, 0.0, 0
    with warnings.catch_warnings():
        warnings.simplefilter("ignore")
        for i in range(300):
            a = [_angle(rng), _angle(rng, theta=True), _angle(rng)]
            b = [_angle(rng), 0.0, 0.0]
            R = rot.from_euler("zxz", a, degrees=True)
            M = R.as_matrix()
            worst_m = max(worst_m, float(np.max(np.abs(M - _zxz(*a)))))
            Q = rot.from_euler("zxz", b, degrees=True)
            worst_mul = max(worst_mul, float(np.max(np.abs((R * Q).as_matrix() - _zxz(*a) @ _rz(b[0])))))
            v = np.array([rng.uniform(-50, 50) for _ in range(3)])
            worst_mul = max(worst_mul, float(np.max(np.abs(R.apply(v) - _zxz(*a) @ v))) / 50.0)
            e = (R * Q).as_euler("zxz", degrees=True)
            T = (R * Q).as_matrix()
            d = float(np.max(np.abs(_zxz(*e) - T)))
            if _orient_tol(T) > TOL:        # inside scipy's gimbal zone: the triple is off by <= 2 sin(theta) (see _orient_tol), probed against that bound
                worst_zone = max(worst_zone, d / _orient_tol(T)); nzone += 1
            else:
                worst_rt = max(worst_rt, d)
    out.append(dict(name="scipy from_euler('zxz',degrees) = Rz(psi)Rx(theta)Rz(phi)", ok=worst_m <= 1e-12, detail=f"max dev {worst_m:.3g} over 300 triples"))
    out.append(dict(name="scipy Rotation `*` = matrix product, apply = matrix-vector", ok=worst_mul <= 1e-12, detail=f"max dev {worst_mul:.3g}"))
    out.append(dict(name="scipy as_euler('zxz') o from_euler reproduces the rotation (incl. gimbal lock)", ok=worst_rt <= 1e-9, detail=f"max dev {worst_rt:.3g}"))
    out.append(dict(name="scipy as_euler('zxz') with 0 < |sin theta| <= 1e-7: the returned triple is within 1e-9 + 2 sin(theta) of the rotation", ok=worst_zone <= 1.0,
                    detail=f"{nzone} triples inside the zone, worst deviation / bound = {worst_zone:.3g}"))
    # float32 offsets: numpy's float32 polar form against the float64 one, relative to the bound 5 eps32 rho of _pos_extra
    worst32 = 0.0
    for i in range(400):
        s = np.array([rng.uniform(-60, 60) if i % 3 else rng.uniform(-2000, 2000) for _ in range(3)], dtype=np.float32)
        phi = np.deg2rad(360.0 * rng.randint(0, 63) / rng.randint(1, 64))
        r32, t32 = np.sqrt(s[0] ** 2 + s[1] ** 2), np.arctan2(s[1], s[0])
        a = np.full((1,), r32) * np.cos(np.full((1,), t32) + phi), np.full((1,), r32) * np.sin(np.full((1,), t32) + phi)
        s64 = s.astype(np.float64)
        r64, t64 = np.sqrt(s64[0] ** 2 + s64[1] ** 2), np.arctan2(s64[1], s64[0])
        d = max(abs(float(a[0][0]) - r64 * math.cos(t64 + phi)), abs(float(a[1][0]) - r64 * math.sin(t64 + phi)))
        worst32 = max(worst32, d / (5.0 * EPS32 * max(float(r64), 1e-300)))
    out.append(dict(name="numpy float32 polar form (sqrt, arctan2 in float32) is within 5 eps32 rho of the float64 one", ok=worst32 <= 1.0,
                    detail=f"400 float32 offsets, worst deviation / bound = {worst32:.3g}"))
    xs = [0.5, -0.5, 1.5, -1.5, 2.5, -2.5, HALF_BELOW, -HALF_BELOW, 0.5000000000000001, -0.5000000000000001, 1.4999999999999998, 4503599627370495.5,
          -4503599627370495.5, 9007199254740993.0, 0.0, -0.0, 1e-320, 123456.5, -123456.5] + [rng.uniform(-3000, 3000) for _ in range(40)] + [_dy(rng, -50, 50) for _ in range(40)]
    try:
        r = core.run_driver([dict(prop=PROP, op="round", xs=[f2b(x) for x in xs])])[0]
        py = [int(decimal.Decimal(x).to_integral_value(rounding=decimal.ROUND_HALF_UP)) for x in xs]
        ok = r.get("r") == py
        det = f"{len(xs)} values incl. exact ties, 0.49999999999999994 and 2^52-0.5" if ok else f"first difference at {next((x for x, a, b in zip(xs, r.get('r') or [], py) if a != b), '?')!r}"
    except Exception as e:
        ok, det = False, f"{type(e).__name__}: {e}"
    out.append(dict(name="Decimal(float).to_integral_value(ROUND_HALF_UP) = Lean ratRound on the exact value", ok=ok, detail=det))
    return out


LEVEL_TEXT = ("Lean 4 theorems about an executable model of Motl.split_in_asymmetric_subunits (cyclic branch) + update_coordinates, for every n>=1, "
              "every particle list (parent ids may repeat) and every offset: count n*N, outputs are exactly the (parent,k) pairs, output n*i+k is subunit k of the i-th "
              "parent in stable id order, ids 1..n*N unique, geom5/geom2 bookkeeping, "
              "orientation R*Rz(k*a), complete position = centre + orientation*s (so every subunit maps back to the centre), subunits related by rotations "
              "about the parent's own z axis (conjugates R*Rz*R^T fixing R e_z), closure Rz(a)^n=1, integer x,y,z and |shift|<=1/2 for any rounding to a nearest integer; "
              "over the reals the step angle is 2*pi/n; the code's own arithmetic for the offset (polar form: sqrt, arctan2, cos/sin of the+deg2rad(k*360/n)) is modelled (`expandP`, "
              "what the driver runs) and proved equal to the Cartesian rotation over R with arctan2 = Complex.arg (abstractly: under the polar / angle-addition identities that hold for the real functions); the symmetry string is parsed in Lean (last run of "
              "digits; 'C'+str(n), blanks, zero padding proved to give n) and int() of a numeric argument is modelled as truncation toward zero of its exact value; "
              "the model is tied to the source by regenerated constants/field names/expression shapes, a whole-body dump with alpha-renamed locals, and by a differential run of "
              "the real function against the model on generated lists (every n in 1..64 in EVERY tier)")
LEVEL_NOTE = ("trusted/modelled: Lean kernel; translator anchors; scipy Rotation (from_euler/as_euler/*/apply) and numpy trigonometry/polar form "
              "(probed and compared with tolerance 1e-9, not proved); Decimal ROUND_HALF_UP on a float = exact rational rounding (probed each run); pandas iloc/argsort/repeat/tile "
              "positional semantics (compared on every case); Python's \\d / int() on non-ASCII digits is outside the model; the equality polar form = Cartesian rotation "
              "(`centerShift_eq`, `expandP_eq`) is proved UNDER the identities `PolarExact` — polar coordinates, angle addition — which hold for the real sqrt / arg / cos / sin "
              "(`realPolar_exact`): its substance is the statement over the reals, the abstract version only factors the algebra; a float32 offset is judged with float32 precision")
TECHNIQUE = "Lean 4 proof (ring identities over any commutative ring, list induction, stable merge sort, rational rounding, real trigonometry for the step angle and the polar form (Complex.arg), digit-string parsing, truncation toward zero) + regenerated anchors + differential correspondence"
DESIGN_REF = "DESIGN.md section 4, C10"
